"""Equivalence script: dumps the observable behaviour of the C15-anchored code to JSON, or compares with a saved dump.

Usage (from the worktree root):
    /venv/bin/python _refactor/RN/equiv.py dump _refactor/tmp/pristine.json      # on the pristine checkout
    git apply _refactor/RN/patch.diff
    /venv/bin/python _refactor/RN/equiv.py compare _refactor/tmp/pristine.json   # on the refactored checkout
"""
import os
import sys

sys.path.insert(0, os.getcwd())  # run from the worktree root: import the checkout under test

import inscripta.biocantor.location  # noqa: F401,E402  (must be first: circular import otherwise)

import itertools
import json

from inscripta.biocantor import constants
from inscripta.biocantor.gene.biotype import Biotype, UNKNOWN_BIOTYPE
from inscripta.biocantor.gene.cds import CDSInterval
from inscripta.biocantor.gene.cds_frame import CDSFrame, CDSPhase
from inscripta.biocantor.gene.codon import Codon, TranslationTable, START_CODONS_BY_TRANSLATION_TABLE
from inscripta.biocantor.location.location_impl import SingleInterval
from inscripta.biocantor.location.strand import Strand
from inscripta.biocantor.parent import Parent
from inscripta.biocantor.sequence import Sequence
from inscripta.biocantor.sequence.alphabet import Alphabet, ALPHABET_TO_NUCLEOTIDE_COMPLEMENT
from inscripta.biocantor.sequence.sequence import SequenceType


def attempt(fn, *args, **kwargs):
    """Result of a call as something JSON-able: the repr of the value, or the exception type and message."""
    try:
        return ["ok", repr(fn(*args, **kwargs))]
    except BaseException as e:  # noqa
        return ["exc", type(e).__name__, str(e)]


def seq_to_parent(seq, alphabet=Alphabet.NT_EXTENDED_GAPPED, seq_id=None, seq_type=SequenceType.CHROMOSOME):
    return Parent(
        sequence=Sequence(seq, alphabet, type=seq_type, id=seq_id), location=SingleInterval(0, len(seq), Strand.PLUS)
    )


def seq_chunk_to_parent(seq, sequence_name, start, end, strand=Strand.PLUS, alphabet=Alphabet.NT_EXTENDED_GAPPED):
    chunk_id = f"{sequence_name}:{start}-{end}"
    return Parent(
        id=chunk_id,
        sequence=Sequence(
            seq,
            alphabet,
            id=chunk_id,
            type=SequenceType.SEQUENCE_CHUNK,
            parent=Parent(
                location=SingleInterval(
                    start, end, strand, parent=Parent(id=sequence_name, sequence_type=SequenceType.CHROMOSOME)
                )
            ),
        ),
    )


def dump_constants(out):
    out["gencode"] = [[k, v] for k, v in constants.gencode.items()]
    out["extended_gencode"] = [[k, v] for k, v in constants.extended_gencode.items()]
    out["aacodons"] = [[k, type(v).__name__, list(v)] for k, v in constants.aacodons.items()]
    out["constants_types"] = [type(getattr(constants, n)).__name__ for n in ("gencode", "extended_gencode", "aacodons")]
    out["constants_public"] = sorted(n for n in dir(constants) if not n.startswith("_"))


def dump_codon(out):
    letters = "ATUCGNWSMKRYBDHV"
    res = {}
    # invalid inputs first, so that what they leave in the singleton cache is also compared
    bad = ["", "A", "AT", "ATGA", "AXG", "at-", "ATGATG", "   ", "A G", "123", "ATGX"]
    res["bad"] = [[b, attempt(Codon, b)] for b in bad]
    res["bad_again"] = [[b, attempt(Codon, b)] for b in bad]
    per = []
    for trip in itertools.product(letters, repeat=3):
        s = "".join(trip)
        for text in (s, s.lower(), s[0].lower() + s[1:]):
            c = Codon(text)
            per.append(
                [
                    text,
                    repr(c),
                    str(c),
                    c.value,
                    c.name,
                    hash(c) == hash(s),
                    c is Codon(s),
                    c == Codon(s),
                    c == s,
                    c != Codon("ATG"),
                    c.translate(),
                    c.translate(True),
                    c.translate(False),
                    c.translate(strict=False),
                    [str(x) for x in c.synonymous_codons()],
                    [str(x) for x in c.synonymous_codons(True)],
                    [str(x) for x in c.synonymous_codons(include_self=False)],
                    all(x is Codon(str(x)) for x in c.synonymous_codons(True)),
                    type(c.synonymous_codons()).__name__,
                    c.is_stop_codon,
                    c.is_strict_codon,
                    c.is_canonical_start_codon,
                    c.is_start_codon_in_specific_translation_table(),
                    [c.is_start_codon_in_specific_translation_table(t) for t in TranslationTable],
                    [c.is_start_codon_in_specific_translation_table(translation_table=t) for t in TranslationTable],
                ]
            )
    res["per_codon"] = per
    res["bad_table"] = [
        attempt(Codon("ATG").is_start_codon_in_specific_translation_table, t) for t in (None, 2, 1, 11, 0, "1")
    ]
    res["from_sequence"] = [
        attempt(Codon, Sequence("atg", Alphabet.NT_STRICT)),
        attempt(Codon, Sequence("CTN", Alphabet.NT_EXTENDED)),
        attempt(Codon, Sequence("ATGA", Alphabet.NT_STRICT)),
    ]
    res["singletons_keys"] = list(Codon._singletons_.keys())
    res["singletons_ok"] = all(hasattr(v, "_val") == (len(k) == 3 and k.strip(letters) == "") for k, v in Codon._singletons_.items())
    res["slots"] = list(Codon.__slots__)
    res["start_tables"] = [
        [repr(k), type(v).__name__, sorted(str(c) for c in v)] for k, v in START_CODONS_BY_TRANSLATION_TABLE.items()
    ]
    res["translation_table"] = [[m.name, m.value] for m in TranslationTable]
    out["codon"] = res


def dump_frames(out):
    res = {}
    ints = list(range(-4, 6)) + [True, False, 1.0, 2.0, 0.5, "1", None]
    res["phase_from_int"] = [[repr(i), attempt(CDSPhase.from_int, i)] for i in ints]
    res["frame_from_int"] = [[repr(i), attempt(CDSFrame.from_int, i)] for i in ints]
    res["phase"] = [[repr(p), repr(p.to_frame()), p.to_gff(), repr(p.to_frame().to_phase())] for p in CDSPhase]
    res["frame"] = [[repr(f), repr(f.to_phase()), repr(f.to_phase().to_frame())] for f in CDSFrame]
    shifts = list(range(-60, 61)) + [10**9, -(10**9), 10**30 + 1, -(10**30) - 2, True, False]
    shifts += [1.0, -1.0, 2.5, -2.5, -1.5, 0.0, -0.0, 3.0, -3.0, 7.25, -7.25]
    res["shift"] = [[repr(f), repr(s), attempt(f.shift, s)] for f in CDSFrame for s in shifts]
    res["shift_kw"] = [[repr(f), s, attempt(f.shift, shift=s)] for f in CDSFrame for s in range(-7, 8)]
    res["shift_bad"] = [[repr(f), repr(s), attempt(f.shift, s)[:2]] for f in CDSFrame for s in ("1", None, [1])]
    res["members"] = [[c.__name__, [[m.name, m.value] for m in c]] for c in (CDSPhase, CDSFrame)]
    out["frames"] = res


class Weird:
    """an operand that claims to be equal to anything"""

    def __eq__(self, other):
        return True

    def __hash__(self):
        return 1

    def __repr__(self):
        return "Weird()"


def dump_strand(out):
    res = {}
    symbols = ["+", "-", ".", "", " ", "x", "++", None, 1, -1, 0, Strand.PLUS, b"+", ["+"], ("+",), 1.0, Weird(), "+ ", "\u2212"]
    res["from_symbol"] = [[repr(s), attempt(Strand.from_symbol, s)] for s in symbols]
    res["from_symbol_kw"] = [attempt(Strand.from_symbol, value=s) for s in "+-.?"]
    res["from_int"] = [[repr(i), attempt(Strand.from_int, i)] for i in [-2, -1, 0, 1, 2, True, False, 1.0, "1", None]]
    res["members"] = [[m.name, m.value, str(m), m.to_symbol(), repr(m), repr(m.reverse()), repr(m.reverse().reverse())] for m in Strand]
    res["order_fn"] = repr(Strand._order())
    others = list(Strand) + [1, -1, 0, "+", None, 1.5, Weird()]
    ops = {
        "lt": lambda a, b: a < b,
        "le": lambda a, b: a <= b,
        "gt": lambda a, b: a > b,
        "ge": lambda a, b: a >= b,
        "eq": lambda a, b: a == b,
        "ne": lambda a, b: a != b,
        "rlt": lambda a, b: b < a,
        "rge": lambda a, b: b >= a,
        "__lt__": lambda a, b: a.__lt__(b),
        "relative_to": lambda a, b: a.relative_to(b),
        "relative_to_kw": lambda a, b: a.relative_to(other=b),
    }
    res["binary"] = [[n, repr(a), repr(b), attempt(f, a, b)] for n, f in ops.items() for a in Strand for b in others]
    res["sorted"] = [repr(sorted(p)) for p in itertools.permutations(Strand)]
    res["min_max"] = [repr(min(Strand)), repr(max(Strand))]
    res["assert_directional"] = [attempt(m.assert_directional) for m in Strand]
    res["hash_eq"] = [hash(m) == hash(Strand(m.value)) for m in Strand]
    res["fmt"] = ["{}".format(m) + f"{m}" + "%s" % m for m in Strand]
    # locations use strands: a few str/repr of intervals
    res["intervals"] = [
        [str(SingleInterval(2, 9, s)), repr(SingleInterval(2, 9, s)), str(SingleInterval(2, 9, s).reverse_strand())]
        for s in Strand
    ]
    out["strand"] = res


def dump_alphabet(out):
    res = {}
    res["members"] = [[a.name, a.value, attempt(a.is_nucleotide_alphabet)] for a in Alphabet]
    res["tables"] = [
        [repr(k), type(v).__name__, [[a, b] for a, b in v.items()]] for k, v in ALPHABET_TO_NUCLEOTIDE_COMPLEMENT.items()
    ]
    res["table_type"] = type(ALPHABET_TO_NUCLEOTIDE_COMPLEMENT).__name__
    seqs = []
    for a in Alphabet:
        text = a.value + a.value.lower() + a.value[::-1]
        for t in (text, a.value, "", a.value[:3] * 4):
            seqs.append(
                [
                    a.name,
                    t,
                    attempt(lambda: str(Sequence(t, a))),
                    attempt(lambda: str(Sequence(t, a).complement())),
                    attempt(lambda: str(Sequence(t, a).reverse_complement())),
                    attempt(lambda: str(Sequence(t, a).reverse_complement().reverse_complement())),
                    attempt(lambda: str(Sequence(t, a).translate())),
                ]
            )
        seqs.append([a.name, attempt(lambda: str(Sequence("ACGTX?", a))), attempt(lambda: str(Sequence("ACGTX?", a, validate_alphabet=False).reverse_complement()))])
    res["sequences"] = seqs
    out["alphabet"] = res


def dump_biotype(out):
    res = {}
    res["members"] = [[n, m.name, m.value, repr(m)] for n, m in Biotype.__members__.items()]
    res["iter"] = [[m.name, m.value] for m in Biotype]
    res["by_value"] = [[i, attempt(Biotype, i)] for i in range(-1, 37)]
    names = list(Biotype.__members__) + ["mrna", "protein coding", "", "unspecified", UNKNOWN_BIOTYPE]
    res["by_name"] = [[n, attempt(lambda: Biotype[n]), Biotype.has_name(n)] for n in names]
    res["has_value"] = [[repr(v), attempt(Biotype.has_value, v)] for v in list(range(-1, 37)) + ["mRNA", None]]
    res["type"] = [Biotype.__name__, [b.__name__ for b in Biotype.__mro__], len(Biotype)]
    res["alias_identity"] = [
        Biotype["mRNA"] is Biotype["protein_coding"],
        Biotype["protein-coding"] is Biotype.protein_coding,
        Biotype["pseudo"] is Biotype.pseudogene,
        Biotype["miscRNA"] is Biotype.misc_RNA,
        Biotype["lnc_RNA"] is Biotype.lncRNA,
    ]
    out["biotype"] = res


GENOME = (
    "GTATTCTTGGACCTAATTATGAAACCCGGGTTTTAGCATGCTAGCTTGACTGACCATCGATCGGGATATTTAAACCCGTGCATGCATCTGA"
    "CCATAGGCTNACGTRYACGATATGGCGGCGTAAGTGACTTGCTGAATAAGGGCCCTTTAAATGATTATCATAGTGACGNCTGTAGCTAGCA"
)


def cds_cases():
    n = len(GENOME)
    layouts = [
        ([18], [36]),
        ([0], [n]),
        ([2], [n - 1]),
        ([5, 40], [30, 75]),
        ([5, 40, 90], [29, 71, 140]),
        ([10, 33, 60, 100], [21, 47, 88, 121]),
        ([1, 50, 120], [8, 52, 170]),
        ([36], [96]),
    ]
    for starts, ends in layouts:
        for strand in (Strand.PLUS, Strand.MINUS):
            for first in (CDSFrame.ZERO, CDSFrame.ONE, CDSFrame.TWO):
                yield starts, ends, strand, first


def parents():
    n = len(GENOME)
    yield "full", seq_to_parent(GENOME)
    yield "full_strict_unknown_alphabet", seq_to_parent(GENOME.replace("R", "N").replace("Y", "N"), Alphabet.NT_STRICT_UNKNOWN)
    yield "chunk_all", seq_chunk_to_parent(GENOME, "chr1", 0, n)
    yield "chunk_mid", seq_chunk_to_parent(GENOME[4:150], "chr1", 4, 150)
    yield "chunk_left", seq_chunk_to_parent(GENOME[0:60], "chr1", 0, 60)
    yield "chunk_right", seq_chunk_to_parent(GENOME[45:n], "chr1", 45, n)
    yield "none", None


def dump_cds(out):
    res = []
    for pname, parent in parents():
        for starts, ends, strand, first in cds_cases():
            key = [pname, starts, ends, strand.name, first.name]

            def build(frames_kind):
                loc_len = [e - s for s, e in zip(starts, ends)]
                frames = []
                f = first
                order = range(len(starts)) if strand is Strand.PLUS else reversed(range(len(starts)))
                tmp = {}
                for i in order:
                    tmp[i] = f
                    f = f.shift(loc_len[i])
                frames = [tmp[i] for i in range(len(starts))]
                if frames_kind == "phase":
                    frames = [x.to_phase() for x in frames]
                return CDSInterval(starts, ends, strand, frames, parent_or_seq_chunk_parent=parent, sequence_name="chr1")

            for kind in ("frame", "phase"):
                rec = {"key": key + [kind]}
                c = attempt(build, kind)
                rec["build"] = c[:1] + ([c[1:]] if c[0] == "exc" else [])
                if c[0] == "ok":
                    cds = build(kind)
                    rec["repr"] = repr(cds)
                    rec["str"] = str(cds)
                    rec["to_dict"] = attempt(lambda: cds.to_dict())
                    rec["to_dict_cr"] = attempt(lambda: cds.to_dict(chromosome_relative_coordinates=False))
                    rec["frames"] = attempt(lambda: cds.frames)
                    rec["cr_frames"] = attempt(lambda: cds.chunk_relative_frames)
                    rec["num_codons"] = attempt(lambda: cds.num_codons)
                    rec["num_cr_codons"] = attempt(lambda: cds.num_chunk_relative_codons)
                    rec["codons"] = attempt(lambda: list(cds.scan_codons()))
                    rec["codons_trunc"] = attempt(lambda: list(cds.scan_codons(truncate_at_in_frame_stop=True)))
                    rec["translate"] = attempt(lambda: str(cds.translate()))
                    rec["translate_trunc"] = attempt(lambda: str(cds.translate(truncate_at_in_frame_stop=True)))
                    rec["codon_locs"] = attempt(lambda: list(cds.scan_codon_locations()))
                    rec["chrom_codon_locs"] = attempt(lambda: list(cds.scan_chromosome_codon_locations()))
                    rec["cr_codon_locs"] = attempt(lambda: list(cds.scan_chunk_relative_codon_locations()))
                    rec["canonical_start"] = attempt(lambda: cds.has_canonical_start_codon)
                    rec["start_in_table"] = [
                        attempt(lambda: cds.has_start_codon_in_specific_translation_table(t)) for t in TranslationTable
                    ]
                    rec["valid_stop"] = attempt(lambda: cds.has_valid_stop)
                    rec["in_frame_stop"] = attempt(lambda: cds.has_in_frame_stop)
                    rec["gff"] = attempt(lambda: [str(x) for x in cds.to_gff()])
                    rec["gff_cr"] = attempt(lambda: [str(x) for x in cds.to_gff(chromosome_relative_coordinates=False)])
                    rec["bed"] = attempt(lambda: str(cds.to_bed12()))
                    rec["spliced"] = attempt(lambda: str(cds.get_spliced_sequence()))
                    rec["aa_at"] = [
                        attempt(lambda: cds.sequence_pos_to_amino_acid(p)) for p in range(starts[0], min(ends[-1], starts[0] + 14))
                    ]
                    rec["optimize"] = attempt(lambda: cds.optimize_blocks().to_dict())
                    rec["optimize_combine"] = attempt(lambda: cds.optimize_and_combine_blocks().to_dict())
                res.append(rec)
    # frames constructed from locations
    for starts, ends, strand, first in cds_cases():
        res.append(
            {
                "key": ["from_location", starts, ends, strand.name],
                "v": attempt(
                    lambda: CDSInterval.from_location(
                        inscripta.biocantor.location.CompoundInterval(starts, ends, strand)
                        if len(starts) > 1
                        else SingleInterval(starts[0], ends[0], strand),
                        [first] * len(starts),
                    ).to_dict()
                ),
                "c": attempt(
                    lambda: CDSInterval.construct_frames_from_location(
                        inscripta.biocantor.location.CompoundInterval(starts, ends, strand), first
                    )
                ),
            }
        )
    out["cds"] = res


def collect():
    out = {}
    dump_constants(out)
    dump_codon(out)
    dump_frames(out)
    dump_strand(out)
    dump_alphabet(out)
    dump_biotype(out)
    dump_cds(out)
    # normalise through JSON so that tuples/lists compare equal
    return json.loads(json.dumps(out))


def diff(a, b, path=""):
    if type(a) is not type(b):
        yield f"{path}: type {type(a).__name__} != {type(b).__name__}"
    elif isinstance(a, dict):
        for k in sorted(set(a) | set(b)):
            if k not in a or k not in b:
                yield f"{path}/{k}: missing on one side"
            else:
                yield from diff(a[k], b[k], f"{path}/{k}")
    elif isinstance(a, list):
        if len(a) != len(b):
            yield f"{path}: length {len(a)} != {len(b)}"
        for i, (x, y) in enumerate(zip(a, b)):
            yield from diff(x, y, f"{path}[{i}]")
    elif a != b:
        yield f"{path}: {a!r} != {b!r}"


def count(x):
    if isinstance(x, dict):
        return sum(count(v) for v in x.values())
    if isinstance(x, list):
        return sum(count(v) for v in x)
    return 1


def main():
    mode, path = sys.argv[1], sys.argv[2]
    data = collect()
    if mode == "dump":
        os.makedirs(os.path.dirname(os.path.abspath(path)), exist_ok=True)
        with open(path, "w") as fh:
            json.dump(data, fh)
        print(f"dumped {count(data)} leaf values to {path}")
        return 0
    with open(path) as fh:
        ref = json.load(fh)
    problems = list(diff(ref, data))
    for p in problems[:40]:
        print("DIFF", p)
    print(f"compared {count(ref)} leaf values: {'IDENTICAL' if not problems else str(len(problems)) + ' differences'}")
    return 1 if problems else 0


if __name__ == "__main__":
    sys.exit(main())
