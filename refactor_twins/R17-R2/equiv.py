"""
Equivalence harness for the NCBI .tbl export (property C17).

Usage (from the worktree root):
    /venv/bin/python _refactor/R2/equiv.py dump  _refactor/tmp/R2_pristine.json     # on pristine code
    git apply _refactor/R2/patch.diff
    /venv/bin/python _refactor/R2/equiv.py compare _refactor/tmp/R2_pristine.json   # on refactored code

All inputs are generated from fixed seeds, so both runs see identical inputs.
"""
import io
import json
import os
import random
import sys
import warnings

if os.environ.get("PYTHONHASHSEED") != "0":
    # qualifier values are sets of str: fix the hash seed so that both runs iterate them in the same order
    os.execve(sys.executable, [sys.executable] + sys.argv, dict(os.environ, PYTHONHASHSEED="0"))

sys.path.insert(0, os.getcwd())  # run from the worktree root

import inscripta.biocantor.location  # noqa: F401  (must be first: circular import otherwise)
from inscripta.biocantor.gene import GeneInterval
from inscripta.biocantor.gene.biotype import Biotype
from inscripta.biocantor.gene.cds import CDSInterval
from inscripta.biocantor.gene.cds_frame import CDSFrame
from inscripta.biocantor.gene.codon import TranslationTable
from inscripta.biocantor.gene.collections import AnnotationCollection
from inscripta.biocantor.gene.transcript import TranscriptInterval
from inscripta.biocantor.io.genbank.constants import GenbankFlavor
from inscripta.biocantor.io.ncbi import tbl_writer
from inscripta.biocantor.io.ncbi.tbl_writer import (
    TblFeature,
    TblGene,
    GeneTblFeature,
    collection_to_tbl,
)
from inscripta.biocantor.location.location_impl import SingleInterval, CompoundInterval
from inscripta.biocantor.location.strand import Strand
from inscripta.biocantor.parent import Parent, SequenceType
from inscripta.biocantor.sequence.alphabet import Alphabet
from inscripta.biocantor.sequence.sequence import Sequence

COMP = {"A": "T", "C": "G", "G": "C", "T": "A", "N": "N"}
STOPS = ["TAA", "TAG", "TGA"]
STARTS = ["ATG", "ATG", "ATG", "TTG", "CTG", "GTG", "ATT", "ATA", "ATC"]
NON_STARTS = ["AAA", "GCC", "CCC", "TAA", "GGG", "ACG", "AAT", "CTA", "CAT", "ANG"]


# copies of the two helpers in inscripta.biocantor.io.parser (that module cannot be imported here)
def seq_to_parent(seq, alphabet=Alphabet.NT_EXTENDED_GAPPED, seq_id=None, seq_type=SequenceType.CHROMOSOME):
    return Parent(
        sequence=Sequence(seq, alphabet, type=seq_type, id=seq_id), location=SingleInterval(0, len(seq), Strand.PLUS)
    )


def seq_chunk_to_parent(seq, sequence_name, start, end, strand=Strand.PLUS, alphabet=Alphabet.NT_EXTENDED_GAPPED):
    chunk_id = f"{sequence_name}:{start}-{end}"
    return Parent(
        id=chunk_id,
        sequence=Sequence(
            seq,
            alphabet,
            id=chunk_id,
            type=SequenceType.SEQUENCE_CHUNK,
            parent=Parent(
                location=SingleInterval(
                    start, end, strand, parent=Parent(id=sequence_name, sequence_type=SequenceType.CHROMOSOME)
                )
            ),
        ),
    )


def _rand_blocks(rng, lo, hi, nblocks, allow_adjacent=True):
    """nblocks sorted blocks inside [lo, hi); consecutive blocks may be adjacent (0bp gap)."""
    while True:
        cuts = sorted(rng.randrange(lo, hi + 1) for _ in range(2 * nblocks))
        starts, ends = cuts[0::2], cuts[1::2]
        if any(e - s < 4 for s, e in zip(starts, ends)):
            continue
        if allow_adjacent and nblocks > 1 and rng.random() < 0.4:
            i = rng.randrange(nblocks - 1)
            starts[i + 1] = ends[i]  # adjacent blocks
        if all(starts[i + 1] >= ends[i] for i in range(nblocks - 1)):
            return starts, ends


def _spliced_positions(starts, ends, strand):
    pos = [p for s, e in zip(starts, ends) for p in range(s, e)]
    return pos[::-1] if strand == Strand.MINUS else pos


def _write(genome, positions, codon, strand):
    for p, base in zip(positions, codon):
        genome[p] = COMP[base] if strand == Strand.MINUS else base


def make_case(seed):
    """Returns (genome str, list of gene kwargs-dicts) for one synthetic contig."""
    rng = random.Random(seed)
    ngenes = rng.randint(1, 5)
    span = 160
    genome = [rng.choice("ACGT") for _ in range(span * ngenes + 20)]
    genes = []
    for g in range(ngenes):
        lo, hi = g * span + 5, (g + 1) * span - 5
        coding = rng.random() < 0.65
        ntx = rng.choice([1, 1, 1, 2, 3])
        gene_strand = rng.choice([Strand.PLUS, Strand.MINUS])
        txs = []
        for t in range(ntx):
            # occasionally a mixed-strand gene
            strand = gene_strand if rng.random() < 0.9 else gene_strand.reverse()
            nblocks = rng.choice([1, 1, 2, 3, 4])
            starts, ends = _rand_blocks(rng, lo, hi, nblocks)
            tx = dict(exon_starts=starts, exon_ends=ends, strand=strand)
            quals = {}
            if coding:
                # CDS: trim the exon structure at both ends (sometimes not at all)
                cs, ce = list(starts), list(ends)
                if rng.random() < 0.5 and ce[0] - cs[0] > 8:
                    cs[0] += rng.randint(1, 3)
                if rng.random() < 0.5 and ce[-1] - cs[-1] > 8:
                    ce[-1] -= rng.randint(1, 3)
                if len(cs) > 2 and rng.random() < 0.3:
                    cs, ce = cs[1:], ce[1:]
                start_frame = CDSFrame.from_int(rng.choice([0, 0, 0, 1, 2]))
                loc = (
                    CompoundInterval(cs, ce, strand)
                    if len(cs) > 1
                    else SingleInterval(cs[0], ce[0], strand)
                )
                frames = CDSInterval.construct_frames_from_location(loc, start_frame)
                if rng.random() < 0.15 and len(frames) > 1:
                    # annotated frameshift on one exon
                    i = rng.randrange(len(frames))
                    frames[i] = frames[i].shift(1)
                pos = _spliced_positions(cs, ce, strand)
                f = start_frame.value
                if t == 0:  # only the first transcript writes into the genome (others overlay whatever is there)
                    r = rng.random()
                    if r < 0.6:
                        _write(genome, pos[f : f + 3], rng.choice(STARTS), strand)
                    elif r < 0.8:
                        _write(genome, pos[f : f + 3], rng.choice(NON_STARTS), strand)
                    n_in_frame = (len(pos) - f) // 3
                    r = rng.random()
                    if r < 0.6:
                        last = f + 3 * (n_in_frame - 1)
                        _write(genome, pos[last : last + 3], rng.choice(STOPS), strand)
                    elif r < 0.75:
                        _write(genome, pos[-3:], rng.choice(STOPS), strand)
                    if rng.random() < 0.25 and n_in_frame > 4:
                        k = f + 3 * rng.randrange(1, n_in_frame - 1)
                        _write(genome, pos[k : k + 3], rng.choice(STOPS), strand)
                tx.update(cds_starts=cs, cds_ends=ce, cds_frames=frames)
                tx["protein_id"] = rng.choice([None, f"prot{seed}_{g}_{t}"])
                r = rng.random()
                if r < 0.5:
                    quals["product"] = [rng.choice(["my_product one", "alpha", "alpha-1", "12345", "kinase (EC 1.2); [x]"])]
                if rng.random() < 0.3:
                    quals["gene_synonym"] = rng.sample(["synA", "synB", f"sym{g}", "synC"], rng.randint(1, 3))
                if rng.random() < 0.3:
                    quals["db_xref"] = rng.sample(["GeneID:1", "GeneID:22", "X:3"], rng.randint(1, 2))
                tx["transcript_type"] = Biotype.protein_coding
            else:
                if rng.random() < 0.5:
                    quals["product"] = [rng.choice(["tRNA-Ala", "16S_ribosomal_RNA", "some product", "weird"])]
            tx["qualifiers"] = quals or None
            tx["transcript_id"] = rng.choice([None, f"tx{seed}_{g}_{t}"])
            tx["transcript_symbol"] = rng.choice([None, f"txsym{g}_{t}"])
            txs.append(tx)
        if coding:
            gene_type = Biotype.protein_coding
        else:
            gene_type = rng.choice([Biotype.rRNA, Biotype.tRNA, Biotype.misc_RNA, Biotype.ncRNA, Biotype.lncRNA, Biotype.snoRNA])
            for tx in txs:
                tx["transcript_type"] = gene_type
        gquals = {}
        if rng.random() < 0.3:
            gquals["gene_synonym"] = rng.sample(["gsyn1", "gsyn2", f"sym{g}", "PFX_5", "LT_0"], rng.randint(1, 2))
        if rng.random() < 0.2:
            gquals["db_xref"] = ["GeneID:99"]
        if rng.random() < 0.2:
            gquals["other"] = ["thing"]
        genes.append(
            dict(
                txs=txs,
                gene_id=rng.choice([None, f"gid{g}"]),
                gene_symbol=rng.choice([None, None, f"sym{g}", f"sym{g}", "PFX_5", "PFX_10", "LT_0", ""]),
                gene_type=gene_type,
                locus_tag=rng.choice([None, f"LT_{g}"]),
                qualifiers=gquals or None,
            )
        )
    return "".join(genome), genes


def build_collection(seed, chunk=False, seqname="default"):
    genome, genes = make_case(seed)
    name = f"chr{seed}" if seqname == "default" else seqname
    if chunk:
        # a chunk that covers the whole contig minus a few bases on either side (genes start at >= 5)
        c_start, c_end = 3, len(genome) - 2
        parent = seq_chunk_to_parent(genome[c_start:c_end], name, c_start, c_end)
    else:
        parent = seq_to_parent(genome, seq_id=name)
    gene_objs = []
    for g in genes:
        txs = [
            TranscriptInterval(**{k: (list(v) if isinstance(v, list) else v) for k, v in tx.items()},
                               sequence_name=name, parent_or_seq_chunk_parent=parent)
            for tx in g["txs"]
        ]
        gene_objs.append(
            GeneInterval(
                txs,
                gene_id=g["gene_id"],
                gene_symbol=g["gene_symbol"],
                gene_type=g["gene_type"],
                locus_tag=g["locus_tag"],
                qualifiers=g["qualifiers"],
                sequence_name=name,
                parent_or_seq_chunk_parent=parent,
            )
        )
    return AnnotationCollection(genes=gene_objs, sequence_name=name, parent_or_seq_chunk_parent=parent)


def guarded(fn):
    """Run fn; return its result, or a description of the exception (type + message) and warnings."""
    with warnings.catch_warnings(record=True) as w:
        warnings.simplefilter("always")
        try:
            res = fn()
        except Exception as e:  # noqa
            res = f"EXC {type(e).__name__}: {e}"
    return {"result": res, "warnings": sorted(str(x.message) for x in w)}


def export(seeds, chunk=False, seqname="default", **kwargs):
    def run():
        fh = io.StringIO()
        try:
            collection_to_tbl([build_collection(s, chunk=chunk, seqname=seqname) for s in seeds], fh, **kwargs)
        except Exception as e:  # keep the partial output too
            return fh.getvalue() + f"EXC {type(e).__name__}: {e}"
        return fh.getvalue()

    return guarded(run)


def exports(results, n=80):
    """Full text exports over many contigs and option combinations."""
    tables = [TranslationTable.DEFAULT, TranslationTable.STANDARD, TranslationTable.PROKARYOTE]
    for seed in range(n):
        for flavor in (GenbankFlavor.EUKARYOTIC, GenbankFlavor.PROKARYOTIC):
            tt = tables[seed % 3]
            results[f"tbl/{seed}/{flavor.name}/{tt.name}"] = export(
                [seed], translation_table=tt, genbank_flavor=flavor, locus_tag_prefix="PFX",
                submitter_lab_name="LAB", random_seed=seed, locus_tag_jump_size=1 + seed % 7,
            )
    # all three tables on the same contigs
    for seed in range(0, n, 4):
        for tt in tables:
            results[f"tbl-tt/{seed}/{tt.name}"] = export([seed], translation_table=tt, random_seed=1, locus_tag_prefix="Q")
    # several collections in one file, random prefix / lab name from the seed, default options
    for seed in range(0, n, 5):
        results[f"tbl-multi/{seed}"] = export([seed, seed + 1, seed + 2], random_seed=seed)
        results[f"tbl-multi-again/{seed}"] = export([seed, seed + 1, seed + 2], random_seed=seed)
    # unseeded call following a seeded global state
    random.seed(1234)
    results["tbl-unseeded"] = export([3, 4])
    # chunk parents
    for seed in range(0, n, 3):
        results[f"tbl-chunk/{seed}"] = export(
            [seed], chunk=True, random_seed=seed, locus_tag_prefix="CH", submitter_lab_name="LAB",
            translation_table=tables[seed % 3],
        )
    # odd option values
    results["tbl-jump-none"] = export([2], random_seed=0, locus_tag_prefix="J", locus_tag_jump_size=None)
    results["tbl-jump-zero"] = export([2], random_seed=0, locus_tag_prefix="J", locus_tag_jump_size=0)
    results["tbl-flavor-none"] = export([2, 5], random_seed=0, locus_tag_prefix="J", genbank_flavor=None)
    results["tbl-empty"] = export([], random_seed=0)
    # missing sequence name -> exception after header
    results["tbl-noname"] = export([1], seqname=None, random_seed=0)


def feature_objects(results, n=60):
    """Per-feature views: TblGene iteration, _location_to_str, _qualifiers_to_str, flags."""
    for seed in range(n):
        for chunk in (False, True):
            if chunk and seed % 3:
                continue

            def run():
                random.seed(seed)
                coll = build_collection(seed, chunk=chunk)
                out = []
                for i, gene in enumerate(coll.genes):
                    locus_tag = None if (seed % 5 == 4 and i % 2) else f"LT_{i}"
                    tg = TblGene(gene, "LAB", locus_tag, TranslationTable(([0, 1, 11])[seed % 3]))
                    for feat in tg:
                        out.append(
                            [
                                type(feat).__name__,
                                feat._location_to_str(),
                                feat._qualifiers_to_str(),
                                str(feat),
                                repr(feat.location),
                                feat.start_is_incomplete,
                                feat.end_is_complete,
                                feat.is_pseudo,
                                {k: [str(x) for x in v] for k, v in feat.qualifiers.items()},
                                len(feat.children),
                            ]
                        )
                    out.append(json.dumps(tg.gene.to_dict(), default=str, sort_keys=True))
                    # the input gene must not be modified by the export
                    out.append(json.dumps(gene.to_dict(), default=str, sort_keys=True))
                return out

            results[f"features/{seed}/{chunk}"] = guarded(run)


def cds_transcript_views(results, n=60):
    """The CDS / transcript members the tbl writer relies on."""
    tables = [TranslationTable.DEFAULT, TranslationTable.STANDARD, TranslationTable.PROKARYOTE]
    for seed in range(n):
        for chunk in (False, True):
            coll = build_collection(seed, chunk=chunk)
            for gi, gene in enumerate(coll.genes):
                for ti, tx in enumerate(gene.transcripts):
                    key = f"cds/{seed}/{chunk}/{gi}/{ti}"
                    r = {}
                    r["is_coding"] = tx.is_coding
                    r["has_in_frame_stop"] = guarded(lambda: tx.has_in_frame_stop)
                    r["cds_location"] = guarded(lambda: repr(tx.cds_location))
                    r["cds_chunk_relative_location"] = guarded(lambda: repr(tx.cds_chunk_relative_location))
                    r["cds_size"] = guarded(lambda: [tx.cds_size, tx.chunk_relative_cds_size])
                    r["cds_start_end"] = guarded(lambda: [tx.cds_start, tx.cds_end])
                    r["cds_blocks"] = guarded(lambda: [repr(b) for b in tx.cds_blocks])
                    r["cds_blocks_lazy"] = guarded(lambda: type(tx.cds_blocks).__name__)
                    r["chunk_relative_cds"] = [
                        guarded(lambda: tx.chunk_relative_cds_start),
                        guarded(lambda: tx.chunk_relative_cds_end),
                        guarded(lambda: [repr(b) for b in tx.chunk_relative_cds_blocks]),
                    ]
                    r["tx_str"] = guarded(lambda: str(tx))
                    r["tx_dict"] = guarded(lambda: json.dumps(tx.to_dict(), default=str, sort_keys=True))
                    if tx.is_coding:
                        cds = tx.cds
                        r["frame_iter_T"] = guarded(lambda: [f.name for f in cds._frame_iter(True)])
                        r["frame_iter_F"] = guarded(lambda: [f.name for f in cds._frame_iter(False)])
                        r["frame_iter_default"] = guarded(lambda: [f.name for f in cds._frame_iter()])
                        r["frame_iter_truthy"] = guarded(lambda: [f.name for f in cds._frame_iter(1)])
                        r["exon_iter"] = guarded(
                            lambda: [[repr(x) for x in cds._exon_iter(True)], [repr(x) for x in cds._exon_iter(False)]]
                        )
                        r["valid_stop"] = guarded(lambda: cds.has_valid_stop)
                        r["canonical_start"] = guarded(lambda: cds.has_canonical_start_codon)
                        r["start_in_table"] = guarded(
                            lambda: [cds.has_start_codon_in_specific_translation_table(t) for t in tables]
                            + [cds.has_start_codon_in_specific_translation_table()]
                        )
                        r["in_frame_stop"] = guarded(lambda: cds.has_in_frame_stop)
                        r["seq"] = guarded(lambda: str(cds.extract_sequence()))
                        r["codons"] = guarded(lambda: [str(c) for c in cds.scan_codons()])
                        r["codons_trunc"] = guarded(lambda: [str(c) for c in cds.scan_codons(True)])
                        r["translate"] = guarded(lambda: str(cds.translate(strict=False)))
                        r["len"] = len(cds)
                        r["opt"] = guarded(lambda: [str(cds.optimize_blocks()), repr(cds.optimize_blocks().frames)])
                        r["optcomb"] = guarded(
                            lambda: [
                                str(cds.optimize_and_combine_blocks()),
                                repr(cds.optimize_and_combine_blocks().frames),
                                repr(cds.optimize_and_combine_blocks().chunk_relative_frames),
                                json.dumps(cds.optimize_and_combine_blocks().to_dict(), default=str, sort_keys=True),
                            ]
                        )
                        for sf in CDSFrame:
                            if sf == CDSFrame.NONE:
                                continue
                            r[f"construct/{sf.name}"] = guarded(
                                lambda: [
                                    x.name
                                    for x in CDSInterval.construct_frames_from_location(cds.chunk_relative_location, sf)
                                ]
                            )
                    results[key] = r


def main(collect):
    mode, path = sys.argv[1], sys.argv[2]
    results = {}
    collect(results)
    text = json.dumps(results, sort_keys=True, default=str)
    if mode == "dump":
        os.makedirs(os.path.dirname(path) or ".", exist_ok=True)
        with open(path, "w") as fh:
            fh.write(text)
        print(f"dumped {len(results)} records ({len(text)} bytes) to {path}")
    else:
        with open(path) as fh:
            old = json.loads(fh.read())
        new = json.loads(text)
        bad = [k for k in sorted(set(old) | set(new)) if old.get(k) != new.get(k)]
        print(f"compared {len(new)} records: {len(bad)} differ")
        for k in bad[:10]:
            print("DIFF", k, "\n  old:", str(old.get(k))[:600], "\n  new:", str(new.get(k))[:600])
        sys.exit(1 if bad else 0)


def direct_tblfeature(results):
    """TblFeature._location_to_str/_qualifiers_to_str/extract_dbxref_synonyms on hand-made inputs."""
    from inscripta.biocantor.io.genbank.constants import GeneIntervalFeatures, TranscriptFeatures
    from inscripta.biocantor.location.location_impl import EmptyLocation

    class Feat(TblFeature):
        FEATURE_TYPE = GeneIntervalFeatures.CDS
        VALID_KEYS = {"gene", "note", "codon_start", "gene_synonym", "db_xref", 5}

    class Feat2(TblFeature):
        FEATURE_TYPE = TranscriptFeatures.MISC_RNA
        VALID_KEYS = {"product"}

    locations = [
        SingleInterval(0, 10, Strand.PLUS),
        SingleInterval(3, 4, Strand.MINUS),
        SingleInterval(3, 40, Strand.UNSTRANDED),
        CompoundInterval([0, 10, 20], [5, 15, 30], Strand.PLUS),
        CompoundInterval([0, 10, 20], [5, 15, 30], Strand.MINUS),
        CompoundInterval([0, 5, 20], [5, 15, 30], Strand.MINUS),
        CompoundInterval([0, 5], [5, 15], Strand.UNSTRANDED),
        CompoundInterval([2, 4, 9, 100], [6, 12, 11, 1000], Strand.MINUS),
        EmptyLocation(),
    ]
    qualifier_sets = [
        {},
        {"gene": ["b", "a", None], "note": [], "bogus": ["x"], "codon_start": [2]},
        {"gene": {"z(1)", "y[2];", "(x)"}, "note": [None, None], "db_xref": ["B:1", "A:2"], 5: [3, 1, 2]},
        {"note": ["(a);[b]", "((", ""], "gene_synonym": ("s2", "s1"), "product": ["p_1", 7]},
        {"gene": None, "note": "abc"},
    ]
    for li, loc in enumerate(locations):
        for flags in range(8):
            a, b, c = bool(flags & 1), bool(flags & 2), bool(flags & 4)
            for qi, q in enumerate(qualifier_sets):
                for cls in (Feat, Feat2):
                    feat = cls(loc, a, b, c, q)
                    results[f"direct/{li}/{flags}/{qi}/{cls.__name__}"] = [
                        guarded(feat._location_to_str),
                        guarded(feat._qualifiers_to_str),
                        guarded(lambda: str(feat)),
                        guarded(lambda: [type(x).__name__ for x in feat]),
                    ]
    # base class has neither FEATURE_TYPE nor VALID_KEYS
    base = TblFeature.__new__(TblFeature)
    TblFeature.__init__(base, locations[3], True, True, True, {"gene": ["a"]})
    results["direct/base"] = [guarded(base._location_to_str), guarded(base._qualifiers_to_str)]
    base2 = TblFeature.__new__(TblFeature)
    TblFeature.__init__(base2, locations[-1], False, False, False, {"gene": []})
    results["direct/base2"] = [guarded(base2._location_to_str), guarded(base2._qualifiers_to_str)]

    parsed_sets = [
        {},
        {"gene_synonym": ["a", "b", "sym"], "db_xref": ("x", "y")},
        {"synonym": ["q"], "other_synonyms": ["sym", "r", "q"], "db_xref": ["1"], "note": ["n"]},
        {"db_xref": [], "my synonym": []},
        {"db_xref": {"k"}, 7: ["x"]},
    ]
    for pi, parsed in enumerate(parsed_sets):
        for ti, tblq in enumerate([{}, {"gene_synonym": ["old"]}, {"db_xref": ["old"], "gene": ["sym"]}]):
            for sym in (None, "sym", "q"):

                def run():
                    target = {k: list(v) for k, v in tblq.items()}
                    ret = TblFeature.extract_dbxref_synonyms(parsed, target, gene_symbol=sym)
                    return [ret, list(target.items())]

                results[f"xref/{pi}/{ti}/{sym}"] = guarded(run)
                results[f"xref-nosym/{pi}/{ti}"] = guarded(
                    lambda: (lambda t: [TblFeature.extract_dbxref_synonyms(parsed, t), list(t.items())])(
                        {k: list(v) for k, v in tblq.items()}
                    )
                )


def collect(results):
    direct_tblfeature(results)
    exports(results)
    feature_objects(results)
    cds_transcript_views(results)


if __name__ == "__main__":
    main(collect)
