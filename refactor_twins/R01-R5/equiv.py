"""Equivalence script for refactoring R1 (property C01: location <-> parent coordinate maps).

Usage (from the worktree root):
    /venv/bin/python _refactor/R1/equiv.py dump /tmp/c01_pristine.json      # on pristine code
    git apply _refactor/R1/patch.diff
    /venv/bin/python _refactor/R1/equiv.py dump /tmp/c01_patched.json       # on refactored code
    /venv/bin/python _refactor/R1/equiv.py compare /tmp/c01_pristine.json /tmp/c01_patched.json

Every call is recorded as either ("ok", repr/str of the result) or ("exc", exception type name, message), so
both results and exception types / messages are compared.
"""
import os
import sys

sys.path.insert(0, os.getcwd())  # run from the worktree root

import inscripta.biocantor.location  # noqa: F401,E402  (must be first: circular import otherwise)

import itertools  # noqa: E402
import json  # noqa: E402
import random  # noqa: E402

from inscripta.biocantor.location.location_impl import SingleInterval, CompoundInterval, EmptyLocation
from inscripta.biocantor.location.strand import Strand
from inscripta.biocantor.parent import Parent, SequenceType
from inscripta.biocantor.sequence import Sequence, Alphabet
from inscripta.biocantor.gene.feature import FeatureInterval
from inscripta.biocantor.gene.transcript import TranscriptInterval

STRANDS = [Strand.PLUS, Strand.MINUS, Strand.UNSTRANDED]
GENOME = "ACGTTGCAAGTCCGATAGGCTTAACGGATCCATGCAAGGTTTACGCGATATTACGGCAAT"  # 60 nt

# (starts, ends): single, multi-block, adjacent, zero length, overlapping, nested, unsorted
LAYOUTS = [
    ([3], [9]),
    ([0], [1]),
    ([5], [5]),
    ([0, 6], [4, 11]),
    ([2, 5, 9], [5, 9, 12]),  # adjacent
    ([2, 8, 20], [6, 8, 25]),  # zero-length middle block
    ([4, 4, 10], [4, 8, 13]),  # zero-length first block
    ([1, 7, 15], [5, 12, 15]),  # zero-length last block
    ([2, 6, 14], [9, 12, 18]),  # overlapping
    ([0, 3, 20], [15, 6, 24]),  # nested
    ([20, 2, 10], [24, 5, 13]),  # unsorted
    ([3, 3], [8, 6]),  # same start
    ([1, 4, 9, 15, 22], [3, 8, 12, 20, 23]),
]


def describe(obj):
    """Deterministic description of a result"""
    if isinstance(obj, (SingleInterval, CompoundInterval)) or obj is EmptyLocation():
        blocks = [(b.start, b.end, b.strand.name) for b in obj.blocks]
        parent = obj.parent
        return {
            "type": type(obj).__name__,
            "str": str(obj),
            "repr": repr(obj),
            "blocks": blocks,
            "len": len(obj),
            "parent": repr(parent),
            "parent_has_location": bool(parent is not None and parent.location is not None),
        }
    if isinstance(obj, Strand):
        return obj.name
    if isinstance(obj, (list, tuple)):
        return [describe(x) for x in obj]
    if isinstance(obj, (int, str, bool)) or obj is None:
        return obj
    return repr(obj)


def call(fn, *args, **kwargs):
    try:
        return ["ok", describe(fn(*args, **kwargs))]
    except Exception as e:  # noqa
        return ["exc", type(e).__name__, str(e)]


def parents():
    yield "none", lambda: None
    yield "id", lambda: "chr1"
    yield "seq", lambda: Parent(id="chr1", sequence=Sequence(GENOME, Alphabet.NT_STRICT, type=SequenceType.CHROMOSOME))


def chunk_parent(start, end, strand=Strand.PLUS):
    seq = GENOME[start:end]
    chunk_id = f"chr1:{start}-{end}"
    return Parent(
        id=chunk_id,
        sequence=Sequence(
            seq,
            Alphabet.NT_EXTENDED_GAPPED,
            id=chunk_id,
            type=SequenceType.SEQUENCE_CHUNK,
            parent=Parent(
                location=SingleInterval(
                    start, end, strand, parent=Parent(id="chr1", sequence_type=SequenceType.CHROMOSOME)
                )
            ),
        ),
    )


def random_layouts(n=40, seed=20261003):
    """Seeded random block layouts: 1..6 blocks, lengths 0..5, gaps -3..4 (negative gap = overlap), shuffled"""
    rng = random.Random(seed)
    for _ in range(n):
        pos = rng.randint(0, 4)
        blocks = []
        for _ in range(rng.randint(1, 6)):
            start = max(0, pos + rng.randint(-3, 4))
            end = start + rng.randint(0, 5)
            blocks.append((start, end))
            pos = end
        rng.shuffle(blocks)
        yield [b[0] for b in blocks], [b[1] for b in blocks]


def make_locations():
    for (starts, ends), strand, (pname, pfac) in itertools.product(LAYOUTS, STRANDS, parents()):
        key = f"{starts}|{ends}|{strand.name}|{pname}"
        if len(starts) == 1:
            yield "S|" + key, SingleInterval(starts[0], ends[0], strand, pfac())
        yield "C|" + key, CompoundInterval(starts, ends, strand, pfac())
    for (starts, ends), strand in itertools.product(random_layouts(), STRANDS):
        yield f"C|random|{starts}|{ends}|{strand.name}", CompoundInterval(starts, ends, strand)


def exercise_location(loc):
    out = {}
    out["str"] = str(loc)
    out["repr"] = repr(loc)
    out["scan_blocks"] = call(lambda: list(loc.scan_blocks()))
    out["blocks"] = call(lambda: list(loc.blocks))
    n = len(loc)
    for pos in range(-1, loc.end + 2):
        out[f"p2r|{pos}"] = call(loc.parent_to_relative_pos, pos)
    for rel in range(-1, n + 2):
        out[f"r2p|{rel}"] = call(loc.relative_to_parent_pos, rel)
    for s in range(-1, n + 2):
        for e in range(-1, n + 2):
            for st in STRANDS:
                out[f"ri2p|{s}|{e}|{st.name}"] = call(loc.relative_interval_to_parent_location, s, e, st)
    # round trip consistency captured explicitly
    out["roundtrip"] = call(lambda: [loc.parent_to_relative_pos(loc.relative_to_parent_pos(i)) for i in range(n)])
    out["windows"] = call(lambda: list(loc.scan_windows(2, 3, 1)))
    return out


def query_locations(parent_factory):
    qs = []
    for st in STRANDS:
        for s, e in [(0, 30), (3, 9), (4, 7), (8, 8), (5, 21), (0, 3), (11, 16), (24, 30), (40, 45)]:
            qs.append(SingleInterval(s, e, st, parent_factory()))
        for starts, ends in [([0, 10], [7, 22]), ([3, 7, 19], [6, 11, 23]), ([2, 5], [5, 9]), ([4, 6], [10, 12])]:
            qs.append(CompoundInterval(starts, ends, st, parent_factory()))
    return qs


def exercise_relative_locations():
    out = {}
    for (pname, pfac) in parents():
        queries = query_locations(pfac)
        for (starts, ends), strand in itertools.product(LAYOUTS, STRANDS):
            locs = [CompoundInterval(starts, ends, strand, pfac())]
            if len(starts) == 1:
                locs.append(SingleInterval(starts[0], ends[0], strand, pfac()))
            for loc in locs:
                for qi, q in enumerate(queries):
                    for opt in (True, False):
                        key = f"{type(loc).__name__}|{starts}|{ends}|{strand.name}|{pname}|q{qi}:{q}|{opt}"
                        out["p2rl|" + key] = call(loc.parent_to_relative_location, q, optimize_blocks=opt)
                        out["lrt|" + key] = call(q.location_relative_to, loc, optimize_blocks=opt)
                    out["p2rl-default|" + f"{type(loc).__name__}|{starts}|{ends}|{strand.name}|{pname}|q{qi}"] = call(
                        loc.parent_to_relative_location, q
                    )
    # mismatched parents / empty
    a = SingleInterval(2, 9, Strand.PLUS, "chr1")
    b = SingleInterval(3, 7, Strand.MINUS)
    c = CompoundInterval([2, 8], [5, 12], Strand.MINUS, "chr2")
    d = CompoundInterval([2, 8], [5, 12], Strand.MINUS)
    for i, (x, y) in enumerate(itertools.permutations([a, b, c, d, EmptyLocation()], 2)):
        out[f"mismatch|{i}|lrt"] = call(x.location_relative_to, y)
        out[f"mismatch|{i}|p2rl"] = call(x.parent_to_relative_location, y)
    return out


def exercise_strand():
    out = {}
    for s1, s2 in itertools.product(STRANDS, STRANDS):
        out[f"relative_to|{s1.name}|{s2.name}"] = call(s1.relative_to, s2)
    for s1 in STRANDS:
        for other in (None, 1, "+"):
            out[f"relative_to|{s1.name}|{other!r}"] = call(s1.relative_to, other)
        out[f"reverse|{s1.name}"] = call(s1.reverse)
        out[f"assert_directional|{s1.name}"] = call(s1.assert_directional)
        out[f"symbol|{s1.name}"] = call(s1.to_symbol)
    for (starts, ends), st in itertools.product(LAYOUTS, STRANDS):
        out[f"sort|{starts}|{ends}|{st.name}"] = call(CompoundInterval._sort_starts_ends, starts, ends, st)
        out[f"sort-tuple|{starts}|{ends}|{st.name}"] = call(
            CompoundInterval._sort_starts_ends, tuple(starts), tuple(ends), st
        )
    return out


def feature_parents():
    yield "none", lambda: None
    yield "chrom", lambda: Parent(
        id="chr1", sequence=Sequence(GENOME, Alphabet.NT_EXTENDED_GAPPED, type=SequenceType.CHROMOSOME, id="chr1"),
    )
    yield "chunk0-40", lambda: chunk_parent(0, 40)
    yield "chunk4-22", lambda: chunk_parent(4, 22)
    yield "chunk30-50", lambda: chunk_parent(30, 50)


def exercise_features():
    out = {}
    layouts = [l for l in LAYOUTS if l[0] != [5]]
    for (starts, ends), strand, (pname, pfac) in itertools.product(layouts, [Strand.PLUS, Strand.MINUS], feature_parents()):
        for cls in (FeatureInterval, TranscriptInterval):
            key = f"{cls.__name__}|{starts}|{ends}|{strand.name}|{pname}"
            try:
                if cls is FeatureInterval:
                    feat = cls(starts, ends, strand, parent_or_seq_chunk_parent=pfac())
                else:
                    feat = cls(starts, ends, strand, parent_or_seq_chunk_parent=pfac())
            except Exception as e:  # noqa
                out[key + "|ctor"] = ["exc", type(e).__name__, str(e)]
                continue
            out[key + "|chrom_loc"] = call(lambda: feat.chromosome_location)
            out[key + "|chunk_loc"] = call(lambda: feat.chunk_relative_location)
            hi = max(ends) + 2
            n = sum(e - s for s, e in zip(starts, ends))
            for pos in range(-1, hi):
                out[key + f"|sp2f|{pos}"] = call(feat.sequence_pos_to_feature, pos)
                out[key + f"|cp2f|{pos}"] = call(feat.chunk_relative_pos_to_feature, pos)
            for rel in range(-1, n + 2):
                out[key + f"|fp2s|{rel}"] = call(feat.feature_pos_to_sequence, rel)
                out[key + f"|fp2c|{rel}"] = call(feat.feature_pos_to_chunk_relative, rel)
            for s, e in [(0, 1), (0, n), (1, 4), (2, 2), (3, n + 1), (n, n), (n - 1, n), (5, 3), (-1, 2)]:
                for st in STRANDS:
                    out[key + f"|fi2s|{s}|{e}|{st.name}"] = call(feat.feature_interval_to_sequence, s, e, st)
                    out[key + f"|fi2c|{s}|{e}|{st.name}"] = call(feat.feature_interval_to_chunk_relative, s, e, st)
            for s, e in [(0, 30), (3, 9), (4, 7), (8, 8), (5, 21), (0, 3), (11, 16), (24, 30), (40, 45), (9, 4)]:
                for st in STRANDS:
                    out[key + f"|si2f|{s}|{e}|{st.name}"] = call(feat.sequence_interval_to_feature, s, e, st)
                    out[key + f"|ci2f|{s}|{e}|{st.name}"] = call(feat.chunk_relative_interval_to_feature, s, e, st)
    return out


def dump(path):
    results = {}
    for key, loc in make_locations():
        for k, v in exercise_location(loc).items():
            results[f"loc|{key}|{k}"] = v
    for k, v in exercise_relative_locations().items():
        results["rel|" + k] = v
    for k, v in exercise_strand().items():
        results["strand|" + k] = v
    for k, v in exercise_features().items():
        results["feat|" + k] = v
    # location exceeding its parent sequence: lazy validation order must be preserved
    short = Parent(id="s", sequence=Sequence("ACGTACGT", Alphabet.NT_STRICT))
    for st in STRANDS:
        results[f"bad|{st.name}|ctor"] = call(CompoundInterval, [0, 6], [3, 12], st, short)
        if results[f"bad|{st.name}|ctor"][0] == "exc":
            continue
        bad = CompoundInterval([0, 6], [3, 12], st, short)
        results[f"bad|{st.name}|p2r"] = call(bad.parent_to_relative_pos, 1)
        results[f"bad|{st.name}|r2p"] = call(bad.relative_to_parent_pos, 1)
        results[f"bad|{st.name}|ri2p"] = call(bad.relative_interval_to_parent_location, 1, 2, Strand.PLUS)
        results[f"bad|{st.name}|ri2p0"] = call(bad.relative_interval_to_parent_location, 1, 1, Strand.PLUS)
        results[f"bad|{st.name}|scan"] = call(lambda: list(bad.scan_blocks()))
    with open(path, "w") as fh:
        json.dump(results, fh, indent=0, sort_keys=True)
    n_ok = sum(1 for v in results.values() if v[0] == "ok")
    print(f"wrote {len(results)} records ({n_ok} ok, {len(results) - n_ok} exceptions) to {path}")


def compare(path_a, path_b):
    with open(path_a) as fh:
        a = json.load(fh)
    with open(path_b) as fh:
        b = json.load(fh)
    keys = sorted(set(a) | set(b))
    diffs = [k for k in keys if a.get(k) != b.get(k)]
    for k in diffs[:40]:
        print("DIFF", k, "\n   ", a.get(k), "\n   ", b.get(k))
    print(f"{len(keys)} records compared, {len(diffs)} differences")
    return 1 if diffs else 0


if __name__ == "__main__":
    if sys.argv[1] == "dump":
        dump(sys.argv[2])
    elif sys.argv[1] == "compare":
        sys.exit(compare(sys.argv[2], sys.argv[3]))
    else:
        raise SystemExit(__doc__)
