"""
Equivalence harness for property C18 (identifier/qualifier extraction, locus-tag grouping).

Usage (from the worktree root):
    /venv/bin/python _refactor/R3/equiv.py dump  _refactor/tmp/pristine.json     # on pristine code
    git apply _refactor/R3/patch.diff
    /venv/bin/python _refactor/R3/equiv.py dump  _refactor/tmp/patched.json      # on refactored code
    /venv/bin/python _refactor/R3/equiv.py compare _refactor/tmp/pristine.json _refactor/tmp/patched.json

The script exercises every anchored function of the property:
  * io/features: extract_feature_name_id / extract_feature_types / merge_qualifiers on all orderings of subsets of the
    recognised keys, look-alike keys, case variants, empty value lists, the /note fallback and error cases;
  * io/gff3/parser.filter_and_sort_qualifiers;
  * gene/interval.AbstractInterval._merge_qualifiers (through FeatureInterval / TranscriptInterval / CDSInterval, both
    strands, multi-block, chunk parents) and the export_qualifiers / to_dict built on top of it;
  * io/genbank/parser: LocusTag / Hybrid / Sorted parsers on the GenBank files in tests/data, with the feature records
    of every sequence permuted (several seeds), including the files that raise.

``io/models.py`` (marshmallow), ``io/parser.py`` and ``vcf`` cannot be imported in this environment, so pass-through
stand-ins are installed into ``sys.modules`` before importing the two parser modules; the stand-ins simply hand back the
dictionary the parser built, which is exactly what we want to compare.
"""
import sys
import os
import json
import types
import random
import itertools
import warnings
import dataclasses
import collections

if os.environ.get("PYTHONHASHSEED") != "0":
    # parts of the (unchanged) GenBank code iterate over sets of strings, so pin the hash seed for reproducible dumps
    os.environ["PYTHONHASHSEED"] = "0"
    os.execv(sys.executable, [sys.executable] + sys.argv)

sys.path.insert(0, os.getcwd())
sys.setrecursionlimit(10000)

import inscripta.biocantor.location  # noqa: E402,F401  (must be first, circular import otherwise)
from inscripta.biocantor.location import SingleInterval, CompoundInterval, Strand  # noqa: E402
from inscripta.biocantor.parent import Parent, SequenceType  # noqa: E402
from inscripta.biocantor.sequence.alphabet import Alphabet  # noqa: E402
from inscripta.biocantor.sequence.sequence import Sequence  # noqa: E402

SECTIONS = ("features", "gff3", "interval", "genbank")


# ---------------------------------------------------------------------------------------------------------------------
# stand-ins for modules that cannot be imported here
# ---------------------------------------------------------------------------------------------------------------------
class _Loaded:
    def __init__(self, d):
        self.d = d

    def to_gene_interval(self):
        return self

    def to_feature_collection(self):
        return self

    def to_dict(self):
        return self.d


class _Schema:
    def load(self, d):
        return _Loaded(d)

    def dump(self, d, many=False):
        return d


class _Model:
    @staticmethod
    def Schema():
        return _Schema()


def install_stubs():
    if "inscripta.biocantor.io.models" in sys.modules:
        return
    models = types.ModuleType("inscripta.biocantor.io.models")
    for name in (
        "GeneIntervalModel",
        "AnnotationCollectionModel",
        "FeatureIntervalCollectionModel",
        "VariantIntervalCollectionModel",
    ):
        setattr(models, name, type(name, (_Model,), {}))
    sys.modules["inscripta.biocantor.io.models"] = models

    parser = types.ModuleType("inscripta.biocantor.io.parser")

    @dataclasses.dataclass
    class ParsedAnnotationRecord:
        annotation: object
        seqrecord: object = None

    parser.ParsedAnnotationRecord = ParsedAnnotationRecord
    sys.modules["inscripta.biocantor.io.parser"] = parser

    import inscripta.biocantor.io.vcf  # noqa: F401  real (empty) package

    # The installed Biopython (1.8x) dropped SeqFeature.strand and Location.nofuzzy_start/nofuzzy_end which the GenBank
    # parser relies on; restore them (identically for the pristine and the refactored run) so the parser can run at all.
    from Bio.SeqFeature import SeqFeature, SimpleLocation, CompoundLocation

    if not hasattr(SeqFeature, "strand"):
        SeqFeature.strand = property(lambda self: self.location.strand if self.location is not None else None)
    for klass in (SimpleLocation, CompoundLocation):
        if not hasattr(klass, "nofuzzy_start"):
            klass.nofuzzy_start = property(lambda self: int(self.start))
            klass.nofuzzy_end = property(lambda self: int(self.end))

    vcfp = types.ModuleType("inscripta.biocantor.io.vcf.parser")
    vcfp.parse_vcf_file = lambda *a, **k: {}
    vcfp.VariantIntervalCollectionModel = models.VariantIntervalCollectionModel
    sys.modules["inscripta.biocantor.io.vcf.parser"] = vcfp


# ---------------------------------------------------------------------------------------------------------------------
# helpers
# ---------------------------------------------------------------------------------------------------------------------
def norm(x):
    """Order-preserving JSON-able normalisation (dict order is kept as a list of pairs; sets are sorted)."""
    if isinstance(x, dict):
        return {"__dict__": [[norm(k), norm(v)] for k, v in x.items()]}
    if isinstance(x, (set, frozenset)):
        return {"__set__": sorted((norm(v) for v in x), key=repr)}
    if isinstance(x, (list, tuple)):
        return [norm(v) for v in x]
    if isinstance(x, (str, int, float, bool)) or x is None:
        return x
    return repr(x)


def call(fn, *args, **kwargs):
    """Return result or exception, plus the warnings raised."""
    with warnings.catch_warnings(record=True) as w:
        warnings.simplefilter("always")
        try:
            res = ("ok", norm(fn(*args, **kwargs)))
        except RecursionError:
            raise
        except Exception as e:  # noqa
            res = ("exc", type(e).__name__, str(e))
    # ResourceWarning (unclosed file handles inside the library, emitted at garbage-collection time) is not deterministic
    return [res, [[type(x.message).__name__, str(x.message)] for x in w if not issubclass(x.category, ResourceWarning)]]


# ---------------------------------------------------------------------------------------------------------------------
# io/features
# ---------------------------------------------------------------------------------------------------------------------
def section_features():
    from inscripta.biocantor.io import features as F

    out = {}
    name_keys = ["feature_name", "standard_name", "name", "gene", "gene_name", "label", "operon"]
    id_keys = ["feature_id", "id"]
    lookalikes = ["gene_names", "xname", "feature_ids", "idx", "note", "locus_tag", "gene_id", "Name2", "my_label"]
    rng = random.Random(18)

    cases = []
    # every ordering of every subset (size <= 3) of name keys, with distinct values
    for r in range(0, 4):
        for combo in itertools.permutations(name_keys, r):
            cases.append([(k, [f"v_{k}", f"w_{k}"]) for k in combo])
    # all orderings of id keys, alone and combined with each single name key
    for r in range(1, 3):
        for combo in itertools.permutations(id_keys, r):
            cases.append([(k, [f"v_{k}"]) for k in combo])
            for nk in name_keys:
                for pos in range(len(combo) + 1):
                    items = [(k, [f"v_{k}"]) for k in combo]
                    items.insert(pos, (nk, [f"v_{nk}"]))
                    cases.append(items)
    # random larger mixtures with look-alikes and case variants
    allk = name_keys + id_keys + lookalikes
    for _ in range(600):
        n = rng.randint(1, 8)
        ks = rng.sample(allk, n)
        items = []
        for k in ks:
            style = rng.randint(0, 3)
            kk = [k, k.upper(), k.title(), k.capitalize()][style]
            vals = [f"val {k} {i}" for i in range(rng.randint(1, 3))]
            items.append((kk, vals))
        cases.append(items)
    # same key twice in different case (both match the same enum member)
    cases.append([("gene", ["a"]), ("GENE", ["b"])])
    cases.append([("GENE", ["b"]), ("gene", ["a"])])
    cases.append([("feature_name", ["a"]), ("FEATURE_NAME", ["b"]), ("Gene", ["c"])])
    cases.append([("Gene", ["c"]), ("feature_name", ["a"]), ("FEATURE_NAME", ["b"])])
    cases.append([("feature_id", ["a"]), ("FEATURE_ID", ["b"]), ("ID", ["c"]), ("id", ["d"])])
    cases.append([("ID", ["c"]), ("feature_id", ["a"]), ("id", ["d"]), ("FEATURE_ID", ["b"])])
    # /note fallback
    for note in (["hello, world"], ["  (abc) def"], [""], ["   "], ["...", "x"], [], ["'quoted' text"], ["a"]):
        cases.append([("note", note)])
        cases.append([("note", note), ("gene", ["g"])])
        cases.append([("note", note), ("id", ["i"])])
        cases.append([("gene", [""]), ("note", note)])
        cases.append([("gene", [""]), ("id", [""]), ("note", note)])
        cases.append([("locus_tag", ["lt"]), ("note", note)])
    # falsy / empty values and error cases
    cases.append([("gene", [])])
    cases.append([("id", [])])
    cases.append([("feature_name", ["x"]), ("gene", [])])
    cases.append([("gene", ["x"]), ("feature_name", [])])
    cases.append([("gene", []), ("feature_name", ["x"])])
    cases.append([("id", []), ("gene\n", ["x"])])
    cases.append([("gene\n", ["x"]), ("id", [])])
    cases.append([("gene\n", ["x"])])
    cases.append([("id\n", ["x"])])
    cases.append([("ID\n", ["x"]), ("gene", ["g"])])
    cases.append([(" gene", ["x"])])
    cases.append([("gene ", ["x"])])
    cases.append([("gene", [""]), ("label", ["lab"])])
    cases.append([("label", ["lab"]), ("gene", [""])])
    cases.append([("feature_name", [""]), ("operon", ["op"])])
    cases.append([("operon", ["op"]), ("feature_name", [""])])
    cases.append([("feature_id", [""]), ("id", ["theid"])])
    cases.append([("id", ["theid"]), ("feature_id", [""])])
    cases.append([("gene", "string-not-list")])
    cases.append([("gene", ("t1", "t2"))])

    res = []
    for items in cases:
        d = dict(items)
        res.append([norm(items), call(F.extract_feature_name_id, d), call(F.extract_feature_name_id, collections.OrderedDict(items))])
    out["extract_feature_name_id"] = res

    # extract_feature_types
    type_keys = ["gbkey", "feature_type", "feature_class", "my_type_x", "GBKEY", "Feature_Class", "x_TYPE", "type",
                 "class", "_class", "_type", "note", "gene", "gb_key", "regulatory_class", "mobile_element_type"]
    res = []
    for _ in range(400):
        ks = rng.sample(type_keys, rng.randint(0, 6))
        q = {k: [f"{k}_{i}" for i in range(rng.randint(0, 3))] for k in ks}
        start = set(rng.sample(["gene", "misc_feature", "gbkey_0", "CDS"], rng.randint(0, 3)))

        def run(start=start, q=q):
            s = set(start)
            r = F.extract_feature_types(s, q)
            return [r, s, q]

        res.append([norm(q), norm(start), call(run)])

    def run_err():
        s = {"a"}
        return F.extract_feature_types(s, {"gbkey": None})

    res.append(["err-none", call(run_err)])

    def run_str():
        s = {"a"}
        F.extract_feature_types(s, {"gbkey": "abc", 5: ["x"]})
        return s

    res.append(["err-str", call(run_str)])
    out["extract_feature_types"] = res

    # merge_qualifiers
    res = []
    keys = ["a", "b", "c", "gene", "note", 1, 2, ("t", 1), None]
    for _ in range(400):
        def mk():
            ks = rng.sample(keys, rng.randint(0, 5))
            return {k: [rng.choice(["x", "y", "z", "X", "10", "9", ""]) for _ in range(rng.randint(0, 4))] for k in ks}

        a, b = mk(), mk()
        a0, b0 = norm(a), norm(b)

        def run(a=a, b=b):
            m = F.merge_qualifiers(a, b)
            return [m, type(m).__name__, a, b, [type(v).__name__ for v in m.values()]]

        res.append([a0, b0, call(run)])
    res.append(["mixed", call(F.merge_qualifiers, {"a": ["x", 1]}, {"a": [2]})])
    res.append(["mixed2", call(F.merge_qualifiers, {"a": ["x"]}, {"a": [2]})])
    res.append(["sets", call(F.merge_qualifiers, {"a": {"x", "y"}}, {"a": ("z",), "b": "str"})])
    res.append(["none", call(F.merge_qualifiers, {"a": ["x"]}, None)])
    res.append(["none2", call(F.merge_qualifiers, None, {"a": ["x"]})])
    res.append(["unhash", call(F.merge_qualifiers, {"a": [["x"]]}, {})])
    res.append(["selfmerge", call(lambda: (lambda q: F.merge_qualifiers(q, q))({"a": ["b", "a", "b"]}))])
    out["merge_qualifiers"] = res

    # module-level constants (behavioural view only: which strings match)
    probes = name_keys + id_keys + lookalikes + type_keys + [k.upper() for k in name_keys + id_keys] + [
        "gene\n", "\ngene", "id\n", "", "feature_name2", "afeature_name", "GeNe_NaMe"]
    out["regex_behaviour"] = [
        [p,
         bool(F.FEATURE_INTERVAL_NAME_QUALIFIERS_REGEX.match(p)),
         bool(F.FEATURE_INTERVAL_ID_QUALIFIERS_REGEX.match(p)),
         bool(F.FEATURE_TYPE_IDENTIFIERS_REGEX.search(p)),
         F.FEATURE_INTERVAL_NAME_QUALIFIERS_REGEX.flags, F.FEATURE_INTERVAL_ID_QUALIFIERS_REGEX.flags,
         F.FEATURE_TYPE_IDENTIFIERS_REGEX.flags]
        for p in probes
    ]
    out["constants"] = norm(
        [
            sorted(F.FEATURE_INTERVAL_NAME_QUALIFIERS), sorted(F.FEATURE_INTERVAL_ID_QUALIFIERS),
            sorted(F.FEATURE_TYPE_IDENTIFIERS),
            [(m.name, m.value) for m in F.FeatureIntervalNameQualifiers],
            [(m.name, m.value) for m in F.FeatureIntervalIDQualifiers],
            # pattern text (deterministic because the hash seed is pinned)
            [F.FEATURE_INTERVAL_NAME_QUALIFIERS_REGEX.pattern, F.FEATURE_INTERVAL_ID_QUALIFIERS_REGEX.pattern,
             F.FEATURE_TYPE_IDENTIFIERS_REGEX.pattern, F.FEATURE_TYPE_IDENTIFIERS_REGEX.groups],
            # public names *defined* by the module (imports such as typing names / helper modules are not API)
            sorted(
                n for n in dir(F)
                if not n.startswith("_") and (n.isupper() or getattr(getattr(F, n), "__module__", None) == F.__name__)
            ),
        ]
    )
    return out


# ---------------------------------------------------------------------------------------------------------------------
# io/gff3/parser.filter_and_sort_qualifiers
# ---------------------------------------------------------------------------------------------------------------------
def section_gff3():
    install_stubs()
    from inscripta.biocantor.io.gff3 import parser as G
    from inscripta.biocantor.io.gff3.constants import BioCantorQualifiers, BioCantorGFF3ReservedQualifiers

    rng = random.Random(1818)
    reserved = [x.value for x in BioCantorQualifiers] + [x.value for x in BioCantorGFF3ReservedQualifiers]
    other = ["note", "gene", "locus_tag", "Dbxref", "xID", "product2", "Name", "NAME", "id", "parent", "Parent", "zz",
             "aa", "gene_namex", "my_gene_id", "transcript_idx", ""]
    res = []
    for _ in range(500):
        ks = rng.sample(reserved + other, rng.randint(0, 7))
        q = {k: [rng.choice(["b", "a", "C", "c", "10", "2", ""]) for _ in range(rng.randint(0, 4))] for k in ks}
        q0 = norm(q)

        def run(q=q):
            r = G.filter_and_sort_qualifiers(q)
            return [r, type(r).__name__, q]

        res.append([q0, call(run)])
    res.append(["empty", call(G.filter_and_sort_qualifiers, {})])
    res.append(["ordered", call(G.filter_and_sort_qualifiers, collections.OrderedDict([("z", ["b", "a"]), ("a", ["1"])]))])
    res.append(["none", call(G.filter_and_sort_qualifiers, None)])
    res.append(["nonstr-key", call(G.filter_and_sort_qualifiers, {1: ["a"]})])
    res.append(["mixed-vals", call(G.filter_and_sort_qualifiers, {"zz": ["a", 1]})])
    res.append(["tuple-vals", call(G.filter_and_sort_qualifiers, {"zz": ("b", "a"), "yy": {"q"}})])
    res.append(["all-filtered", call(G.filter_and_sort_qualifiers, {"ID": ["x"], "Parent": ["y"]})])
    res.append(["empty-vals", call(G.filter_and_sort_qualifiers, {"zz": []})])
    return {"filter_and_sort_qualifiers": res}


# ---------------------------------------------------------------------------------------------------------------------
# gene/interval._merge_qualifiers
# ---------------------------------------------------------------------------------------------------------------------
def _seq_to_parent(seq, seq_id="chr", alphabet=Alphabet.NT_EXTENDED_GAPPED):
    # copy of io.parser.seq_to_parent (that module cannot be imported here)
    return Parent(
        sequence=Sequence(seq, alphabet, type=SequenceType.CHROMOSOME, id=seq_id),
        location=SingleInterval(0, len(seq), Strand.PLUS),
    )


def _chunk_parent(seq, start, end, seq_id="chr"):
    # copy of io.parser.seq_chunk_to_parent
    chunk_id = f"{seq_id}:{start}-{end}"
    return Parent(
        id=chunk_id,
        sequence=Sequence(
            seq[start:end],
            Alphabet.NT_EXTENDED_GAPPED,
            id=chunk_id,
            type=SequenceType.SEQUENCE_CHUNK,
            parent=Parent(
                location=SingleInterval(
                    start, end, Strand.PLUS, parent=Parent(id=seq_id, sequence_type=SequenceType.CHROMOSOME)
                )
            ),
        ),
    )


def section_interval():
    from inscripta.biocantor.gene.feature import FeatureInterval
    from inscripta.biocantor.gene.transcript import TranscriptInterval
    from inscripta.biocantor.gene.cds_frame import CDSFrame

    rng = random.Random(181818)
    genome = "".join(rng.choice("ACGT") for _ in range(120))
    parents = {
        "none": lambda: None,
        "chrom": lambda: _seq_to_parent(genome),
        "chunk": lambda: _chunk_parent(genome, 5, 110),
    }
    blocks = [([10], [40]), ([10, 50], [30, 80]), ([12, 40, 70], [28, 61, 100])]
    quals = [
        None,
        {},
        {"gene": ["g1"], "note": ["b", "a", "b"]},
        {"z": ["1", "2", "1"], "a": ["x"], "k5": ["five"]},
        {"key": []},
    ]
    others = [
        None,
        {},
        {"gene": ["g2", "g1"], "parent_only": ["p"]},
        {"z": ["3"], "new": {"n1", "n2"}, "a": ("x", "y")},
        {"key": ["v"], "gene": []},
    ]
    res = []
    for pname, pf in parents.items():
        for starts, ends in blocks:
            for strand in (Strand.PLUS, Strand.MINUS):
                for qi, q in enumerate(quals):
                    def mk_feat():
                        return FeatureInterval(starts, ends, strand, qualifiers=q, parent_or_seq_chunk_parent=pf(),
                                               feature_types=["t1"], feature_name="fn", feature_id="fid",
                                               sequence_name="chr")

                    def mk_tx():
                        cs, ce = [starts[0] + 1], [ends[0] - 1]
                        return TranscriptInterval(starts, ends, strand, cds_starts=cs, cds_ends=ce,
                                                  cds_frames=[CDSFrame.ZERO], qualifiers=q,
                                                  parent_or_seq_chunk_parent=pf(), transcript_id="tid", sequence_name="chr",
                                                  transcript_symbol="ts", protein_id="pid", product="prod")

                    for oi, o in enumerate(others):
                        label = f"{pname}|{starts}|{strand.name}|q{qi}|o{oi}"

                        def run_merge(mk):
                            obj = mk()
                            before = norm(obj.qualifiers)
                            m = obj._merge_qualifiers(o)
                            # mutate result to check aliasing
                            snapshot = norm(m)
                            types_ = [type(v).__name__ for v in m.values()]
                            for v in m.values():
                                v.add("__MUT__")
                            m["__newkey__"] = {"x"}
                            after = norm(obj.qualifiers)
                            return [snapshot, type(m).__name__, types_, before, after, norm(o)]

                        res.append([label, "feat-merge", call(run_merge, mk_feat)])
                        res.append([label, "tx-merge", call(run_merge, mk_tx)])
                        res.append([label, "feat-export", call(lambda: mk_feat().export_qualifiers(o))])
                        res.append([label, "tx-export", call(lambda: mk_tx().export_qualifiers(o))])
                        res.append([label, "cds-export", call(lambda: mk_tx().cds.export_qualifiers(o))])
                    res.append([f"{pname}|{starts}|{strand.name}|q{qi}", "feat-dict", call(lambda: mk_feat().to_dict())])
                    res.append([f"{pname}|{starts}|{strand.name}|q{qi}", "tx-dict", call(lambda: mk_tx().to_dict())])
                    res.append([f"{pname}|{starts}|{strand.name}|q{qi}", "feat-gff",
                                call(lambda: [str(x) for x in mk_feat().to_gff(parent_qualifiers=others[2])])])
                    res.append([f"{pname}|{starts}|{strand.name}|q{qi}", "tx-gff",
                                call(lambda: [str(x) for x in mk_tx().to_gff(parent_qualifiers=others[3])])])
    return {"interval": res}


# ---------------------------------------------------------------------------------------------------------------------
# io/genbank/parser
# ---------------------------------------------------------------------------------------------------------------------
def section_genbank():
    install_stubs()
    from Bio import SeqIO
    from inscripta.biocantor.io.genbank import parser as P
    from inscripta.biocantor.io.genbank.constants import GenBankParserType

    data = os.path.join(os.getcwd(), "tests", "data")
    files = sorted(f for f in os.listdir(data) if f.endswith((".gbk", ".gb", ".gbff")))
    classes = {
        "LOCUS_TAG": P.LocusTagGenBankParser,
        "HYBRID": P.HybridGenBankParser,
        "SORTED": P.SortedGenBankParser,
    }

    def summarise_grouped(parser):
        return [
            [
                [repr(g.gene_feature), [repr(t) for t in (g.transcript_features or [])],
                 [repr(c) for c in (g.cds_features or [])], g.seqrecord.id]
                for g in per_rec
            ]
            for per_rec in parser.grouped_gene_features
        ]

    def run(fname, cls, seed):
        with warnings.catch_warnings():
            warnings.simplefilter("ignore")
            recs = list(SeqIO.parse(os.path.join(data, fname), "genbank"))
        if seed is not None:
            rng = random.Random(seed)
            for r in recs:
                rng.shuffle(r.features)
        parser = cls(recs, {}, P.GeneFeature.to_gene_model, P.FeatureIntervalGenBankCollection.to_feature_model)
        result = None
        err = None
        try:
            result = [[rec.annotation.d, rec.seqrecord.id] for rec in parser.parse()]
        except RecursionError:
            raise
        except Exception as e:  # noqa
            err = [type(e).__name__, str(e)]
        return {
            "result": result,
            "error": err,
            "gene_filtered": [[repr(f) for f in x] for x in parser.gene_filtered_features],
            "feature_features": [[repr(f) for f in x] for x in parser.feature_features],
            "grouped": summarise_grouped(parser),
            "genes": [[repr(g) for g in x] for x in parser.genes],
            "sources": [repr(s) for s in parser.sources],
        }

    res = []
    for fname in files:
        size = os.path.getsize(os.path.join(data, fname))
        seeds = [None, 1, 2, 3] if size < 400_000 else [None, 1]
        for cname, cls in classes.items():
            for seed in seeds:
                res.append([fname, cname, seed, call(run, fname, cls, seed)])

    # hand-made records: duplicate gene features with the same tag, unknown feature types, several mRNA+CDS pairs,
    # multi-valued locus tags that only differ in later values (sort key is the whole list)
    from Bio.SeqFeature import SeqFeature, FeatureLocation, CompoundLocation
    from Bio.SeqRecord import SeqRecord
    from Bio.Seq import Seq

    def feat(type_, s, e, strand, tag=None, extra=None, parts=None):
        if parts:
            locs = [FeatureLocation(a, b, strand) for a, b in parts]
            if strand == -1:
                locs = locs[::-1]
            loc = CompoundLocation(locs)
        else:
            loc = FeatureLocation(s, e, strand)
        q = collections.OrderedDict()
        if tag is not None:
            q["locus_tag"] = tag if isinstance(tag, list) else [tag]
        q.update(extra or {})
        return SeqFeature(loc, type=type_, qualifiers=q)

    def synth(kind):
        fs = [feat("source", 0, 300, 1, extra={"organism": ["x"]})]
        if kind == "basic":
            fs += [
                feat("gene", 10, 100, 1, "T2", {"gene": ["b"]}),
                feat("mRNA", 10, 100, 1, "T2", parts=[(10, 40), (60, 100)]),
                feat("CDS", 13, 97, 1, "T2", {"protein_id": ["p2"]}, parts=[(13, 40), (60, 97)]),
                feat("gene", 120, 200, -1, "T1", {"gene": ["a"], "pseudo": [""]}),
                feat("CDS", 120, 200, -1, "T1", parts=[(120, 150), (170, 200)]),
                feat("gene", 210, 260, -1, "T3"),
                feat("tRNA", 210, 260, -1, "T3", {"product": ["tRNA-x"]}),
                feat("misc_feature", 5, 9, 1, "T9", {"note": ["first, thing"], "gbkey": ["misc"]}),
                feat("misc_feature", 270, 280, -1, None, {"feature_name": ["fname"], "gene": ["gname"], "ID": ["i"]}),
                feat("repeat_region", 281, 290, 1, "T9", {"rpt_type": ["direct"], "label": ["lab"]}),
            ]
        elif kind == "dup_gene":
            fs += [
                feat("gene", 10, 100, 1, "T1"),
                feat("CDS", 10, 100, 1, "T1"),
                feat("gene", 120, 200, -1, "T1"),
                feat("CDS", 120, 200, -1, "T1"),
            ]
        elif kind == "multi_tx":
            fs += [
                feat("gene", 10, 200, 1, "T1"),
                feat("mRNA", 10, 200, 1, "T1", {"transcript_id": ["tx1"]}, parts=[(10, 50), (100, 200)]),
                feat("CDS", 20, 190, 1, "T1", {"protein_id": ["p1"]}, parts=[(20, 50), (100, 190)]),
                feat("mRNA", 10, 200, 1, "T1", {"transcript_id": ["tx2"]}, parts=[(10, 60), (100, 200)]),
                feat("CDS", 20, 190, 1, "T1", {"protein_id": ["p2"]}, parts=[(20, 60), (100, 190)]),
                feat("gene", 210, 290, -1, "T0"),
                feat("ncRNA", 210, 290, -1, "T0"),
                feat("ncRNA", 215, 290, -1, "T0"),
                feat("CDS", 215, 290, -1, "T0"),
            ]
        elif kind == "multi_valued_tags":
            fs += [
                feat("gene", 10, 100, 1, ["A", "z"]),
                feat("CDS", 10, 100, 1, ["A", "a"]),
                feat("gene", 120, 200, -1, ["B", "q"]),
                feat("tRNA", 120, 200, -1, ["B"]),
                feat("gene", 210, 260, 1, ["AB"]),
            ]
        elif kind == "no_gene":
            fs += [
                feat("CDS", 10, 100, 1, "T5", {"gene": ["only_cds"]}),
                feat("mRNA", 120, 200, -1, "T4", parts=[(120, 150), (170, 200)]),
                feat("CDS", 125, 195, -1, "T4", parts=[(125, 150), (170, 195)]),
                feat("rRNA", 210, 260, 1, "T6"),
                feat("gene", 262, 270, 1, None, {"gene": ["untagged"]}),
            ]
        elif kind == "empty_tag":
            fs += [
                feat("gene", 10, 100, 1, []),
                feat("CDS", 10, 100, 1, "T1"),
            ]
        return [SeqRecord(Seq("ACGT" * 75), id=f"synth_{kind}", name="s", description="d", features=fs)]

    def run_synth(kind, cls, seed):
        recs = synth(kind)
        if seed is not None:
            rng = random.Random(seed)
            for r in recs:
                rng.shuffle(r.features)
        parser = cls(recs, {}, P.GeneFeature.to_gene_model, P.FeatureIntervalGenBankCollection.to_feature_model)
        result = err = None
        try:
            result = [[rec.annotation.d, rec.seqrecord.id] for rec in parser.parse()]
        except RecursionError:
            raise
        except Exception as e:  # noqa
            err = [type(e).__name__, str(e)]
        return {
            "result": result,
            "error": err,
            "gene_filtered": [[repr(f) for f in x] for x in parser.gene_filtered_features],
            "feature_features": [[repr(f) for f in x] for x in parser.feature_features],
            "grouped": summarise_grouped(parser),
            "genes": [[repr(g) for g in x] for x in parser.genes],
            "fcs": [[sorted(fc.types) for fc in x] for x in parser.feature_collections],
        }

    for kind in ("basic", "dup_gene", "multi_tx", "multi_valued_tags", "no_gene", "empty_tag"):
        for cname, cls in classes.items():
            for seed in [None] + list(range(1, 13)):
                res.append([f"synth:{kind}", cname, seed, call(run_synth, kind, cls, seed)])

    # parse_genbank front door on a couple of files, every parser type
    for fname in ("INSC1003.gbk", "INSC1006_chrI.gbff", "feature_test_2.gbk", "locus_tag_collision.gbk",
                  "INSC1003_duplicate_locus_tag.gb", "INSC1003_hybrid.gbk"):
        for t in GenBankParserType:
            def front(fname=fname, t=t):
                return [[rec.annotation.d, rec.seqrecord.id]
                        for rec in P.parse_genbank(os.path.join(data, fname), gbk_type=t)]

            res.append([fname, "parse_genbank", t.name, call(front)])
    return {"genbank": res}


RUNNERS = {
    "features": section_features,
    "gff3": section_gff3,
    "interval": section_interval,
    "genbank": section_genbank,
}


def dump(path):
    out = {}
    for s in SECTIONS:
        out[s] = RUNNERS[s]()
    os.makedirs(os.path.dirname(os.path.abspath(path)), exist_ok=True)
    with open(path, "w") as fh:
        json.dump(out, fh, sort_keys=True)
    counts = {s: {k: len(v) for k, v in out[s].items()} for s in out}
    print("dumped", path, counts)


def _first_diff(x, y, path=()):
    if type(x) is not type(y):
        return path, x, y
    if isinstance(x, dict):
        for k in sorted(set(x) | set(y)):
            if k not in x or k not in y:
                return path + (k,), x.get(k), y.get(k)
            r = _first_diff(x[k], y[k], path + (k,))
            if r:
                return r
        return None
    if isinstance(x, list):
        if len(x) != len(y):
            return path + ("len",), len(x), len(y)
        for i, (p, q) in enumerate(zip(x, y)):
            r = _first_diff(p, q, path + (i,))
            if r:
                return r
        return None
    return None if x == y else (path, x, y)


def compare(a, b):
    with open(a) as fh:
        A = json.load(fh)
    with open(b) as fh:
        B = json.load(fh)
    bad = 0
    total = 0
    for s in sorted(set(A) | set(B)):
        for k in sorted(set(A.get(s, {})) | set(B.get(s, {}))):
            va, vb = A.get(s, {}).get(k), B.get(s, {}).get(k)
            if not isinstance(va, list) or not isinstance(vb, list) or len(va) != len(vb):
                total += 1
                if va != vb:
                    bad += 1
                    print("DIFF", s, k, "(whole entry)")
                continue
            for i, (x, y) in enumerate(zip(va, vb)):
                total += 1
                if x != y:
                    bad += 1
                    if bad <= 10:
                        path, p, q = _first_diff(x, y)
                        print("DIFF", s, k, i, json.dumps(x)[:200], "\n   at", path[-10:], "\n     ", json.dumps(p)[:300],
                              "\n   vs", json.dumps(q)[:300])
    print(f"compared {total} cases: {bad} differences")
    return 1 if bad else 0


if __name__ == "__main__":
    if sys.argv[1] == "dump":
        dump(sys.argv[2])
    elif sys.argv[1] == "compare":
        sys.exit(compare(sys.argv[2], sys.argv[3]))
    else:
        raise SystemExit(__doc__)
