"""Equivalence harness for property C15 (tables / finite enumerated algebras).

Usage (from the worktree root):
    /venv/bin/python _refactor/R2/equiv.py dump /tmp/c15_pristine.json     # on pristine checkout
    git apply _refactor/R2/patch.diff
    /venv/bin/python _refactor/R2/equiv.py dump /tmp/c15_patched.json
    /venv/bin/python _refactor/R2/equiv.py compare /tmp/c15_pristine.json /tmp/c15_patched.json
"""
import itertools
import json
import os
import sys

sys.path.insert(0, os.getcwd())  # run from the worktree root

import inscripta.biocantor.location  # noqa: F401  (must come first: circular import otherwise)
from inscripta.biocantor import constants
from inscripta.biocantor.gene import codon as codon_mod
from inscripta.biocantor.gene.biotype import Biotype, UNKNOWN_BIOTYPE
from inscripta.biocantor.gene.cds_frame import CDSFrame, CDSPhase
from inscripta.biocantor.gene.codon import Codon, TranslationTable, START_CODONS_BY_TRANSLATION_TABLE
from inscripta.biocantor.location.location_impl import SingleInterval
from inscripta.biocantor.location.strand import Strand
from inscripta.biocantor.parent import Parent
from inscripta.biocantor.sequence.alphabet import Alphabet, ALPHABET_TO_NUCLEOTIDE_COMPLEMENT
from inscripta.biocantor.sequence.sequence import Sequence


def call(fn, *args, **kwargs):
    """Result of fn as a JSON-able value, or the exception type + message."""
    try:
        return ["ok", norm(fn(*args, **kwargs))]
    except BaseException as e:  # noqa
        return ["exc", type(e).__name__, str(e)]


def norm(x):
    if isinstance(x, (Codon,)):
        return ["Codon", repr(x)]
    if isinstance(x, (Strand, CDSFrame, CDSPhase, Alphabet, Biotype, TranslationTable)):
        return [type(x).__name__, x.name, x.value]
    if isinstance(x, dict):
        return ["dict", [[norm(k), norm(v)] for k, v in x.items()]]
    if isinstance(x, (list, tuple)):
        return [type(x).__name__, [norm(i) for i in x]]
    if isinstance(x, (set, frozenset)):
        return [type(x).__name__, sorted(json.dumps(norm(i)) for i in x)]
    if isinstance(x, Sequence):
        return ["Sequence", str(x), repr(x), x.alphabet.name, x.id, x.sequence_type, repr(x.parent)]
    if isinstance(x, bool) or x is None or isinstance(x, (int, str)):
        return [type(x).__name__, x]
    if isinstance(x, float):
        return ["float", repr(x)]
    return ["obj", type(x).__name__, repr(x)]


class Unhashable:
    __hash__ = None

    def __repr__(self):
        return "Unhashable()"


class EqEverything:
    def __eq__(self, other):
        return True

    def __hash__(self):
        return 7

    def __repr__(self):
        return "EqEverything()"


def section_constants(out):
    out["constants.gencode"] = norm(constants.gencode)
    out["constants.extended_gencode"] = norm(constants.extended_gencode)
    out["constants.aacodons"] = norm(constants.aacodons)
    out["constants.types"] = [
        type(constants.gencode).__name__,
        type(constants.extended_gencode).__name__,
        type(constants.aacodons).__name__,
        sorted({type(v).__name__ for v in constants.aacodons.values()}),
    ]
    out["constants.public_names"] = sorted(n for n in vars(constants) if not n.startswith("_"))
    out["codon_mod.same_objects"] = [
        codon_mod.gencode is constants.gencode,
        codon_mod.extended_gencode is constants.extended_gencode,
        codon_mod.aacodons is constants.aacodons,
    ]


def codon_record(c):
    rec = {
        "repr": repr(c),
        "str": str(c),
        "value": c.value,
        "name": c.name,
        "hash_ok": hash(c) == hash(str(c)),
        "translate": c.translate(),
        "translate_strict": c.translate(strict=True),
        "translate_pos_false": c.translate(False),
        "translate_loose": c.translate(strict=False),
        "syn": [str(x) for x in c.synonymous_codons()],
        "syn_self": [str(x) for x in c.synonymous_codons(include_self=True)],
        "syn_pos": [str(x) for x in c.synonymous_codons(True)],
        "syn_identity": all(x is Codon(str(x)) for x in c.synonymous_codons(True)),
        "stop": c.is_stop_codon,
        "strict": c.is_strict_codon,
        "canon": c.is_canonical_start_codon,
        "start_default": c.is_start_codon_in_specific_translation_table(),
        "start": [
            [t.name, c.is_start_codon_in_specific_translation_table(t)] for t in TranslationTable
        ],
        "start_kw": c.is_start_codon_in_specific_translation_table(translation_table=TranslationTable.PROKARYOTE),
        "start_int": call(c.is_start_codon_in_specific_translation_table, 11),
        "start_bad": call(c.is_start_codon_in_specific_translation_table, 4),
        "start_none": call(c.is_start_codon_in_specific_translation_table, None),
        "eq": [c == c, c == str(c), c != str(c), c == Codon(str(c).lower())],
        "types": [type(c.is_stop_codon).__name__, type(c.translate()).__name__],
    }
    return rec


def section_codon(out):
    letters = "ATUCGNWSMKRYBDHV"
    recs = {}
    for triple in itertools.product(letters, repeat=3):
        s = "".join(triple)
        recs[s] = codon_record(Codon(s))
    out["codon.all_iupac"] = recs
    # constructor edge cases
    ctor = {}
    nt = Sequence("atg", Alphabet.NT_STRICT)
    inputs = [
        "atg", "AtG", "ATG", "", "A", "AT", "ATGA", "ATGATG", "XYZ", "AT-", "A T", "ATX", "at*", "...", "NNN", "nnn",
        "ÄTG", 123, 1234, None, 1.5, nt, Sequence("TTGA", Alphabet.NT_STRICT), b"ATG", ["A", "T", "G"], "AUG", "aug",
    ]
    for rnd in (1, 2):  # second round: hits the singleton cache populated (even by failing constructions)
        for i in inputs:
            ctor[f"{rnd}:{i!r}"] = call(Codon, i)
    out["codon.ctor"] = ctor
    out["codon.singleton"] = [
        Codon("atg") is Codon("ATG"),
        Codon(nt) is Codon("ATG"),
        Codon("ATG") is Codon("ATG"),
        Codon("ATG") is not Codon("ATA"),
        len({Codon("ATG"), Codon("atg"), Codon("ATA")}),
    ]
    out["codon.singleton_keys"] = sorted(Codon._singletons_)
    out["codon.slots"] = norm(Codon.__slots__)
    out["codon.start_table"] = [
        [norm(k), type(v).__name__, sorted(str(c) for c in v), all(type(c) is Codon for c in v)]
        for k, v in START_CODONS_BY_TRANSLATION_TABLE.items()
    ]
    out["codon.translation_table"] = [[t.name, t.value, int(t)] for t in TranslationTable]
    out["codon.translation_table_lookup"] = [call(TranslationTable, v) for v in (0, 1, 11, 2, "1", None)]
    out["codon.attrs"] = call(lambda: setattr(Codon("ATG"), "foo", 1))


def section_frames(out):
    out["frame.members"] = [[m.name, m.value] for m in CDSFrame]
    out["phase.members"] = [[m.name, m.value] for m in CDSPhase]
    vals = [-3, -2, -1, 0, 1, 2, 3, 4, 5, True, False, None, "0", "1", 0.0, 1.0, 2.5, -1.0]
    out["frame.from_int"] = [[repr(v), call(CDSFrame.from_int, v)] for v in vals]
    out["phase.from_int"] = [[repr(v), call(CDSPhase.from_int, v)] for v in vals]
    out["frame.from_int_kw"] = call(CDSFrame.from_int, value=2)
    out["phase.from_int_kw"] = call(CDSPhase.from_int, value=2)
    out["phase.to_frame"] = [[p.name, call(p.to_frame)] for p in CDSPhase]
    out["phase.to_gff"] = [[p.name, call(p.to_gff)] for p in CDSPhase]
    out["frame.to_phase"] = [[f.name, call(f.to_phase)] for f in CDSFrame]
    shifts = list(range(-30, 31)) + [99, -99, 10**12, -(10**12) - 1, True, False, 2.0, -3.0, 1.5, -1.5, 0.0, -0.0, None, "1"]
    out["frame.shift"] = [[f.name, repr(s), call(f.shift, s)] for f in CDSFrame for s in shifts]
    out["frame.shift_kw"] = [[f.name, call(f.shift, shift=-4)] for f in CDSFrame]
    out["frame.roundtrip"] = [[f.name, f.to_phase().to_frame() is f] for f in CDSFrame]


def section_alphabet(out):
    out["alphabet.members"] = [[m.name, m.value] for m in Alphabet]
    out["alphabet.all_members"] = [[n, m.name] for n, m in Alphabet.__members__.items()]
    out["alphabet.is_nt"] = [[m.name, call(m.is_nucleotide_alphabet)] for m in Alphabet]
    out["alphabet.is_nt_aliases"] = [[n, call(m.is_nucleotide_alphabet)] for n, m in Alphabet.__members__.items()]
    out["alphabet.is_nt_unbound"] = [call(Alphabet.is_nucleotide_alphabet, x) for x in ("ACGT", None, 3)]
    out["alphabet.complement"] = norm(ALPHABET_TO_NUCLEOTIDE_COMPLEMENT)
    out["alphabet.complement_types"] = [type(ALPHABET_TO_NUCLEOTIDE_COMPLEMENT).__name__] + [
        type(v).__name__ for v in ALPHABET_TO_NUCLEOTIDE_COMPLEMENT.values()
    ]
    out["alphabet.complement_distinct"] = len({id(v) for v in ALPHABET_TO_NUCLEOTIDE_COMPLEMENT.values()})
    seqs = [
        "", "A", "ACGT", "acgt", "AaCcGgTt", "ACGTN", "acgtn", "ACGT-", "AC-GT", "ATUCGNWSMKRYBDHV", "atucgnwsmkrybdhv",
        "ATUCGNWSMKRYBDHV-", "GATTACA", "NNNN", "ATGX", "U", "u", "--", "MKL*", "GALMFWKQESPVICYHRNDTX*.", "ABCXYZ-",
    ]
    rc = []
    for a in Alphabet:
        for s in seqs:
            for validate in (True, False):
                def make(a=a, s=s, validate=validate):
                    return Sequence(s, a, validate_alphabet=validate).reverse_complement()
                rc.append([a.name, s, validate, call(make)])
    out["sequence.reverse_complement"] = rc
    rcp = []
    for strand in Strand:
        for a, s in ((Alphabet.NT_STRICT, "AACCGGT"), (Alphabet.NT_EXTENDED_GAPPED, "RY-ku"), (Alphabet.NT_STRICT_UNKNOWN, "ANnt")):
            def make_p(a=a, s=s, strand=strand):
                parent = Parent(id="p", location=SingleInterval(3, 3 + len(s), strand))
                seq = Sequence(s, a, id="x", type="t", parent=parent)
                r = seq.reverse_complement(new_id="y", new_type="u")
                return [r, r.reverse_complement(), r.reverse_complement().reverse_complement(new_id="z")]
            rcp.append([strand.name, a.name, s, call(make_p)])

            def make_s(a=a, s=s, strand=strand):
                seq = Sequence(s, a, parent=Parent(strand=strand))
                return [seq.reverse_complement(), seq.reverse_complement().reverse_complement()]
            rcp.append([strand.name, a.name, s, "strand-only", call(make_s)])
    out["sequence.reverse_complement_parent"] = rcp


def section_strand(out):
    out["strand.members"] = [[m.name, m.value, str(m), repr(m)] for m in Strand]
    syms = ["+", "-", ".", "", "x", "++", " +", None, 1, -1, 0, 1.0, b"+", ["+"], ("+",), Unhashable(), EqEverything(), Strand.PLUS]
    out["strand.from_symbol"] = [[repr(s), call(Strand.from_symbol, s)] for s in syms]
    out["strand.from_symbol_kw"] = call(Strand.from_symbol, value="-")
    out["strand.to_symbol"] = [[m.name, call(m.to_symbol), type(m.to_symbol()).__name__] for m in Strand]
    ints = [-2, -1, 0, 1, 2, True, False, 1.0, -1.0, 0.5, "1", "+", None, Strand.PLUS]
    out["strand.from_int"] = [[repr(i), call(Strand.from_int, i)] for i in ints]
    out["strand.from_int_kw"] = call(Strand.from_int, value=-1)
    out["strand.order"] = norm(Strand._order())
    out["strand.order_fresh"] = Strand._order() is not Strand._order()
    d = Strand._order()
    d[Strand.PLUS] = 99
    out["strand.order_after_mutation"] = norm(Strand._order())
    others = list(Strand) + [1, -1, 0, "+", None, 1.5, EqEverything()]
    cmp = []
    import operator
    for a in Strand:
        for b in others:
            for opname in ("lt", "le", "gt", "ge", "eq", "ne"):
                cmp.append([a.name, repr(b), opname, call(getattr(operator, opname), a, b)])
                if not isinstance(b, Strand):
                    cmp.append([repr(b), a.name, opname, call(getattr(operator, opname), b, a)])
    out["strand.cmp"] = cmp
    out["strand.sorted"] = [
        call(sorted, list(p)) for p in itertools.permutations(list(Strand))
    ] + [call(sorted, [Strand.MINUS, Strand.PLUS, Strand.MINUS, Strand.UNSTRANDED, Strand.PLUS])]
    out["strand.minmax"] = [call(min, list(Strand)), call(max, list(Strand))]
    out["strand.reverse"] = [[m.name, call(m.reverse), m.reverse().reverse() is m] for m in Strand]
    out["strand.relative_to"] = [[a.name, repr(b), call(a.relative_to, b)] for a in Strand for b in others]
    out["strand.relative_to_kw"] = [[a.name, b.name, call(a.relative_to, other=b)] for a in Strand for b in Strand]
    out["strand.assert_directional"] = [[m.name, call(m.assert_directional)] for m in Strand]
    out["strand.hash"] = [hash(m) == hash(m.name) for m in Strand]
    out["strand.unbound"] = [
        call(Strand.to_symbol, 5), call(Strand.reverse, 5), call(Strand.assert_directional, 5),
        call(Strand.relative_to, 5, Strand.PLUS), call(Strand.relative_to, 5, 5),
    ]


def section_biotype(out):
    out["biotype.members"] = [[m.name, m.value] for m in Biotype]
    out["biotype.all_members"] = [[n, m.name, m.value] for n, m in Biotype.__members__.items()]
    out["biotype.meta"] = [Biotype.__name__, Biotype.__qualname__, [c.__name__ for c in Biotype.__mro__], UNKNOWN_BIOTYPE]
    import pickle
    out["biotype.module"] = [Biotype.__module__, pickle.loads(pickle.dumps(Biotype.mRNA)) is Biotype.protein_coding]
    out["biotype.repr"] = [[repr(m), str(m)] for m in Biotype]
    names = list(Biotype.__members__) + ["foo", "MRNA", "unspecified", "", None, 3]
    out["biotype.has_name"] = [[repr(n), call(Biotype.has_name, n)] for n in names]
    out["biotype.getitem"] = [[repr(n), call(Biotype.__getitem__, n)] for n in names]
    vals = list(range(-2, 40)) + ["0", None, 1.0, "mRNA"]
    out["biotype.has_value"] = [[repr(v), call(Biotype.has_value, v)] for v in vals]
    out["biotype.call"] = [[repr(v), call(Biotype, v)] for v in vals]
    out["biotype.value2member"] = [[k, v.name] for k, v in Biotype._value2member_map_.items()]
    out["biotype.synonyms"] = [
        Biotype["protein_coding"] is Biotype["mRNA"], Biotype["protein-coding"] is Biotype.mRNA,
        Biotype.misc_RNA is Biotype.miscRNA, Biotype.pseudogene is Biotype.pseudo, Biotype.lncRNA is Biotype.lnc_RNA,
        Biotype.ncRNA is not Biotype.misc_RNA,
    ]


def dump(path):
    out = {}
    for fn in (section_constants, section_codon, section_frames, section_alphabet, section_strand, section_biotype):
        fn(out)
    with open(path, "w") as fh:
        json.dump(out, fh, indent=0, sort_keys=False)
    n = sum(len(v) if isinstance(v, (list, dict)) else 1 for v in out.values())
    print(f"wrote {path}: {len(out)} sections, {n} top-level records")


def compare(a, b):
    with open(a) as fa, open(b) as fb:
        da, db = json.load(fa), json.load(fb)
    bad = 0
    if list(da) != list(db):
        print("section lists differ", set(da) ^ set(db))
        bad += 1
    for k in da:
        if da[k] != db.get(k):
            bad += 1
            print("DIFF in section", k)
            va, vb = da[k], db.get(k)
            if isinstance(va, list) and isinstance(vb, list):
                for x, y in zip(va, vb):
                    if x != y:
                        print("   pristine:", json.dumps(x)[:300])
                        print("   patched :", json.dumps(y)[:300])
                        break
            elif isinstance(va, dict) and isinstance(vb, dict):
                for kk in va:
                    if va[kk] != vb.get(kk):
                        print("   key", kk)
                        print("   pristine:", json.dumps(va[kk])[:300])
                        print("   patched :", json.dumps(vb.get(kk))[:300])
                        break
    print("EQUIVALENT" if not bad else f"{bad} sections differ")
    return 1 if bad else 0


if __name__ == "__main__":
    if sys.argv[1] == "dump":
        dump(sys.argv[2])
    else:
        sys.exit(compare(sys.argv[2], sys.argv[3]))
