"""Equivalence script for R3 (gene/interval.py).

Usage (from the worktree root):
    /venv/bin/python _refactor/R3/equiv.py dump /tmp/r3_pristine.json      # on the pristine checkout
    git apply _refactor/R3/patch.diff
    /venv/bin/python _refactor/R3/equiv.py dump /tmp/r3_patched.json
    /venv/bin/python _refactor/R3/equiv.py compare /tmp/r3_pristine.json /tmp/r3_patched.json
"""
import copy
import json
import os
import sys

if os.environ.get("PYTHONHASHSEED") != "0":
    os.environ["PYTHONHASHSEED"] = "0"
    os.execv(sys.executable, [sys.executable] + sys.argv)

sys.path.insert(0, os.getcwd())

import inscripta.biocantor.location  # noqa: E402,F401  (must be first: circular import otherwise)
from inscripta.biocantor.gene.cds import CDSInterval  # noqa: E402
from inscripta.biocantor.gene.cds_frame import CDSFrame  # noqa: E402
from inscripta.biocantor.gene.collections import AnnotationCollection  # noqa: E402
from inscripta.biocantor.gene.feature import FeatureInterval, FeatureIntervalCollection  # noqa: E402
from inscripta.biocantor.gene.gene import GeneInterval  # noqa: E402
from inscripta.biocantor.gene.interval import AbstractFeatureIntervalCollection  # noqa: E402
from inscripta.biocantor.gene.transcript import TranscriptInterval  # noqa: E402
from inscripta.biocantor.location.location_impl import SingleInterval, CompoundInterval  # noqa: E402
from inscripta.biocantor.location.strand import Strand  # noqa: E402
from inscripta.biocantor.parent import Parent, SequenceType  # noqa: E402
from inscripta.biocantor.sequence.alphabet import Alphabet  # noqa: E402
from inscripta.biocantor.sequence.sequence import Sequence  # noqa: E402

GENOME = (
    "ACGTTGCAAGGCTTAACCGGATATCGCGTATGAGCCATGGTACCTTGAAACCCGGGTTTACGTAGCTAGCTAGGATCCAA"
    "TTGACCATGGCATTAGCGGCTAAGCTTGGATCCGTACGATCGATTAGCAT"
)  # 130 nt


def attempt(fn):
    try:
        val = fn()
    except Exception as e:  # noqa
        return {"exc": type(e).__name__, "msg": str(e)}
    return {"type": type(val).__name__, "repr": repr(val), "str": str(val)}


def seq_to_parent(seq, alphabet=Alphabet.NT_EXTENDED_GAPPED, seq_id=None, seq_type=SequenceType.CHROMOSOME):
    return Parent(
        sequence=Sequence(seq, alphabet, type=seq_type, id=seq_id), location=SingleInterval(0, len(seq), Strand.PLUS)
    )


def seq_chunk_to_parent(seq, sequence_name, start, end, strand=Strand.PLUS, alphabet=Alphabet.NT_EXTENDED_GAPPED):
    chunk_id = f"{sequence_name}:{start}-{end}"
    return Parent(
        id=chunk_id,
        sequence=Sequence(
            seq,
            alphabet,
            id=chunk_id,
            type=SequenceType.SEQUENCE_CHUNK,
            parent=Parent(
                location=SingleInterval(
                    start, end, strand, parent=Parent(id=sequence_name, sequence_type=SequenceType.CHROMOSOME)
                )
            ),
        ),
    )


PARENTS = {
    "none": lambda: None,
    "chrom": lambda: seq_to_parent(GENOME, seq_id="chr1"),
    "chrom_noseq": lambda: Parent(id="chr1", sequence_type=SequenceType.CHROMOSOME),
    "unknown_type": lambda: Parent(id="chr1", sequence=Sequence(GENOME, Alphabet.NT_EXTENDED_GAPPED)),
    "chunk_all": lambda: seq_chunk_to_parent(GENOME[5:125], "chr1", 5, 125),
    "chunk_mid": lambda: seq_chunk_to_parent(GENOME[30:66], "chr1", 30, 66),
    "chunk_left": lambda: seq_chunk_to_parent(GENOME[0:35], "chr1", 0, 35),
    "chunk_off": lambda: seq_chunk_to_parent(GENOME[100:130], "chr1", 100, 130),
}

# name: exon starts, exon ends, strand, cds starts, cds ends, starting frame, primary flag
TRANSCRIPTS = {
    "t_plus3": ([12, 28, 52], [20, 40, 70], Strand.PLUS, [14, 28, 52], [20, 40, 61], CDSFrame.ZERO, None),
    "t_minus3": ([12, 28, 52], [20, 40, 70], Strand.MINUS, [14, 28, 52], [20, 40, 61], CDSFrame.ZERO, None),
    "t_single": ([15], [60], Strand.PLUS, [18], [57], CDSFrame.ZERO, None),
    "t_single_minus": ([15], [60], Strand.MINUS, [18], [57], CDSFrame.ONE, True),
    "t_noncoding": ([10, 44], [33, 90], Strand.PLUS, None, None, None, None),
    "t_noncoding_minus": ([10, 44], [33, 90], Strand.MINUS, None, None, None, False),
    "t_full_cds": ([20, 50], [35, 80], Strand.MINUS, [20, 50], [35, 80], CDSFrame.TWO, None),
    "t_adjacent": ([10, 20, 45], [20, 40, 66], Strand.PLUS, [12, 20, 45], [20, 40, 60], CDSFrame.ONE, True),
}

FEATURES = {
    "f_plus": ([11, 30, 77], [22, 41, 95], Strand.PLUS, None),
    "f_minus": ([25], [58], Strand.MINUS, True),
    "f_minus2": ([2, 40], [9, 64], Strand.MINUS, None),
    "f_unstranded": ([33, 50], [44, 71], Strand.UNSTRANDED, None),
    "f_plus_same_len": ([3, 41], [10, 65], Strand.PLUS, None),
}

QUALS = {"note": ["a", "b"], "gene": ["g1"], "num": [1, 2]}
PARENT_QUALS = {"note": {"b", "zz"}, "extra": {"e"}, "gene": {"g1"}}


def make_transcript(name, parent):
    es, ee, strand, cs, ce, frame, primary = TRANSCRIPTS[name]
    frames = None
    if cs is not None:
        loc = CompoundInterval(cs, ce, strand)
        frames = CDSInterval.construct_frames_from_location(loc, frame)
    return TranscriptInterval(
        list(es),
        list(ee),
        strand,
        cds_starts=list(cs) if cs else None,
        cds_ends=list(ce) if ce else None,
        cds_frames=frames,
        qualifiers=copy.deepcopy(QUALS),
        is_primary_tx=primary,
        transcript_id=name,
        transcript_symbol=name.upper(),
        protein_id="prot_" + name,
        product="product of " + name,
        sequence_name="chr1",
        parent_or_seq_chunk_parent=parent,
    )


def make_feature(name, parent):
    s, e, strand, primary = FEATURES[name]
    return FeatureInterval(
        list(s),
        list(e),
        strand,
        qualifiers=copy.deepcopy(QUALS),
        feature_types=["ftype", name],
        feature_name=name,
        feature_id="id_" + name,
        is_primary_feature=primary,
        sequence_name="chr1",
        parent_or_seq_chunk_parent=parent,
    )


def make_gene(names, parent, **kw):
    return GeneInterval(
        [make_transcript(n, parent) for n in names],
        gene_id="gene_" + "_".join(names),
        gene_symbol="SYM",
        locus_tag="LT1",
        qualifiers={"gq": ["x"], "note": ["genenote"]},
        sequence_name="chr1",
        parent_or_seq_chunk_parent=parent,
        **kw,
    )


def make_fc(names, parent):
    return FeatureIntervalCollection(
        [make_feature(n, parent) for n in names],
        feature_collection_name="fc_" + "_".join(names),
        feature_collection_id="fcid",
        locus_tag="LT2",
        qualifiers={"fq": ["y"]},
        sequence_name="chr1",
        parent_or_seq_chunk_parent=parent,
    )


def accessors(obj):
    acc = [
        ("chromosome_location", lambda: obj.chromosome_location),
        ("chunk_relative_location", lambda: obj.chunk_relative_location),
        ("bounded", lambda: obj._chunk_relative_bounded_chromosome_location),
        ("has_sequence", lambda: obj.has_sequence),
        ("is_chunk_relative", lambda: obj.is_chunk_relative),
        ("strand", lambda: obj.strand),
        ("blocks", lambda: list(obj.blocks)),
        ("num_blocks", lambda: obj.num_blocks),
        ("start_end", lambda: (obj.start, obj.end, obj.chunk_relative_start, obj.chunk_relative_end)),
        ("reference_sequence", lambda: obj.get_reference_sequence()),
        ("lift_chrom", lambda: obj.lift_over_to_first_ancestor_of_type(SequenceType.CHROMOSOME)),
        ("to_dict", lambda: obj.to_dict()),
        ("to_dict_chunk", lambda: obj.to_dict(chromosome_relative_coordinates=False)),
        ("guid", lambda: obj.guid),
        ("gff", lambda: [str(r) for r in obj.to_gff()]),
        ("gff_chunk", lambda: [str(r) for r in obj.to_gff(chromosome_relative_coordinates=False)]),
    ]
    if hasattr(obj, "get_spliced_sequence"):
        acc += [
            ("len", lambda: len(obj)),
            ("spliced_sequence", lambda: obj.get_spliced_sequence()),
            ("genomic_sequence", lambda: obj.get_genomic_sequence()),
            ("chromosome_span", lambda: obj.chromosome_span),
            ("chromosome_gaps", lambda: obj.chromosome_gaps_location),
            ("chunk_span", lambda: obj.chunk_relative_span),
            ("chunk_gaps", lambda: obj.chunk_relative_gaps_location),
            ("export_qualifiers", lambda: sorted_quals(obj.export_qualifiers())),
            ("export_qualifiers_parent", lambda: sorted_quals(obj.export_qualifiers(copy.deepcopy(PARENT_QUALS)))),
            ("merge_none", lambda: sorted_quals(obj._merge_qualifiers())),
            ("merge_empty", lambda: sorted_quals(obj._merge_qualifiers({}))),
            ("merge_parent", lambda: sorted_quals(obj._merge_qualifiers(copy.deepcopy(PARENT_QUALS)))),
            ("merge_key_order", lambda: [repr(k) for k in obj._merge_qualifiers(copy.deepcopy(PARENT_QUALS))]),
            ("qualifiers_after", lambda: sorted_quals(obj.qualifiers)),
            ("seq_identity", lambda: same_object_twice(obj)),
            ("bed12", lambda: str(obj.to_bed12())),
            ("pos", lambda: [attempt(lambda: obj.sequence_pos_to_feature(p)) for p in (12, 30, 59)]),
            ("chunk_pos", lambda: [attempt(lambda: obj.chunk_relative_pos_to_feature(p)) for p in (0, 10, 30)]),
        ]
    else:
        acc += [
            ("export_qualifiers", lambda: sorted_quals(obj.export_qualifiers())),
            ("children", lambda: [repr(c) for c in obj.iter_children()]),
            ("children_locs", lambda: [repr(c.chunk_relative_location) for c in obj.iter_children()]),
        ]
    if hasattr(obj, "primary_transcript"):
        acc.append(("primary", lambda: obj.primary_transcript.transcript_id))
    if hasattr(obj, "primary_feature"):
        acc.append(("primary", lambda: obj.primary_feature.feature_name))
    return acc


def sorted_quals(q):
    return [[repr(k), sorted(map(repr, v))] for k, v in q.items()]


def same_object_twice(obj):
    out = []
    for fn in (obj.get_spliced_sequence, obj.get_reference_sequence, obj.get_genomic_sequence):
        try:
            out.append(fn() is fn())
        except Exception as e:  # noqa
            out.append(type(e).__name__)
    return out


def observe(make, reverse=False):
    try:
        obj = make()
    except Exception as e:  # noqa
        return {"ctor": {"exc": type(e).__name__, "msg": str(e)}}
    acc = accessors(obj)
    if reverse:
        acc = acc[::-1]
    rec = {}
    for name, fn in acc:
        rec[name] = attempt(fn)
    # ask everything a second time: answers must not depend on what was asked before
    for name, fn in acc:
        rec[name + "#2"] = attempt(fn)
    return rec


def main_dump(path):
    results = {}
    n_obj = 0
    for pname, pfac in PARENTS.items():
        for tname in TRANSCRIPTS:
            for rev in (False, True):
                results[f"tx/{tname}/{pname}/{rev}"] = observe(lambda: make_transcript(tname, pfac()), rev)
                n_obj += 1
        for fname in FEATURES:
            for rev in (False, True):
                results[f"feat/{fname}/{pname}/{rev}"] = observe(lambda: make_feature(fname, pfac()), rev)
                n_obj += 1
        gene_specs = {
            "g_infer": ["t_plus3", "t_single", "t_noncoding"],
            "g_infer_tie": ["t_noncoding", "t_noncoding_minus"],
            "g_infer_cds_tie": ["t_minus3", "t_plus3"],
            "g_one_primary": ["t_minus3", "t_single_minus", "t_full_cds"],
            "g_two_primary": ["t_single_minus", "t_adjacent"],
            "g_single": ["t_full_cds"],
        }
        for gname, names in gene_specs.items():
            for rev in (False, True):
                results[f"gene/{gname}/{pname}/{rev}"] = observe(lambda: make_gene(names, pfac()), rev)
                n_obj += 1
        fc_specs = {
            "fc_infer": ["f_plus", "f_minus2", "f_unstranded"],
            "fc_primary": ["f_plus", "f_minus"],
            "fc_dup": ["f_minus2", "f_minus2"],
            "fc_tie": ["f_minus2", "f_plus_same_len"],
            "fc_tie_rev": ["f_plus_same_len", "f_minus2"],
        }
        for fcname, names in fc_specs.items():
            for rev in (False, True):
                results[f"fc/{fcname}/{pname}/{rev}"] = observe(lambda: make_fc(names, pfac()), rev)
                n_obj += 1

        def make_ac():
            p = pfac()
            return AnnotationCollection(
                feature_collections=[make_fc(fc_specs["fc_infer"], p), make_fc(fc_specs["fc_primary"], p)],
                genes=[make_gene(gene_specs["g_infer"], p), make_gene(gene_specs["g_one_primary"], p)],
                name="ac",
                sequence_name="chr1",
                qualifiers={"acq": ["q"]},
                parent_or_seq_chunk_parent=p,
            )

        for rev in (False, True):
            results[f"ac/{pname}/{rev}"] = observe(make_ac, rev)
            n_obj += 1

        # queries build new collections: exercises _initialize_location / liftover of children
        for start, end, within in ((None, None, True), (10, 60, False), (10, 60, True), (28, 45, False), (95, 110, False)):
            def query():
                sub = make_ac().query_by_position(start, end, completely_within=within)
                return {
                    "dict": sub.to_dict(),
                    "loc": repr(sub.chunk_relative_location),
                    "children": [
                        [repr(c.chunk_relative_location), [repr(g.chunk_relative_location) for g in c.iter_children()]]
                        for c in sub.iter_children()
                    ],
                    "gff": [str(r) for r in sub.to_gff()],
                }

            results[f"query/{pname}/{start}-{end}-{within}"] = attempt(query)

        # lifting existing intervals to every other parent
        for tname in ("t_plus3", "t_minus3", "t_single"):
            for other_name, other_fac in PARENTS.items():
                if other_name == "none":
                    continue

                def lift():
                    tx = make_transcript(tname, pfac())
                    before = json.dumps(tx.to_dict(), default=repr, sort_keys=True)
                    lifted = tx.liftover_to_parent_or_seq_chunk_parent(other_fac())
                    after = json.dumps(tx.to_dict(), default=repr, sort_keys=True)
                    return [
                        repr(lifted.chunk_relative_location),
                        repr(lifted.chromosome_location),
                        attempt(lambda: lifted.get_spliced_sequence()),
                        before == after,
                    ]

                results[f"lift/{tname}/{pname}->{other_name}"] = attempt(lift)

    # _find_primary_feature directly, including the degenerate inputs
    prim = {}
    txs = {n: make_transcript(n, None) for n in TRANSCRIPTS}
    feats = {n: make_feature(n, None) for n in FEATURES}
    combos = [
        [],
        ["t_plus3"],
        ["t_noncoding", "t_noncoding_minus"],
        ["t_noncoding_minus", "t_noncoding"],
        ["t_plus3", "t_minus3", "t_single"],
        ["t_single", "t_plus3", "t_minus3"],
        ["t_single_minus", "t_plus3"],
        ["t_plus3", "t_single_minus", "t_adjacent"],
        ["t_full_cds", "t_adjacent", "t_noncoding"],
    ]
    for combo in combos:
        prim["tx:" + ",".join(combo)] = attempt(
            lambda: AbstractFeatureIntervalCollection._find_primary_feature([txs[n] for n in combo]).transcript_id
        )
    for combo in ([], ["f_plus", "f_minus2"], ["f_minus2", "f_plus"], ["f_plus", "f_minus"], ["f_minus", "f_minus"]):
        prim["feat:" + ",".join(combo)] = attempt(
            lambda: AbstractFeatureIntervalCollection._find_primary_feature([feats[n] for n in combo]).feature_name
        )
    results["find_primary"] = prim

    with open(path, "w") as fh:
        json.dump({"results": results, "n_obj": n_obj}, fh, indent=1, sort_keys=True, default=repr)
    print(f"dumped {len(results)} records ({n_obj} interval objects observed in two accessor orders)")


def main_compare(a, b):
    with open(a) as fh:
        ja = json.load(fh)
    with open(b) as fh:
        jb = json.load(fh)
    if ja == jb:
        print(f"IDENTICAL ({len(ja['results'])} records)")
        return 0
    for key in ja["results"]:
        x, y = ja["results"][key], jb["results"].get(key)
        if x != y:
            print("DIFFERENCE in", key)
            if isinstance(x, dict) and isinstance(y, dict):
                for k in x:
                    if x[k] != y.get(k):
                        print("  ", k, json.dumps(x[k])[:1500])
                        print("  ", k, json.dumps(y.get(k))[:1500])
                        break
            break
    return 1


if __name__ == "__main__":
    if sys.argv[1] == "dump":
        main_dump(sys.argv[2])
    else:
        sys.exit(main_compare(sys.argv[2], sys.argv[3]))
