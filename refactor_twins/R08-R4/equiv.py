"""
Equivalence harness for property C08 refactoring R4 (serialised forms round trip, deterministic identifiers).

R4 touches gene/cds.py (CDSInterval.to_dict/from_dict + new _to_dict_with_coordinates) and gene/variants.py
(VariantInterval.to_dict/from_dict, VariantIntervalCollection.to_dict/from_dict).
All sections are run anyway (the touched functions are reached from every interval and collection class).

Usage (from the worktree root):
    /venv/bin/python _refactor/R4/equiv.py dump _refactor/tmp/pristine.json      # on the pristine checkout
    git apply _refactor/R4/patch.diff
    /venv/bin/python _refactor/R4/equiv.py dump _refactor/tmp/patched.json
    /venv/bin/python _refactor/R4/equiv.py compare _refactor/tmp/pristine.json _refactor/tmp/patched.json

Set EQUIV_HASHSEED=<n> to repeat the dump/compare under another string hash seed (default 0).

Every record is a plain string (repr of to_dict output, guids, reprs, exception type + message), so that the
comparison is a byte-for-byte comparison of what the library lets a caller observe.
"""
import itertools
import json
import os
import pickle
import sys
import types

# set reprs (qualifier sets, identifier sets inside the library's own __repr__) depend on the string hash seed, so
# the interpreter is re-executed under a fixed seed; EQUIV_HASHSEED selects another one (dump both sides with the same).
_SEED = os.environ.get("EQUIV_HASHSEED", "0")
if os.environ.get("PYTHONHASHSEED") != _SEED:
    os.environ["PYTHONHASHSEED"] = _SEED
    os.execv(sys.executable, [sys.executable] + sys.argv)

sys.path.insert(0, ".")

import inscripta.biocantor.location  # noqa: F401,E402  (must come first: circular import otherwise)
from inscripta.biocantor.location.location_impl import SingleInterval  # noqa: E402
from inscripta.biocantor.location.strand import Strand  # noqa: E402
from inscripta.biocantor.parent import Parent, SequenceType  # noqa: E402
from inscripta.biocantor.sequence.alphabet import Alphabet  # noqa: E402
from inscripta.biocantor.sequence.sequence import Sequence  # noqa: E402


# --- inscripta.biocantor.io.parser cannot be imported in this environment (io/models.py fails). The two helper
# --- functions AnnotationCollection.from_dict imports lazily are copied verbatim and published as a stub module.
def seq_to_parent(seq, alphabet=Alphabet.NT_EXTENDED_GAPPED, seq_id=None, seq_type=SequenceType.CHROMOSOME):
    return Parent(
        sequence=Sequence(seq, alphabet, type=seq_type, id=seq_id), location=SingleInterval(0, len(seq), Strand.PLUS)
    )


def seq_chunk_to_parent(seq, sequence_name, start, end, strand=Strand.PLUS, alphabet=Alphabet.NT_EXTENDED_GAPPED):
    chunk_id = f"{sequence_name}:{start}-{end}"
    return Parent(
        id=chunk_id,
        sequence=Sequence(
            seq,
            alphabet,
            id=chunk_id,
            type=SequenceType.SEQUENCE_CHUNK,
            parent=Parent(
                location=SingleInterval(
                    start,
                    end,
                    strand,
                    parent=Parent(id=sequence_name, sequence_type=SequenceType.CHROMOSOME),
                )
            ),
        ),
    )


_stub = types.ModuleType("inscripta.biocantor.io.parser")
_stub.seq_to_parent = seq_to_parent
_stub.seq_chunk_to_parent = seq_chunk_to_parent
sys.modules["inscripta.biocantor.io.parser"] = _stub

from inscripta.biocantor.gene.biotype import Biotype  # noqa: E402
from inscripta.biocantor.gene.cds import CDSInterval  # noqa: E402
from inscripta.biocantor.gene.cds_frame import CDSFrame, CDSPhase  # noqa: E402
from inscripta.biocantor.gene.collections import AnnotationCollection  # noqa: E402
from inscripta.biocantor.gene.feature import FeatureInterval, FeatureIntervalCollection  # noqa: E402
from inscripta.biocantor.gene.gene import GeneInterval  # noqa: E402
from inscripta.biocantor.gene.transcript import TranscriptInterval  # noqa: E402
from inscripta.biocantor.gene.variants import VariantInterval, VariantIntervalCollection  # noqa: E402
from inscripta.biocantor.util.hashing import (  # noqa: E402
    digest_object,
    _encode_object_for_digest,
    _order_dict_of_possible_sets,
    _order_set,
)

GENOME = ("ACGTTGCAATGGCCTTAGGATCCGATTACAGGCTAAGTCCGATGCATTGACCGGTAAACTGGTCAATGC" * 3)[:200]

RESULTS = {}


def rec(key, fn):
    """Record the observable outcome of fn() (value or exception) under key."""
    assert key not in RESULTS, key
    try:
        val = fn()
        if isinstance(val, types.GeneratorType):
            val = list(val)
        RESULTS[key] = "OK " + repr(val)
    except Exception as e:  # noqa
        RESULTS[key] = "EXC " + type(e).__name__ + ": " + str(e)


# ---------------------------------------------------------------------------------------------------------------
# parents
# ---------------------------------------------------------------------------------------------------------------
def parents():
    """name -> factory for a fresh parent (fresh so that no state is shared between cases)."""
    return {
        "none": lambda: None,
        "chrom_seq": lambda: seq_to_parent(GENOME, seq_id="chr1"),
        "chrom_noseq": lambda: Parent(id="chr1", sequence_type=SequenceType.CHROMOSOME),
        "plain_noseq": lambda: Parent(id="scaffold7"),
        "chunk_10_150": lambda: seq_chunk_to_parent(GENOME[10:150], "chr1", 10, 150),
        "chunk_30_90": lambda: seq_chunk_to_parent(GENOME[30:90], "chr1", 30, 90),
        "chunk_0_200": lambda: seq_chunk_to_parent(GENOME, "chr1", 0, 200),
    }


QUALS = [
    None,
    {},
    {"note": ["b", "a", "c"], "db_xref": ["X:1"]},
    {"z": ["2", "10", "1"], "a": [], "m": ["same", "same"]},
    {"num": [3, 1, 2], "mixed": ["x", 1, 2.5, None, True]},
]

BAD_QUALS = [["a", "b"], {"k": "notalist"}, {"k": ("t",)}, "str", {"ok": ["v"], "bad": {"s"}}]

# (exon_starts, exon_ends, cds_starts, cds_ends, cds_frames)
TX_SHAPES = [
    ([12], [40], None, None, None),
    ([12, 50, 80], [28, 60, 110], None, None, None),
    ([12], [42], [12], [42], [CDSFrame.ZERO]),
    ([12, 50, 80], [28, 60, 110], [15, 50, 80], [28, 60, 95], [CDSFrame.ZERO, CDSFrame.ONE, CDSFrame.TWO]),
    ([12, 50, 80], [28, 60, 110], [52, 80], [60, 100], [CDSFrame.ZERO, CDSFrame.TWO]),
    ([35, 70], [60, 85], [40, 70], [60, 82], [CDSFrame.ONE, CDSFrame.ZERO]),
    ([2, 100, 160], [20, 140, 190], [5, 100, 160], [20, 140, 170], [CDSFrame.ZERO, CDSFrame.ZERO, CDSFrame.ONE]),
]

FEAT_SHAPES = [
    ([12], [40]),
    ([12, 50, 80], [28, 60, 110]),
    ([35, 70], [60, 85]),
    ([2, 100, 160], [20, 140, 190]),
]


def make_tx(shape, strand, parent, qual, full=True, primary=True):
    es, ee, cs, ce, cf = shape
    kw = dict(exon_starts=es, exon_ends=ee, strand=strand, cds_starts=cs, cds_ends=ce, cds_frames=cf)
    kw["qualifiers"] = qual
    kw["parent_or_seq_chunk_parent"] = parent
    if full:
        kw.update(
            is_primary_tx=primary,
            transcript_id="tx-%d" % es[0],
            transcript_symbol="sym%d" % es[0],
            transcript_type=Biotype.protein_coding if cs else Biotype.lncRNA,
            sequence_name="chr1",
            protein_id="prot1" if cs else None,
            product="a product" if cs else None,
        )
    return TranscriptInterval(**kw)


def make_feat(shape, strand, parent, qual, full=True):
    s, e = shape
    kw = dict(interval_starts=s, interval_ends=e, strand=strand, qualifiers=qual, parent_or_seq_chunk_parent=parent)
    if full:
        kw.update(
            feature_types=["promoter", "enhancer", "a"],
            feature_name="feat%d" % s[0],
            feature_id="fid%d" % s[0],
            sequence_name="chr1",
            is_primary_feature=False,
        )
    return FeatureInterval(**kw)


def make_variants(parent, qual):
    return [
        VariantInterval(14, 15, "G", "SNV", parent_or_seq_chunk_parent=parent, qualifiers=qual),
        VariantInterval(
            55,
            58,
            "A",
            "deletion",
            phase_block=1,
            variant_name="del1",
            variant_id="v2",
            parent_or_seq_chunk_parent=parent,
            qualifiers=qual,
        ),
        VariantInterval(
            84, 85, "TGGC", "insertion", phase_block=1, variant_name="ins1", parent_or_seq_chunk_parent=parent
        ),
    ]


def observe(key, obj_factory, cls, allow_chunk_relative=True, extra=()):
    """Record to_dict / from_dict / guid / pickle observations for one object."""
    try:
        obj = obj_factory()
    except Exception as e:  # noqa
        RESULTS[key + "|construct"] = "EXC " + type(e).__name__ + ": " + str(e)
        return None
    RESULTS[key + "|construct"] = "OK " + repr(obj)
    rec(key + "|guid", lambda: getattr(obj, "guid", None))
    rec(key + "|quals", lambda: obj.qualifiers)
    rec(key + "|export_quals", lambda: obj._export_qualifiers_to_list())
    flags = (True, False) if allow_chunk_relative else (True,)
    for flag in flags:
        rec(key + "|to_dict(%s)" % flag, lambda: obj.to_dict(flag))
        rec(key + "|to_dict(kw=%s)" % flag, lambda: obj.to_dict(chromosome_relative_coordinates=flag))
        rec(
            key + "|types(%s)" % flag,
            lambda: sorted((k, type(v).__name__) for k, v in obj.to_dict(flag).items()),
        )
        rec(key + "|keys(%s)" % flag, lambda: list(obj.to_dict(flag)))
    rec(key + "|to_dict()", lambda: obj.to_dict())

    def rt(parent_factory):
        d = obj.to_dict()
        before = repr(d)
        new = cls.from_dict(d, parent_factory()) if parent_factory else cls.from_dict(d)
        assert repr(d) == before, "from_dict mutated its input"
        return (repr(new), getattr(new, "guid", None), new.to_dict(), new == obj)

    rec(key + "|roundtrip(noparent)", lambda: rt(None))
    rec(key + "|roundtrip(sameparent)", lambda: rt(lambda: obj._parent_or_seq_chunk_parent))
    rec(key + "|roundtrip(chrom_seq)", lambda: rt(parents()["chrom_seq"]))
    rec(key + "|roundtrip(chunk)", lambda: rt(parents()["chunk_10_150"]))
    for name, fn in extra:
        rec(key + "|" + name, lambda: fn(obj))
    return obj


# ---------------------------------------------------------------------------------------------------------------
# sections
# ---------------------------------------------------------------------------------------------------------------
def section_hashing():
    class Weird:
        def __str__(self):
            return "weird!"

    args_cases = [
        (),
        (1,),
        ("a", "b"),
        ("ab",),
        (None, True, 1.5),
        ({"b", "a", "c"},),
        ({3, 1, 2, 10},),
        (set(),),
        (frozenset({"b", "a"}),),
        ([3, 1, 2],),
        ({"k": {"b", "a"}, "a": 1},),
        ({"k": {"n": {"z", "y"}, "m": {"deep": {"q": {2, 1}}}}, "j": [1, 2]},),
        ({},),
        ({2: "two", 1: "one"},),
        ({"a": 1, 2: "x"},),
        (Weird(), {"w": Weird()}),
        (SingleInterval(1, 5, Strand.PLUS), "name", None, {"q": {"v2", "v1"}}, None, {"g2", "g1"}),
        ("é中", {"ü": {"ß", "a"}}),
        ("\ud800",),
        ({"a": {"x": {1, 2}}}, {"a": {"x": {2, 1}}}),
        ((1, 2), [{"a"}, {"b"}]),
        ({"k": frozenset({"b", "a"})},),
    ]
    kwargs_cases = [
        {},
        {"b": 1, "a": 2},
        {"q": {"y", "x"}},
        {"q": {"k2": {"v"}, "k1": {"w", "v"}}, "z": None},
        {"nested": {"n2": {"n3": {"s", "r"}}}, "lst": [1, {2, 3}]},
        {"uni": "é"},
    ]
    for i, a in enumerate(args_cases):
        for j, k in enumerate(kwargs_cases):
            key = "hash|args%02d|kw%d" % (i, j)
            rec(key + "|digest", lambda: digest_object(*a, **k))
            rec(key + "|encode", lambda: list(_encode_object_for_digest(*a, **k)))
    for i, a in enumerate(args_cases):
        for j, m in enumerate(a):
            if isinstance(m, dict):
                rec("hash|order_dict|%02d_%d" % (i, j), lambda: list(_order_dict_of_possible_sets(m)))
            if isinstance(m, (set, frozenset)):
                rec("hash|order_set|%02d_%d" % (i, j), lambda: _order_set(m))
    # laziness / type of the helpers is observable to callers that debug with them
    rec("hash|encode_type", lambda: type(_encode_object_for_digest(1, a=2)).__name__)
    rec("hash|order_dict_type", lambda: type(_order_dict_of_possible_sets({"a": 1})).__name__)
    rec("hash|order_set_type", lambda: type(_order_set({"a"})).__name__)
    # insertion order independence
    for perm_i, perm in enumerate(itertools.permutations(["a", "b", "c"])):
        d = {k: {str(ord(k)), "v"} for k in perm}
        rec("hash|perm%d" % perm_i, lambda: (digest_object(d), digest_object(**d), digest_object(q=d)))


def section_hashing_fuzz():
    """Seeded random nested structures through digest_object and the encoder."""
    import random

    rng = random.Random(20260802)
    atoms = ["a", "b", "zz", "10", "9", "", "é", 0, 1, 10, 9, -1, 2.5, None, True, False, (1, 2), "A", "a b"]

    def rand_set():
        return set(rng.sample(atoms, rng.randint(0, 6)))

    def rand_dict(depth):
        d = {}
        for _ in range(rng.randint(0, 4)):
            k = rng.choice(["k1", "k2", "alpha", "beta", "z", "K", "10", "9"])
            r = rng.random()
            if r < 0.3 and depth < 3:
                d[k] = rand_dict(depth + 1)
            elif r < 0.6:
                d[k] = rand_set()
            elif r < 0.75:
                d[k] = [rand_set(), rng.choice(atoms)]
            else:
                d[k] = rng.choice(atoms)
        return d

    def rand_member():
        r = rng.random()
        if r < 0.35:
            return rand_dict(0)
        if r < 0.6:
            return rand_set()
        if r < 0.7:
            return frozenset(rand_set())
        return rng.choice(atoms)

    for i in range(300):
        a = tuple(rand_member() for _ in range(rng.randint(0, 4)))
        k = rand_dict(0)
        rec("hashfuzz|%03d" % i, lambda: (digest_object(*a, **k), list(_encode_object_for_digest(*a, **k))))
        # the same content inserted in reverse order must give the same digest
        k_rev = dict(reversed(list(k.items())))
        rec("hashfuzz|%03d|rev" % i, lambda: digest_object(*a, **k_rev) == digest_object(*a, **k))


def section_qualifiers():
    for i, q in enumerate(QUALS + BAD_QUALS):
        for cls_name, mk in (
            ("tx", lambda q=q: TranscriptInterval([1], [10], Strand.PLUS, qualifiers=q)),
            ("feat", lambda q=q: FeatureInterval([1], [10], Strand.MINUS, qualifiers=q)),
            ("var", lambda q=q: VariantInterval(1, 2, "A", "SNV", qualifiers=q)),
            ("coll", lambda q=q: AnnotationCollection(qualifiers=q)),
        ):
            key = "quals|%s|%d" % (cls_name, i)

            def run():
                o = mk()
                return (o.qualifiers, o._export_qualifiers_to_list(), getattr(o, "guid", None))

            rec(key, run)

    # direct calls, including the state left behind after a failed import
    for i, q in enumerate(QUALS + BAD_QUALS):

        def run2():
            o = FeatureInterval([1], [10], Strand.PLUS, qualifiers={"old": ["1"]})
            try:
                ret = o._import_qualifiers_from_list(q)
                return ("ok", ret, o.qualifiers, o._export_qualifiers_to_list())
            except Exception as e:  # noqa
                return ("exc", type(e).__name__, str(e), o.qualifiers)

        rec("quals|direct|%d" % i, run2)
        rec(
            "quals|direct_noarg|%d" % i,
            lambda: (lambda o: (o._import_qualifiers_from_list(), o.qualifiers, o._export_qualifiers_to_list()))(
                FeatureInterval([1], [10], Strand.PLUS, qualifiers=q if i < len(QUALS) else None)
            ),
        )
    # insertion order permutations give identical exports and identifiers
    base = {"note": ["b", "a", "c"], "db_xref": ["X:1", "A:2"], "z": ["1"]}
    for pi, perm in enumerate(itertools.permutations(base)):
        q = {k: list(reversed(base[k])) if pi % 2 else list(base[k]) for k in perm}
        rec(
            "quals|perm|%d" % pi,
            lambda: (
                lambda o: (o._export_qualifiers_to_list(), list(o._export_qualifiers_to_list()), o.guid)
            )(FeatureInterval([1], [10], Strand.PLUS, qualifiers=q)),
        )


def section_transcripts():
    for (pname, pf), strand, (si, shape), (qi, q) in itertools.product(
        parents().items(), (Strand.PLUS, Strand.MINUS), enumerate(TX_SHAPES), enumerate(QUALS[:3])
    ):
        if qi and si not in (1, 3):
            continue
        key = "tx|%s|%s|s%d|q%d" % (pname, strand.name, si, qi)
        observe(
            key,
            lambda: make_tx(shape, strand, pf(), q, full=bool((si + qi) % 2 == 0) or qi > 0),
            TranscriptInterval,
        )
    # from_dict on hand written dictionaries (empty lists, missing keys, bad enum names)
    base = make_tx(TX_SHAPES[3], Strand.PLUS, None, QUALS[2]).to_dict()
    variants = {
        "empty_cds_lists": dict(base, cds_starts=[], cds_ends=[], cds_frames=[]),
        "none_type": dict(base, transcript_type=None),
        "empty_type": dict(base, transcript_type=""),
        "bad_type": dict(base, transcript_type="nope"),
        "bad_strand": dict(base, strand="SIDEWAYS"),
        "bad_frame": dict(base, cds_frames=["ZERO", "FOUR", "ONE"]),
        "frames_none_only": dict(base, cds_frames=None),
        "tuples": dict(base, exon_starts=tuple(base["exon_starts"]), exon_ends=tuple(base["exon_ends"])),
        "extra_key": dict(base, unknown=1),
    }
    for k in list(base):
        d = dict(base)
        del d[k]
        variants["missing_" + k] = d
    for name, d in variants.items():
        rec(
            "tx|from_dict|" + name,
            lambda: (lambda t: (repr(t), t.guid, t.to_dict()))(TranscriptInterval.from_dict(d)),
        )


def section_features():
    for (pname, pf), strand, (si, shape), (qi, q) in itertools.product(
        parents().items(), (Strand.PLUS, Strand.MINUS, Strand.UNSTRANDED), enumerate(FEAT_SHAPES), enumerate(QUALS[:3])
    ):
        if qi and si != 1:
            continue
        if strand == Strand.UNSTRANDED and si > 1:
            continue
        key = "feat|%s|%s|s%d|q%d" % (pname, strand.name, si, qi)
        observe(key, lambda: make_feat(shape, strand, pf(), q, full=(si % 2 == 1)), FeatureInterval)
    base = make_feat(FEAT_SHAPES[1], Strand.MINUS, None, QUALS[2]).to_dict()
    variants = {"bad_strand": dict(base, strand="X"), "types_none": dict(base, feature_types=None)}
    variants["types_empty"] = dict(base, feature_types=[])
    for k in list(base):
        d = dict(base)
        del d[k]
        variants["missing_" + k] = d
    for name, d in variants.items():
        rec(
            "feat|from_dict|" + name,
            lambda: (lambda t: (repr(t), t.guid, t.to_dict()))(FeatureInterval.from_dict(d)),
        )

    # collections of features
    for (pname, pf), strand, (qi, q) in itertools.product(
        parents().items(), (Strand.PLUS, Strand.MINUS), enumerate(QUALS[:4])
    ):
        key = "featcoll|%s|%s|q%d" % (pname, strand.name, qi)

        def mk():
            p = pf()
            feats = [make_feat(s, strand, p, QUALS[(i + qi) % 3], full=True) for i, s in enumerate(FEAT_SHAPES[:3])]
            return FeatureIntervalCollection(
                feats,
                feature_collection_name="fc%d" % qi,
                feature_collection_id="fcid" if qi % 2 else None,
                feature_collection_type="regulatory" if qi > 1 else None,
                locus_tag="LT_%d" % qi,
                sequence_name="chr1",
                qualifiers=q,
                parent_or_seq_chunk_parent=p,
            )

        observe(key, mk, FeatureIntervalCollection)
    basec = FeatureIntervalCollection(
        [make_feat(FEAT_SHAPES[0], Strand.PLUS, None, None)], feature_collection_name="n"
    ).to_dict()
    for k in list(basec):
        d = dict(basec)
        del d[k]
        rec("featcoll|from_dict|missing_" + k, lambda: repr(FeatureIntervalCollection.from_dict(d)))
    rec("featcoll|from_dict|empty", lambda: repr(FeatureIntervalCollection.from_dict(dict(basec, feature_intervals=[]))))


def section_cds():
    for (pname, pf), strand, (si, shape), (qi, q) in itertools.product(
        parents().items(), (Strand.PLUS, Strand.MINUS), enumerate(TX_SHAPES), enumerate(QUALS[:3])
    ):
        if shape[2] is None or (qi and si != 3):
            continue
        key = "cds|%s|%s|s%d|q%d" % (pname, strand.name, si, qi)
        observe(
            key,
            lambda: CDSInterval(
                shape[2],
                shape[3],
                strand,
                shape[4],
                sequence_name="chr1" if si % 2 else None,
                protein_id="p%d" % si,
                product="prod" if qi else None,
                qualifiers=q,
                parent_or_seq_chunk_parent=pf(),
            ),
            CDSInterval,
        )
    # phases accepted by the constructor, exported as frames
    rec(
        "cds|phases",
        lambda: CDSInterval([15, 50], [28, 60], Strand.PLUS, [CDSPhase.ZERO, CDSPhase.TWO]).to_dict(),
    )
    base = CDSInterval([15, 50], [28, 60], Strand.MINUS, [CDSFrame.ZERO, CDSFrame.ONE], qualifiers=QUALS[2]).to_dict()
    variants = {
        "bad_strand": dict(base, strand="X"),
        "bad_frame": dict(base, cds_frames=["ZERO", "NOPE"]),
        "frames_none": dict(base, cds_frames=None),
        "frames_empty": dict(base, cds_frames=[]),
        "frames_short": dict(base, cds_frames=["ZERO"]),
    }
    for k in list(base):
        d = dict(base)
        del d[k]
        variants["missing_" + k] = d
    for name, d in variants.items():
        rec("cds|from_dict|" + name, lambda: (lambda t: (repr(t), t.guid, t.to_dict()))(CDSInterval.from_dict(d)))


def section_variants():
    for (pname, pf), (qi, q) in itertools.product(parents().items(), enumerate(QUALS[:4])):
        for vi in range(3):
            key = "var|%s|q%d|v%d" % (pname, qi, vi)
            observe(
                key,
                lambda: make_variants(pf(), q)[vi],
                VariantInterval,
                extra=[("seq", lambda o: str(o.sequence)), ("vguid", lambda o: o.variant_guid)],
            )
        key = "varcoll|%s|q%d" % (pname, qi)

        def mk():
            p = pf()
            return VariantIntervalCollection(
                make_variants(p, QUALS[(qi + 1) % 3])[: 3 if qi % 2 == 0 else 2],
                variant_collection_name="vc%d" % qi,
                variant_collection_id="vcid" if qi % 2 else None,
                sequence_name="chr1",
                qualifiers=q,
                parent_or_seq_chunk_parent=p,
            )

        observe(key, mk, VariantIntervalCollection)
    base = make_variants(None, QUALS[2])[1].to_dict()
    variants = {"extra": dict(base, extra=1), "start_eq_end": dict(base, end=base["start"])}
    for k in list(base):
        d = dict(base)
        del d[k]
        variants["missing_" + k] = d
    for name, d in variants.items():
        rec("var|from_dict|" + name, lambda: (lambda t: (repr(t), t.guid, t.to_dict()))(VariantInterval.from_dict(d)))
    basec = VariantIntervalCollection(make_variants(None, None), variant_collection_name="n").to_dict()
    for k in list(basec):
        d = dict(basec)
        del d[k]
        rec("varcoll|from_dict|missing_" + k, lambda: repr(VariantIntervalCollection.from_dict(d)))


def make_gene(parent, strand, qi, shapes=(1, 3, 4)):
    txs = [
        make_tx(TX_SHAPES[s], strand, parent, QUALS[(i + qi) % 3], full=True, primary=(i == 0))
        for i, s in enumerate(shapes)
    ]
    return GeneInterval(
        txs,
        gene_id="gid%d" % qi,
        gene_symbol="gsym" if qi % 2 == 0 else None,
        gene_type=Biotype.protein_coding if qi < 2 else None,
        locus_tag="LT%d" % qi,
        qualifiers=QUALS[qi],
        sequence_name="chr1",
        parent_or_seq_chunk_parent=parent,
    )


def section_genes():
    for (pname, pf), strand, qi in itertools.product(parents().items(), (Strand.PLUS, Strand.MINUS), range(4)):
        key = "gene|%s|%s|q%d" % (pname, strand.name, qi)
        observe(key, lambda: make_gene(pf(), strand, qi), GeneInterval)
    base = make_gene(None, Strand.PLUS, 2).to_dict()
    variants = {
        "bad_type": dict(base, gene_type="nope"),
        "empty_type": dict(base, gene_type=""),
        "no_tx": dict(base, transcripts=[]),
    }
    for k in list(base):
        d = dict(base)
        del d[k]
        variants["missing_" + k] = d
    for name, d in variants.items():
        rec("gene|from_dict|" + name, lambda: (lambda t: (repr(t), t.guid, t.to_dict()))(GeneInterval.from_dict(d)))


def make_collection(parent, strand, variant, with_variants=True, bounds=None, empty=False):
    genes = None
    fcs = None
    vcs = None
    if not empty:
        genes = [make_gene(parent, strand, variant % 4)]
        if variant % 2 == 0:
            genes.append(make_gene(parent, strand.reverse() if strand != Strand.UNSTRANDED else strand, 1, (5,)))
        fcs = [
            FeatureIntervalCollection(
                [make_feat(s, strand, parent, QUALS[i % 3]) for i, s in enumerate(FEAT_SHAPES[: 1 + variant % 3])],
                feature_collection_name="fc",
                locus_tag="L",
                sequence_name="chr1",
                qualifiers=QUALS[variant % 4],
                parent_or_seq_chunk_parent=parent,
            )
        ]
        if variant % 3 == 1:
            fcs = None
        if with_variants:
            vcs = [
                VariantIntervalCollection(
                    make_variants(parent, QUALS[variant % 3]),
                    variant_collection_name="vc",
                    sequence_name="chr1",
                    parent_or_seq_chunk_parent=parent,
                )
            ]
    kw = {}
    if bounds:
        kw["start"], kw["end"] = bounds
    return AnnotationCollection(
        feature_collections=fcs,
        genes=genes,
        variant_collections=vcs,
        name="coll%d" % variant,
        id="id%d" % variant if variant % 2 else None,
        sequence_name="chr1",
        sequence_path="/some/path.fa" if variant % 3 == 0 else None,
        qualifiers=QUALS[variant % 4],
        completely_within=[None, True, False][variant % 3],
        parent_or_seq_chunk_parent=parent,
        **kw,
    )


def section_collections():
    def pickle_rt(o):
        blob = pickle.dumps(o)
        new = pickle.loads(blob)
        return (
            repr(new),
            new.guid,
            new.to_dict(),
            new.to_dict(export_parent=True),
            str(new.sequence) if new.sequence else None,
            new == o,
            repr(new._parent_or_seq_chunk_parent),
            sorted(str(g) for g in new.guid_map),
        )

    def state(o):
        return o.__getstate__()

    def setstate(o):
        blank = AnnotationCollection.__new__(AnnotationCollection)
        ret = blank.__setstate__(o.__getstate__())
        return (ret, repr(blank), blank.guid, blank.to_dict(export_parent=True), sorted(vars(blank)))

    def export_parent(o):
        return o.to_dict(export_parent=True)

    def export_parent_chunkrel(o):
        return o.to_dict(False, True)

    def rt_with_parent_dict(o):
        d = o.to_dict(export_parent=True)
        before = repr(d)
        new = AnnotationCollection.from_dict(d)
        assert repr(d) == before, "from_dict mutated its input"
        return (
            repr(new),
            new.guid,
            new.to_dict(export_parent=True),
            repr(new._parent_or_seq_chunk_parent),
            str(new.sequence) if new.sequence else None,
            new.start,
            new.end,
        )

    def rt_override_parent(o):
        d = o.to_dict(export_parent=True)
        new = AnnotationCollection.from_dict(d, parents()["chunk_0_200"]())
        return (repr(new), new.guid, new.to_dict(export_parent=True))

    extra = [
        ("getstate", state),
        ("setstate", setstate),
        ("pickle", pickle_rt),
        ("export_parent", export_parent),
        ("export_parent_chunkrel", export_parent_chunkrel),
        ("rt_parent_dict", rt_with_parent_dict),
        ("rt_override_parent", rt_override_parent),
        ("children_guids", lambda o: sorted(str(x) for x in o.children_guids)),
        ("json", lambda o: json.dumps(o.to_dict(export_parent=True), default=str, sort_keys=True)),
    ]
    for (pname, pf), strand, variant in itertools.product(parents().items(), (Strand.PLUS, Strand.MINUS), range(6)):
        with_variants = variant in (0, 4)
        key = "coll|%s|%s|v%d" % (pname, strand.name, variant)
        observe(key, lambda: make_collection(pf(), strand, variant, with_variants), AnnotationCollection, extra=extra)
    for pname, pf in parents().items():
        observe("coll|%s|empty" % pname, lambda: make_collection(pf(), Strand.PLUS, 1, empty=True), AnnotationCollection, extra=extra)
        observe(
            "coll|%s|bounds" % pname,
            lambda: make_collection(pf(), Strand.PLUS, 3, False, bounds=(35, 120)),
            AnnotationCollection,
            extra=extra,
        )
        observe(
            "coll|%s|emptybounds" % pname,
            lambda: make_collection(pf(), Strand.MINUS, 2, False, bounds=(40, 80), empty=True),
            AnnotationCollection,
            extra=extra,
        )

    # hand written dictionaries for from_dict
    base = make_collection(None, Strand.PLUS, 0, True).to_dict(export_parent=True)
    pd_chunk = make_collection(parents()["chunk_10_150"](), Strand.PLUS, 0, False).to_dict(export_parent=True)[
        "parent_or_seq_chunk_parent"
    ]
    pd_chrom = make_collection(parents()["chrom_seq"](), Strand.PLUS, 0, False).to_dict(export_parent=True)[
        "parent_or_seq_chunk_parent"
    ]
    parent_dicts = {
        "none": None,
        "empty": {},
        "chunk": pd_chunk,
        "chrom": pd_chrom,
        "chunk_noalpha": {k: v for k, v in pd_chunk.items() if k != "alphabet"},
        "chunk_nostrand": {k: v for k, v in pd_chunk.items() if k != "strand"},
        "chunk_minus": dict(pd_chunk, strand="MINUS"),
        "chrom_notype": {k: v for k, v in pd_chrom.items() if k != "type"},
        "chrom_nulls": dict(pd_chrom, seq=None, alphabet=None),
        "only_name": {"sequence_name": "chr9"},
        "only_type": {"type": "chromosome"},
        "only_type_chunk": {"type": "sequence_chunk"},
        "name_and_type": {"sequence_name": "chr9", "type": "chromosome"},
        "custom_type": {"sequence_name": "p1", "type": "plasmid"},
        "seq_custom_type": {"seq": GENOME, "sequence_name": "p1", "type": "plasmid", "alphabet": "NT_STRICT"},
        "bad_alphabet": dict(pd_chrom, alphabet="KLINGON"),
        "bad_strand": dict(pd_chunk, strand="UP"),
        "seq_only": {"seq": GENOME},
        "chunk_missing_start": {k: v for k, v in pd_chunk.items() if k != "start"},
        "unknown_key": dict(pd_chunk, bogus=1),
        "empty_seq": dict(pd_chrom, seq=""),
    }
    for name, pd in parent_dicts.items():
        d = dict(base, parent_or_seq_chunk_parent=pd)

        def run():
            before = repr(d)
            new = AnnotationCollection.from_dict(d)
            assert repr(d) == before, "from_dict mutated its input"
            return (
                repr(new),
                new.guid,
                repr(new._parent_or_seq_chunk_parent),
                str(new.sequence) if new.sequence else None,
                new.to_dict(),
            )

        rec("coll|from_dict|parent_" + name, run)
    variants = {
        "empty_lists": dict(base, genes=[], feature_collections=[], variant_collections=[]),
        "none_lists": dict(base, genes=None, feature_collections=None, variant_collections=None),
        "only_start": dict(base, end=None),
        "only_end": dict(base, start=None),
        "no_bounds": dict(base, start=None, end=None),
    }
    for k in list(base):
        d = dict(base)
        del d[k]
        variants["missing_" + k] = d
    for name, d in variants.items():
        rec(
            "coll|from_dict|" + name,
            lambda: (lambda t: (repr(t), t.guid, t.to_dict(export_parent=True)))(AnnotationCollection.from_dict(d)),
        )


SECTIONS = {
    "hashing": section_hashing,
    "hashing_fuzz": section_hashing_fuzz,
    "qualifiers": section_qualifiers,
    "transcripts": section_transcripts,
    "features": section_features,
    "cds": section_cds,
    "variants": section_variants,
    "genes": section_genes,
    "collections": section_collections,
}


def main(sections):
    mode = sys.argv[1]
    if mode == "dump":
        for s in sections:
            SECTIONS[s]()
        with open(sys.argv[2], "w") as fh:
            json.dump(RESULTS, fh, indent=0, sort_keys=True)
        n_exc = sum(1 for v in RESULTS.values() if v.startswith("EXC"))
        print("recorded %d observations (%d of them exceptions)" % (len(RESULTS), n_exc))
    elif mode == "compare":
        with open(sys.argv[2]) as fh:
            a = json.load(fh)
        with open(sys.argv[3]) as fh:
            b = json.load(fh)
        bad = [k for k in sorted(set(a) | set(b)) if a.get(k) != b.get(k)]
        for k in bad[:20]:
            print("DIFF", k)
            print("   pristine:", str(a.get(k))[:400])
            print("   patched :", str(b.get(k))[:400])
        print("compared %d observations: %s" % (len(a), "IDENTICAL" if not bad else "%d DIFFER" % len(bad)))
        sys.exit(1 if bad else 0)
    else:
        raise SystemExit("usage: equiv.py dump OUT.json | compare A.json B.json")


if __name__ == "__main__":
    main(list(SECTIONS))
