"""Equivalence script for R2 (location/location_impl.py constructors, shift/extend; location.py scan_windows).

Usage (from the worktree root):
    /venv/bin/python _refactor/R2/equiv.py save /tmp/r2_pristine.json     # on pristine code
    /venv/bin/python _refactor/R2/equiv.py check /tmp/r2_pristine.json    # with patch applied
"""
import itertools
import json
import os
import sys

if os.environ.get("PYTHONHASHSEED") != "0":
    os.environ["PYTHONHASHSEED"] = "0"
    os.execv(sys.executable, [sys.executable] + sys.argv)
sys.path.insert(0, os.getcwd())  # run from the worktree root

import inscripta.biocantor.location  # noqa: F401,E402  (must come first; circular import otherwise)
from inscripta.biocantor.location import SingleInterval, CompoundInterval, EmptyLocation, Strand  # noqa: E402
from inscripta.biocantor.parent import Parent  # noqa: E402
from inscripta.biocantor.sequence import Sequence, Alphabet  # noqa: E402
from inscripta.biocantor.sequence.sequence import SequenceType  # noqa: E402


def describe(loc):
    d = ["OK", type(loc).__name__, repr(loc), str(loc)]
    if loc is EmptyLocation():
        return d
    d += [loc.start, loc.end, loc.length, str(loc.strand), repr(loc.parent), loc.num_blocks]
    d.append([repr(b) for b in loc.blocks])
    if isinstance(loc, CompoundInterval):
        d += [list(loc._starts), list(loc._ends)]
    return d


def outcome(fn, *args, **kwargs):
    try:
        r = fn(*args, **kwargs)
        if hasattr(r, "__next__"):
            r = list(r)
        if isinstance(r, list):
            return ["OKLIST"] + [describe(x) for x in r]
        if isinstance(r, tuple):
            return ["OKTUPLE", repr(r)]
        return describe(r)
    except BaseException as e:  # noqa
        return ["EXC", type(e).__module__ + "." + type(e).__name__, str(e)]


def seq_chunk_parent(seq: str, start: int, end: int, name="chr1"):
    # copy of the few lines of inscripta.biocantor.io.parser.seq_chunk_to_parent
    chunk_id = f"{name}:{start}-{end}"
    return Parent(
        id=chunk_id,
        sequence=Sequence(
            seq,
            Alphabet.NT_EXTENDED_GAPPED,
            id=chunk_id,
            type=SequenceType.SEQUENCE_CHUNK,
            parent=Parent(
                location=SingleInterval(
                    start, end, Strand.PLUS, parent=Parent(id=name, sequence_type=SequenceType.CHROMOSOME)
                )
            ),
        ),
    )


def main():
    results = {}
    seq30 = Sequence("ACGTACGTACGTACGTACGTACGTACGTAC", Alphabet.NT_STRICT, id="chr1", type="chromosome")
    parents = {
        "none": None,
        "str": "chr1",
        "seq30": seq30,
        "parent_seq30": Parent(sequence=seq30),
        "parent_noseq": Parent(id="chr1", sequence_type="chromosome"),
        "parent_with_loc": Parent(sequence=seq30, location=SingleInterval(0, 2, Strand.MINUS)),
        "parent_with_loc_strand": Parent(id="p", strand=Strand.PLUS, location=SingleInterval(0, 2, Strand.PLUS)),
        "chunk": seq_chunk_parent("ACGTACGTACGTACGTACGT", 100, 120),
        "loc_as_parent": SingleInterval(1, 5, Strand.PLUS),
        "parent_seq_with_grandparent": Parent(
            sequence=Sequence(
                "ACGTACGTAC", Alphabet.NT_STRICT, id="child", parent=Parent(id="gp", sequence_type="chromosome")
            )
        ),
    }
    strands = [Strand.PLUS, Strand.MINUS, Strand.UNSTRANDED]

    # ------------------------------------------------------------ SingleInterval constructor
    single_coords = [(0, 0), (0, 5), (3, 3), (5, 3), (-1, 4), (-3, -1), (2, 10), (2, 11), (0, 20), (15, 30), (29, 31)]
    for (s, e), strand, (pk, p) in itertools.product(single_coords, strands, parents.items()):
        results[f"single:{s}-{e}:{strand}:{pk}"] = outcome(SingleInterval, s, e, strand, p)
    results["single:kw"] = outcome(SingleInterval, start=1, end=4, strand=Strand.MINUS, parent="x")

    # ------------------------------------------------------------ CompoundInterval constructor
    compound_coords = [
        ([0], [5]),
        ([0, 10], [5, 15]),
        ([10, 0], [15, 5]),
        ([0, 5, 10], [5, 10, 15]),
        ([0, 3, 3], [5, 9, 7]),
        ([3, 3, 0], [7, 9, 5]),
        ([0, 0], [0, 0]),
        ([0, 8, 8], [4, 8, 12]),
        ([2, 12, 22], [8, 18, 30]),
        ([2, 12, 22], [8, 18, 31]),
        ([], []),
        ([1], []),
        ([1, 2], [3]),
        ([-1, 4], [2, 8]),
        ([4, -1], [8, 2]),
        ([5, 10], [3, 12]),
        ([10, 5], [12, 3]),
        ([-2, 7], [-5, 3]),
        ((0, 10), (5, 15)),
        ([0, 10], (5, 15)),
    ]
    for (ss, ee), strand, (pk, p) in itertools.product(compound_coords, strands, parents.items()):
        results[f"compound:{ss}-{ee}:{strand}:{pk}"] = outcome(CompoundInterval, ss, ee, strand, p)
        results[f"sort:{ss}-{ee}:{strand}"] = outcome(CompoundInterval._sort_starts_ends, ss, ee, strand)

    # ------------------------------------------------------------ methods on valid locations
    locs = {}
    for pk in ("none", "parent_seq30", "parent_noseq", "chunk", "parent_with_loc"):
        for strand in strands:
            locs[f"S5-10:{strand}:{pk}"] = SingleInterval(5, 10, strand, parents[pk])
            locs[f"S0-20:{strand}:{pk}"] = SingleInterval(0, 20, strand, parents[pk])
            locs[f"S4-4:{strand}:{pk}"] = SingleInterval(4, 4, strand, parents[pk])
            locs[f"C2-5,8-12,15-18:{strand}:{pk}"] = CompoundInterval([2, 8, 15], [5, 12, 18], strand, parents[pk])
            locs[f"C0-5,5-9:{strand}:{pk}"] = CompoundInterval([0, 5], [5, 9], strand, parents[pk])
            locs[f"C3-9,5-7,12-20:{strand}:{pk}"] = CompoundInterval([3, 5, 12], [9, 7, 20], strand, parents[pk])
            locs[f"C1-1,6-9:{strand}:{pk}"] = CompoundInterval([1, 6], [1, 9], strand, parents[pk])

    shifts = [0, 1, -1, 2, -2, 5, -5, 10, 12, 13, 25, -20, 100]
    extensions = [(0, 0), (1, 0), (0, 1), (2, 3), (5, 5), (6, 0), (0, 12), (0, 13), (30, 30), (-1, 0), (0, -1), (-2, -2)]
    windows = [
        (1, 1, 0),
        (3, 1, 0),
        (3, 3, 0),
        (3, 2, 1),
        (5, 5, 0),
        (5, 1, 4),
        (10, 3, 0),
        (20, 1, 0),
        (21, 1, 0),
        (0, 1, 0),
        (1, 0, 0),
        (-1, 1, 0),
        (2, 2, -1),
        (2, 2, 4),
        (2, 2, 5),
        (2, 2, 9),
        (2, 2, 10),
        (9, 1, 1),
        (10, 1, 0),
        (10, 1, 1),
        (11, 1, 0),
    ]
    for k, loc in locs.items():
        for sh in shifts:
            results[f"shift:{k}:{sh}"] = outcome(loc.shift_position, sh)
        for a, b in extensions:
            results[f"ext_abs:{k}:{a},{b}"] = outcome(loc.extend_absolute, a, b)
            results[f"ext_rel:{k}:{a},{b}"] = outcome(loc.extend_relative, a, b)
        for w, st, sp in windows:
            results[f"windows:{k}:{w},{st},{sp}"] = outcome(loc.scan_windows, w, st, sp)
    for sh in (0, 3):
        results[f"shift:empty:{sh}"] = outcome(EmptyLocation().shift_position, sh)
    results["ext_abs:empty"] = outcome(EmptyLocation().extend_absolute, 1, 1)
    results["ext_rel:empty"] = outcome(EmptyLocation().extend_relative, 1, 1)
    results["windows:empty"] = outcome(EmptyLocation().scan_windows, 1, 1, 0)

    mode, path = sys.argv[1], sys.argv[2]
    if mode == "save":
        with open(path, "w") as fh:
            json.dump(results, fh, indent=1, sort_keys=True)
        print(f"saved {len(results)} results")
    else:
        with open(path) as fh:
            expected = json.load(fh)
        got = json.loads(json.dumps(results))
        bad = [k for k in sorted(set(expected) | set(got)) if expected.get(k) != got.get(k)]
        for k in bad[:20]:
            print("DIFF", k, "\n   expected:", expected.get(k), "\n   got:     ", got.get(k))
        n_exc = sum(1 for v in got.values() if v[0] == "EXC")
        print(f"compared {len(got)} results ({n_exc} raising): {len(bad)} differences")
        sys.exit(1 if bad else 0)


if __name__ == "__main__":
    main()
