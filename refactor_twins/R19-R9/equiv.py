"""Equivalence script for refactoring R2 (gene/variants.py, gene/gene.py, gene/feature.py, gene/collections.py,
gene/interval.py).

Usage (from the worktree root):
    /venv/bin/python _refactor/R2/equiv.py dump /tmp/r2_pristine.json      # on the pristine tree
    git apply _refactor/R2/patch.diff
    /venv/bin/python _refactor/R2/equiv.py dump /tmp/r2_patched.json
    /venv/bin/python _refactor/R2/equiv.py compare /tmp/r2_pristine.json /tmp/r2_patched.json
"""
import itertools
import json
import os
import sys
import types
from uuid import UUID

if os.environ.get("PYTHONHASHSEED") != "0":
    # reprs of sets of strings are recorded: fix the hash seed so that two runs are comparable
    os.environ["PYTHONHASHSEED"] = "0"
    os.execv(sys.executable, [sys.executable] + sys.argv)

sys.path.insert(0, os.getcwd())  # run from the worktree root

import inscripta.biocantor.location  # noqa: F401,E402  (must come first: circular import otherwise)
from inscripta.biocantor.location import SingleInterval, CompoundInterval, EmptyLocation, Strand  # noqa: E402
from inscripta.biocantor.parent import Parent, SequenceType  # noqa: E402
from inscripta.biocantor.sequence import Sequence  # noqa: E402
from inscripta.biocantor.sequence.alphabet import Alphabet  # noqa: E402


def seq_to_parent(seq, alphabet=Alphabet.NT_EXTENDED_GAPPED, seq_id=None, seq_type=SequenceType.CHROMOSOME):
    return Parent(
        sequence=Sequence(seq, alphabet, type=seq_type, id=seq_id), location=SingleInterval(0, len(seq), Strand.PLUS)
    )


def seq_chunk_to_parent(seq, sequence_name, start, end, strand=Strand.PLUS, alphabet=Alphabet.NT_EXTENDED_GAPPED):
    chunk_id = f"{sequence_name}:{start}-{end}"
    return Parent(
        id=chunk_id,
        sequence=Sequence(
            seq,
            alphabet,
            id=chunk_id,
            type=SequenceType.SEQUENCE_CHUNK,
            parent=Parent(
                location=SingleInterval(
                    start, end, strand, parent=Parent(id=sequence_name, sequence_type=SequenceType.CHROMOSOME)
                )
            ),
        ),
    )


# inscripta.biocantor.io.parser cannot be imported in this environment (marshmallow version); the two functions the
# gene package imports lazily from it are copied above and served from a stand-in module
_parser = types.ModuleType("inscripta.biocantor.io.parser")
_parser.seq_to_parent = seq_to_parent
_parser.seq_chunk_to_parent = seq_chunk_to_parent
sys.modules["inscripta.biocantor.io.parser"] = _parser

from inscripta.biocantor.gene.biotype import Biotype  # noqa: E402
from inscripta.biocantor.gene.cds_frame import CDSFrame  # noqa: E402
from inscripta.biocantor.gene.collections import AnnotationCollection  # noqa: E402
from inscripta.biocantor.gene.feature import FeatureInterval, FeatureIntervalCollection  # noqa: E402
from inscripta.biocantor.gene.gene import GeneInterval  # noqa: E402
from inscripta.biocantor.gene.interval import AbstractFeatureIntervalCollection  # noqa: E402
from inscripta.biocantor.gene.transcript import TranscriptInterval  # noqa: E402
from inscripta.biocantor.gene.variants import VariantInterval, VariantIntervalCollection  # noqa: E402

RESULTS = {}


def show(value):
    if isinstance(value, dict):
        return {repr(k): show(v) for k, v in value.items()}
    if isinstance(value, (list, tuple)):
        return [show(v) for v in value]
    if isinstance(value, (set, frozenset)):
        return ["set"] + sorted(repr(v) for v in value)
    if isinstance(value, types.GeneratorType):
        return show(list(value))
    return repr(value)


def record(label, thunk):
    assert label not in RESULTS, label
    try:
        RESULTS[label] = ["ok", show(thunk())]
    except Exception as e:  # noqa
        RESULTS[label] = ["exc", type(e).__name__, str(e)]


GENOME = "ACTCTCTCTATCTCATCCACGGTTAACCGGATGCATGCATTTAGGCCAATAGCGCGATATAGC"  # 63 nt
G1 = UUID("11111111-1111-1111-1111-111111111111")
G2 = UUID("22222222-2222-2222-2222-222222222222")
G3 = UUID("33333333-3333-3333-3333-333333333333")


def make_parents():
    return {
        "none": None,
        "chrom": seq_to_parent(GENOME, seq_id="chr1"),
        "bare_seq": Parent(sequence=Sequence(GENOME, Alphabet.NT_EXTENDED_GAPPED)),
        "id_only": Parent(id="chr1", sequence_type=SequenceType.CHROMOSOME),
        "chunk_5_55": seq_chunk_to_parent(GENOME[5:55], "chr1", 5, 55),
        "chunk_0_30": seq_chunk_to_parent(GENOME[0:30], "chr1", 0, 30),
        "chunk_20_63": seq_chunk_to_parent(GENOME[20:63], "chr1", 20, 63),
    }


def make_transcripts(parent):
    kw = dict(parent_or_seq_chunk_parent=parent, sequence_name="chr1")
    return {
        "tx_plus_coding": lambda: TranscriptInterval(
            [2, 14, 30], [10, 24, 42], Strand.PLUS, cds_starts=[4, 14, 30], cds_ends=[10, 24, 35],
            cds_frames=[CDSFrame.ZERO, CDSFrame.ZERO, CDSFrame.ONE], transcript_id="t1", transcript_symbol="T1",
            transcript_type=Biotype.protein_coding, qualifiers={"note": ["a", "b"]}, **kw
        ),
        "tx_minus_coding": lambda: TranscriptInterval(
            [6, 20], [16, 40], Strand.MINUS, cds_starts=[8, 20], cds_ends=[16, 33],
            cds_frames=[CDSFrame.ONE, CDSFrame.ZERO], transcript_id="t2", protein_id="p2", product="prod", **kw
        ),
        "tx_plus_noncoding": lambda: TranscriptInterval(
            [1, 26], [12, 50], Strand.PLUS, transcript_id="t3", transcript_type=Biotype.lncRNA, **kw
        ),
        "tx_minus_noncoding_single": lambda: TranscriptInterval([22, ], [47, ], Strand.MINUS, transcript_id="t4", **kw),
        "tx_primary": lambda: TranscriptInterval([3], [9], Strand.PLUS, is_primary_tx=True, transcript_id="t5", **kw),
        "tx_primary2": lambda: TranscriptInterval([30], [39], Strand.MINUS, is_primary_tx=True, transcript_id="t6", **kw),
        "tx_guid1": lambda: TranscriptInterval([3], [9], Strand.PLUS, guid=G1, **kw),
        "tx_guid1_b": lambda: TranscriptInterval([13], [19], Strand.PLUS, guid=G1, **kw),
        "tx_guid2": lambda: TranscriptInterval([23], [29], Strand.PLUS, guid=G2, **kw),
        "tx_guid2_b": lambda: TranscriptInterval([33], [39], Strand.MINUS, guid=G2, **kw),
        "tx_guid3": lambda: TranscriptInterval([40, 50], [45, 60], Strand.MINUS, guid=G3, **kw),
    }


def make_features(parent):
    kw = dict(parent_or_seq_chunk_parent=parent, sequence_name="chr1")
    return {
        "f_plus": lambda: FeatureInterval([2, 14], [10, 24], Strand.PLUS, feature_types=["promoter", "a"], feature_name="fa", feature_id="F1", qualifiers={"q": ["1"]}, **kw),
        "f_minus": lambda: FeatureInterval([6, 30], [16, 40], Strand.MINUS, feature_types=["tfbs"], feature_name="fb", **kw),
        "f_uns": lambda: FeatureInterval([20], [50], Strand.UNSTRANDED, **kw),
        "f_primary": lambda: FeatureInterval([3], [9], Strand.PLUS, is_primary_feature=True, **kw),
        "f_primary2": lambda: FeatureInterval([33], [39], Strand.PLUS, is_primary_feature=True, **kw),
        "f_guid1": lambda: FeatureInterval([3], [9], Strand.PLUS, guid=G1, **kw),
        "f_guid1_b": lambda: FeatureInterval([13], [19], Strand.MINUS, guid=G1, **kw),
        "f_guid2": lambda: FeatureInterval([23], [29], Strand.PLUS, guid=G2, **kw),
        "f_guid2_b": lambda: FeatureInterval([43], [49], Strand.PLUS, guid=G2, **kw),
        "f_zero_primary": lambda: FeatureInterval([7], [7], Strand.PLUS, is_primary_feature=True, **kw),
    }


def make_variants(parent):
    kw = dict(parent_or_seq_chunk_parent=parent)
    return {
        "snp_7": lambda: VariantInterval(7, 8, "G", "SNV", **kw),
        "ins_11": lambda: VariantInterval(11, 12, "GGC", "insertion", variant_name="ins", variant_id="V2", phase_block=3, qualifiers={"k": ["v"]}, **kw),
        "del_15_18": lambda: VariantInterval(15, 18, "T", "deletion", **kw),
        "del_18_20_nopad": lambda: VariantInterval(18, 20, "", "deletion", **kw),
        "del_30_38": lambda: VariantInterval(30, 38, "A", "deletion", variant_guid=G3, **kw),
        "mnv_40_43": lambda: VariantInterval(40, 43, "TTT", "MNV", **kw),
        "ins_58": lambda: VariantInterval(58, 59, "ACGTAC", "insertion", **kw),
        "snp_7_dupguid": lambda: VariantInterval(7, 8, "G", "SNV", guid=G1, **kw),
        "del_15_dupguid": lambda: VariantInterval(15, 18, "T", "deletion", guid=G1, **kw),
        "snp_44_guid2": lambda: VariantInterval(44, 45, "C", "SNV", guid=G2, **kw),
        "snp_3_guid2": lambda: VariantInterval(3, 4, "C", "SNV", guid=G2, **kw),
        "snp_46_guid2": lambda: VariantInterval(46, 47, "C", "SNV", guid=G2, **kw),
        "overlap_16_19": lambda: VariantInterval(16, 19, "A", "deletion", **kw),
        "empty": lambda: VariantInterval(5, 5, "A", "SNV", **kw),
        "bad_alphabet": lambda: VariantInterval(5, 6, "Z*", "SNV", **kw),
    }


LOCATIONS = {
    "si_0_5": lambda p: SingleInterval(0, 5, Strand.PLUS),
    "si_5_30_minus": lambda p: SingleInterval(5, 30, Strand.MINUS),
    "si_16_17": lambda p: SingleInterval(16, 17, Strand.PLUS),
    "si_16_36": lambda p: SingleInterval(16, 36, Strand.PLUS),
    "si_31_37_inside_del": lambda p: SingleInterval(31, 37, Strand.MINUS),
    "si_45_60": lambda p: SingleInterval(45, 60, Strand.PLUS),
    "si_uns": lambda p: SingleInterval(10, 50, Strand.UNSTRANDED),
    "ci_multi": lambda p: CompoundInterval([2, 14, 30], [10, 24, 42], Strand.PLUS),
    "ci_minus": lambda p: CompoundInterval([6, 31, 50], [16, 37, 60], Strand.MINUS),
    "ci_all_deleted": lambda p: CompoundInterval([31, 35], [33, 37], Strand.PLUS),
    "ci_one_survives": lambda p: CompoundInterval([31, 45], [36, 50], Strand.PLUS),
    "empty": lambda p: EmptyLocation(),
    "si_with_parent": lambda p: SingleInterval(6, 26, Strand.PLUS, parent=p) if p is not None and p.sequence and len(p.sequence) >= 26 else SingleInterval(6, 26, Strand.PLUS),
    "ci_with_parent": lambda p: CompoundInterval([6, 20], [12, 26], Strand.MINUS, parent=p) if p is not None and p.sequence and len(p.sequence) >= 26 else CompoundInterval([6, 20], [12, 26], Strand.MINUS),
}


def describe_interval(obj):
    """Everything observable about a gene-layer object that the touched code feeds."""
    out = [type(obj).__name__, repr(obj), str(obj.guid), obj.start, obj.end]
    for attr in ("to_dict", "children_guids", "is_coding", "id", "name", "identifiers", "chunk_relative_location",
                 "chromosome_location", "guid_map", "variant_types", "primary_transcript", "primary_feature", "bin",
                 "feature_types", "strand"):
        if hasattr(type(obj), attr) or attr in getattr(obj, "__dict__", {}):
            try:
                val = getattr(obj, attr)
                if callable(val):
                    val = val()
                out.append([attr, show(val)])
            except Exception as e:  # noqa
                out.append([attr, "exc", type(e).__name__, str(e)])
    return out


def exercise_collection_common(label, build, guids):
    """Shared checks of GeneInterval / FeatureIntervalCollection / VariantIntervalCollection objects"""
    record(f"{label}/describe", lambda: describe_interval(build()))
    try:
        obj = build()
    except Exception:  # noqa
        return None
    record(f"{label}/to_dict_chunk", lambda: obj.to_dict(chromosome_relative_coordinates=False))
    record(f"{label}/roundtrip", lambda: describe_interval(type(obj).from_dict(obj.to_dict(), obj._parent_or_seq_chunk_parent)))
    record(f"{label}/iter", lambda: list(obj))
    for gname, g in guids.items():
        record(f"{label}/query/{gname}", lambda: (lambda r: None if r is None else describe_interval(r))(obj.query_by_guids(g)))
    for meth in ("export_qualifiers", "get_merged_feature", "get_merged_transcript", "get_merged_cds", "get_primary_feature",
                 "get_primary_transcript", "get_primary_cds", "get_primary_protein"):
        if hasattr(obj, meth):
            record(f"{label}/{meth}", lambda: (lambda r: describe_interval(r) if hasattr(r, "guid") else r)(getattr(obj, meth)()))
    if hasattr(obj, "to_gff"):
        record(f"{label}/to_gff", lambda: [str(r) for r in obj.to_gff()])
        record(f"{label}/to_gff_chunk", lambda: [str(r) for r in obj.to_gff(chromosome_relative_coordinates=False)])
    return obj


def run():
    parents = make_parents()

    # ------------------------------------------------------------------ primary feature inference
    class Fake:
        def __init__(self, kind, cds, length, primary=False, name=""):
            self.interval_type, self.cds_size, self._n, self.is_primary_feature, self.name = kind, cds, length, primary, name

        def __len__(self):
            return self._n

        def __repr__(self):
            return f"Fake({self.name})"

    fakes = [
        Fake("transcript", 9, 30, name="a"), Fake("transcript", 9, 30, name="b"), Fake("transcript", 12, 10, name="c"),
        Fake("feature", 99, 40, name="d"), Fake("transcript", 12, 11, name="e"), Fake("transcript", 0, 50, name="f"),
        Fake("feature", 0, 50, name="g"), Fake("transcript", 3, 3, True, name="P1"), Fake("feature", 0, 0, True, name="P0"),
        Fake("transcript", 1, 1, True, name="P2"),
    ]
    n = 0
    for size in (0, 1, 2, 3):
        for combo in itertools.permutations(fakes, size):
            n += 1
            record(f"primary/{n}/{[f.name for f in combo]}", lambda: AbstractFeatureIntervalCollection._find_primary_feature(list(combo)))

    for pname, parent in parents.items():
        txs = make_transcripts(parent)
        feats = make_features(parent)
        variants = make_variants(parent)

        def built(factories, names):
            return [factories[x]() for x in names]

        # -------------------------------------------------------------- VariantInterval
        built_variants = {}
        for vname, vf in variants.items():
            record(f"{pname}/variant/{vname}/describe", lambda: describe_interval(vf()))
            try:
                v = vf()
            except Exception:  # noqa
                continue
            built_variants[vname] = v
            record(f"{pname}/variant/{vname}/to_dict_chunk", lambda: v.to_dict(chromosome_relative_coordinates=False))
            record(f"{pname}/variant/{vname}/roundtrip", lambda: describe_interval(VariantInterval.from_dict(v.to_dict(), parent)))
            record(f"{pname}/variant/{vname}/alt_seq", lambda: [str(v.alternative_genomic_sequence), repr(v.alternative_genomic_sequence)])
            record(f"{pname}/variant/{vname}/alt_parent", lambda: v.parent_with_alternative_sequence)
            record(f"{pname}/variant/{vname}/length_difference", lambda: v.length_difference)
            for lname, lf in LOCATIONS.items():
                record(f"{pname}/variant/{vname}/lift/{lname}", lambda: v.lift_over_location(lf(parent)))
                record(f"{pname}/variant/{vname}/lift_compound_direct/{lname}", lambda: v._lift_over_chromosome_location_compound_interval(lf(parent)))
            record(f"{pname}/variant/{vname}/lift/not_a_location", lambda: v.lift_over_location("x"))
        for bad in ({}, {"start": 1}, {"start": 1, "end": 2, "sequence": "A", "variant_type": "SNV"}):
            record(f"{pname}/variant/from_dict_missing/{sorted(bad)}", lambda: VariantInterval.from_dict(dict(bad), parent))

        # -------------------------------------------------------------- VariantIntervalCollection
        vc_specs = {
            "three": ["snp_7", "ins_11", "del_15_18"],
            "unsorted": ["del_30_38", "snp_7", "ins_58", "ins_11"],
            "adjacent": ["del_15_18", "del_18_20_nopad", "snp_7"],
            "single": ["mnv_40_43"],
            "all": ["ins_58", "mnv_40_43", "del_30_38", "del_18_20_nopad", "del_15_18", "ins_11", "snp_7"],
            "overlapping": ["snp_7", "del_15_18", "overlap_16_19"],
            "dup_guid": ["snp_7_dupguid", "ins_11", "del_15_dupguid"],
            "two_dups": ["snp_44_guid2", "snp_7_dupguid", "del_15_dupguid", "snp_46_guid2"],
            "two_dups_b": ["snp_7_dupguid", "snp_44_guid2", "snp_46_guid2", "del_15_dupguid"],
            "interleaved_dups": ["snp_3_guid2", "snp_7_dupguid", "del_15_dupguid", "snp_44_guid2"],
            "empty": [],
        }
        vcs = {}
        for sname, names in vc_specs.items():
            for explicit_guid in (None, G3):
                label = f"{pname}/vc/{sname}/{explicit_guid is not None}"

                def build():
                    return VariantIntervalCollection(
                        built(variants, names), variant_collection_name="vc", variant_collection_id="VC1",
                        sequence_name="chr1", guid=explicit_guid, qualifiers={"x": ["y"]},
                        parent_or_seq_chunk_parent=parent,
                    )

                q = {"G1": G1, "list": [G2, G1, G3], "empty": [], "str": "abc"}
                obj = exercise_collection_common(label, build, q)
                if obj is None:
                    continue
                for vi in obj.variant_intervals[:2]:
                    record(f"{label}/query_child/{vi.start}", lambda: describe_interval(obj.query_by_guids(vi.guid)))
                record(f"{label}/alt_seq", lambda: [str(obj.alternative_genomic_sequence), repr(obj.alternative_genomic_sequence)])
                record(f"{label}/alt_parent", lambda: obj.parent_with_alternative_sequence)
                for lname, lf in LOCATIONS.items():
                    record(f"{label}/lift/{lname}", lambda: obj.lift_over_location(lf(parent)))
                record(f"{label}/lift/not_a_location", lambda: obj.lift_over_location(5))
                if explicit_guid is None:
                    vcs[sname] = obj

        # -------------------------------------------------------------- GeneInterval
        gene_specs = {
            "mixed": ["tx_plus_coding", "tx_minus_coding", "tx_plus_noncoding", "tx_minus_noncoding_single"],
            "noncoding": ["tx_plus_noncoding", "tx_minus_noncoding_single"],
            "single_coding": ["tx_minus_coding"],
            "with_primary": ["tx_plus_noncoding", "tx_primary", "tx_plus_coding"],
            "two_primary": ["tx_primary", "tx_plus_coding", "tx_primary2"],
            "dup_guid": ["tx_guid1", "tx_guid2", "tx_guid1_b"],
            "two_dups": ["tx_guid1", "tx_guid2", "tx_guid3", "tx_guid2_b", "tx_guid1_b"],
            "two_dups_b": ["tx_guid2", "tx_guid1", "tx_guid1_b", "tx_guid2_b"],
            "distinct_guids": ["tx_guid3", "tx_guid1", "tx_guid2"],
            "plus_only": ["tx_plus_coding", "tx_plus_noncoding", "tx_primary", "tx_guid2"],
            "minus_only": ["tx_minus_noncoding_single", "tx_minus_coding", "tx_guid3"],
            "empty": [],
        }
        genes = {}
        for sname, names in gene_specs.items():
            for gene_type, explicit_guid in ((Biotype.protein_coding, None), (None, G3)):
                label = f"{pname}/gene/{sname}/{gene_type}"

                def build():
                    return GeneInterval(
                        built(txs, names), guid=explicit_guid, gene_id="g1" if gene_type else None, gene_symbol="GENE" if gene_type else "",
                        gene_type=gene_type, locus_tag="LT1", qualifiers={"gene_id": ["other"], "note": ["n"]} if gene_type else None,
                        sequence_name="chr1", parent_or_seq_chunk_parent=parent,
                    )

                q = {"G1": G1, "list": [G2, G1, UUID(int=5)], "empty": [], "G3G2": (G3, G2)}
                obj = exercise_collection_common(label, build, q)
                if obj is not None and explicit_guid is None:
                    genes[sname] = obj
                if obj is not None:
                    for tx in obj.transcripts[:2]:
                        record(f"{label}/query_child/{tx.start}", lambda: describe_interval(obj.query_by_guids([tx.guid])))
        record(f"{pname}/gene/none_transcripts", lambda: GeneInterval(None))

        # -------------------------------------------------------------- FeatureIntervalCollection
        fc_specs = {
            "mixed": ["f_plus", "f_minus", "f_uns"],
            "single": ["f_minus"],
            "with_primary": ["f_uns", "f_primary"],
            "two_primary": ["f_primary", "f_plus", "f_primary2"],
            "zero_primary": ["f_zero_primary", "f_plus", "f_primary2"],
            "plus_only": ["f_plus", "f_primary", "f_guid2", "f_guid1"],
            "minus_only": ["f_minus", "f_guid1_b"],
            "dup_guid": ["f_guid1", "f_guid2", "f_guid1_b"],
            "two_dups": ["f_guid2", "f_guid1", "f_guid1_b", "f_guid2_b"],
            "two_dups_b": ["f_guid1", "f_guid2", "f_guid2_b", "f_guid1_b"],
            "empty": [],
        }
        fcs = {}
        for sname, names in fc_specs.items():
            for rich in (True, False):
                label = f"{pname}/fc/{sname}/{rich}"

                def build():
                    return FeatureIntervalCollection(
                        built(feats, names), feature_collection_name="fc" if rich else None,
                        feature_collection_id="FC1" if rich else "", feature_collection_type="group" if rich else None,
                        locus_tag="LT2" if rich else None, sequence_name="chr1", guid=None if rich else G3,
                        qualifiers={"feature_collection_id": ["zzz"]} if rich else None, parent_or_seq_chunk_parent=parent,
                    )

                q = {"G1": G1, "list": [G2, G1, UUID(int=5)], "empty": []}
                obj = exercise_collection_common(label, build, q)
                if obj is not None and rich:
                    fcs[sname] = obj
                if obj is not None:
                    for f in obj.feature_intervals[:2]:
                        record(f"{label}/query_child/{f.start}", lambda: describe_interval(obj.query_by_guids(f.guid)))

        # -------------------------------------------------------------- incorporate_variants on genes / collections
        for vcname in ("three", "single", "all"):
            vc = vcs.get(vcname)
            if vc is None:
                continue
            for gname in ("mixed", "single_coding", "plus_only", "minus_only"):
                if gname in genes:
                    record(f"{pname}/gene/{gname}/incorporate/{vcname}", lambda: describe_interval(genes[gname].incorporate_variants(vc)))
            if "mixed" in fcs:
                record(f"{pname}/fc/mixed/incorporate/{vcname}", lambda: describe_interval(fcs["mixed"].incorporate_variants(vc)))
        if "del_30_38" in built_variants and "mixed" in genes:
            record(f"{pname}/gene/mixed/incorporate_single_variant", lambda: describe_interval(genes["mixed"].incorporate_variants(built_variants["del_30_38"])))

        # -------------------------------------------------------------- AnnotationCollection
        ac_children = {
            "empty": ([], [], []),
            "genes": ([], ["mixed", "noncoding"], []),
            "features": (["mixed", "single"], [], []),
            "both": (["mixed"], ["mixed", "single_coding"], []),
            "same_strand": (["plus_only", "minus_only"], ["plus_only", "minus_only"], ["all"]),
            "with_variants": (["mixed"], ["mixed", "noncoding"], ["three"]),
            "with_two_variant_sets": (["with_primary"], ["single_coding", "with_primary"], ["single", "three"]),
            "same_gene_twice": ([], ["mixed", "mixed"], []),
        }
        bounds = {"none": (None, None), "only_start": (3, None), "only_end": (None, 40), "both": (0, 60), "zero": (0, 0), "tight": (10, 20)}
        for cname, (fnames, gnames, vnames) in ac_children.items():
            if any(x not in fcs for x in fnames) or any(x not in genes for x in gnames) or any(x not in vcs for x in vnames):
                continue
            for bname, (start, end) in bounds.items():
                label = f"{pname}/ac/{cname}/{bname}"

                def build():
                    return AnnotationCollection(
                        feature_collections=[fcs[x] for x in fnames] or None, genes=[genes[x] for x in gnames] or None,
                        variant_collections=[vcs[x] for x in vnames] or None, name="ac", id="AC1", sequence_name="chr1",
                        qualifiers={"q": ["r"]}, start=start, end=end, completely_within=None,
                        parent_or_seq_chunk_parent=parent,
                    )

                def describe_ac():
                    ac = build()
                    return [
                        repr(ac), str(ac.guid), getattr(ac, "start", "unset"), getattr(ac, "end", "unset"),
                        getattr(ac, "bin", "unset"), repr(ac._location), show(ac.guid_map), show(ac.children_guids),
                        show(ac.alternative_haplotype_mapping if ac.alternative_haplotype_mapping is None else {k: [describe_interval(x) for x in v] for k, v in ac.alternative_haplotype_mapping.items()}),
                        ac.is_empty, len(ac), show(ac.to_dict()),
                    ]

                record(f"{label}/describe", describe_ac)
                try:
                    ac = build()
                except Exception:  # noqa
                    continue
                record(f"{label}/hierarchical", lambda: show(ac.hierarchical_children_guids))
                record(f"{label}/interval_guids_to_collections", lambda: show(ac.interval_guids_to_collections))
                for ci, child in enumerate(list(ac.iter_children())[:2]):
                    record(f"{label}/query/{ci}/{type(child).__name__}", lambda: show(ac.query_by_guids([child.guid]).to_dict()))
                record(f"{label}/query_pos", lambda: show(ac.query_by_position(5, 35, completely_within=False).to_dict()))


def main():
    mode = sys.argv[1]
    if mode == "dump":
        run()
        with open(sys.argv[2], "w") as fh:
            json.dump(RESULTS, fh, indent=0, sort_keys=True)
        n_exc = sum(1 for v in RESULTS.values() if v[0] == "exc")
        print(f"{len(RESULTS)} cases recorded ({n_exc} raise)")
    elif mode == "compare":
        a = json.load(open(sys.argv[2]))
        b = json.load(open(sys.argv[3]))
        bad = [k for k in sorted(set(a) | set(b)) if a.get(k) != b.get(k)]
        for k in bad[:40]:
            print("DIFF", k, str(a.get(k))[:300], "|||", str(b.get(k))[:300])
        print(f"{len(a)} vs {len(b)} cases, {len(bad)} differences")
        sys.exit(1 if bad else 0)


if __name__ == "__main__":
    main()
