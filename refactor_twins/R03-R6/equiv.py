"""Equivalence harness for the C03 refactorings (sequence extraction / Sequence slicing, rc, append).

Usage (from the worktree root):
    /venv/bin/python _refactor/R2/equiv.py dump /tmp/out_pristine.json     # on pristine code
    git apply _refactor/R2/patch.diff
    /venv/bin/python _refactor/R2/equiv.py dump /tmp/out_patched.json      # on refactored code
    /venv/bin/python _refactor/R2/equiv.py compare /tmp/out_pristine.json /tmp/out_patched.json

Every observation is a string (str / repr / exception type + message) keyed by a label; the two dumps must be
identical key by key.
"""
import itertools
import json
import os
import random
import sys

sys.path.insert(0, os.getcwd())  # the worktree root: the package under test is imported from the checkout

import inscripta.biocantor.location  # noqa: F401,E402  (must come first: circular import otherwise)
from inscripta.biocantor.location.location_impl import SingleInterval, CompoundInterval, EmptyLocation
from inscripta.biocantor.location.strand import Strand
from inscripta.biocantor.parent import Parent, SequenceType
from inscripta.biocantor.sequence.alphabet import Alphabet, ALPHABET_TO_NUCLEOTIDE_COMPLEMENT
from inscripta.biocantor.sequence.sequence import Sequence

RESULTS = {}


def rec(label, thunk):
    assert label not in RESULTS, label
    try:
        val = thunk()
        RESULTS[label] = "OK " + val
    except Exception as e:  # noqa
        RESULTS[label] = "EXC {}: {}".format(type(e).__name__, str(e))


def show_seq(s):
    """Everything observable about a Sequence"""
    return " | ".join(
        [
            str(s),
            repr(s),
            repr(s.parent),
            repr(s.location_on_parent),
            str(s.parent_strand),
            str(s.parent_id),
            str(s.parent_type),
            str(s.id),
            str(s.sequence_type),
            s.alphabet.name,
            str(len(s)),
            str(s.is_empty),
        ]
    )


def show_loc(loc):
    if loc is EmptyLocation():
        return "EmptyLocation"
    return " | ".join(
        [
            type(loc).__name__,
            str(loc),
            repr(loc),
            repr(loc.parent),
            str(loc.start),
            str(loc.end),
            str(loc.strand),
            str(len(loc)),
            str(loc.num_blocks),
            str([str(b) for b in loc.blocks]),
        ]
    )


def seq_to_parent(seq, alphabet=Alphabet.NT_EXTENDED_GAPPED, seq_id=None, seq_type=SequenceType.CHROMOSOME):
    return Parent(
        sequence=Sequence(seq, alphabet, type=seq_type, id=seq_id), location=SingleInterval(0, len(seq), Strand.PLUS)
    )


def seq_chunk_to_parent(seq, sequence_name, start, end, strand=Strand.PLUS, alphabet=Alphabet.NT_EXTENDED_GAPPED):
    chunk_id = f"{sequence_name}:{start}-{end}"
    return Parent(
        id=chunk_id,
        sequence=Sequence(
            seq,
            alphabet,
            id=chunk_id,
            type=SequenceType.SEQUENCE_CHUNK,
            parent=Parent(
                location=SingleInterval(
                    start,
                    end,
                    strand,
                    parent=Parent(id=sequence_name, sequence_type=SequenceType.CHROMOSOME),
                )
            ),
        ),
    )


NT_ALPHABETS = [
    Alphabet.NT_STRICT,
    Alphabet.NT_EXTENDED,
    Alphabet.NT_STRICT_GAPPED,
    Alphabet.NT_EXTENDED_GAPPED,
    Alphabet.NT_STRICT_UNKNOWN,
]


def random_seq(rng, alphabet, n):
    letters = alphabet.value + alphabet.value.lower()
    return "".join(rng.choice(letters) for _ in range(n))


def random_blocks(rng, n_max, seq_len, allow_messy):
    """Returns starts, ends. When allow_messy, blocks may overlap, abut, be empty or be given unsorted."""
    nblocks = rng.randint(1, n_max)
    if allow_messy:
        starts, ends = [], []
        for _ in range(nblocks):
            s = rng.randint(0, seq_len)
            e = rng.randint(s, min(seq_len, s + 8))
            starts.append(s)
            ends.append(e)
        return starts, ends
    cuts = sorted(rng.sample(range(0, seq_len + 1), 2 * nblocks))
    return cuts[0::2], cuts[1::2]


def section_alphabet():
    for a in Alphabet:
        rec(f"alphabet/{a.name}/is_nt", lambda: str(a.is_nucleotide_alphabet()))
    for name, a in Alphabet.__members__.items():
        rec(f"alphabet/member/{name}/is_nt", lambda: str(a.is_nucleotide_alphabet()))
    rec("alphabet/map/keys", lambda: str([k.name for k in ALPHABET_TO_NUCLEOTIDE_COMPLEMENT]))
    for a, table in ALPHABET_TO_NUCLEOTIDE_COMPLEMENT.items():
        rec(f"alphabet/map/{a.name}", lambda: str(list(table.items())) + type(table).__name__)


def section_sequence_basic(rng):
    for a in Alphabet:
        for trial in range(3):
            data = random_seq(rng, a, rng.randint(0, 30))
            tag = f"seqbasic/{a.name}/{trial}"
            rec(tag + "/construct", lambda: show_seq(Sequence(data, a)))
            rec(tag + "/construct_id", lambda: show_seq(Sequence(data, a, id="sid", type="stype")))
            rec(tag + "/summary", lambda: Sequence(data, a).summary())
            rec(tag + "/summary_id", lambda: Sequence(data, a, id="x").summary())
            rec(tag + "/rc", lambda: show_seq(Sequence(data, a).reverse_complement()))
            rec(tag + "/rc_id", lambda: show_seq(Sequence(data, a, id="q").reverse_complement(new_id="n", new_type="t")))
            rec(tag + "/rc_pos", lambda: show_seq(Sequence(data, a, id="q").reverse_complement("n2", "t2")))
            rec(tag + "/fasta", lambda: Sequence(data, a, id="fa").to_fasta())
            rec(tag + "/fasta7", lambda: Sequence(data, a, id="fa").to_fasta(7))
            rec(tag + "/fasta_kw", lambda: Sequence(data, a).to_fasta(num_chars=1))
            rec(tag + "/validate_bad", lambda: str(Sequence.validate_alphabet(data + "!", a)))
            rec(tag + "/validate_ok", lambda: str(Sequence.validate_alphabet(data, a)))
            rec(tag + "/construct_bad", lambda: show_seq(Sequence(data + "1", a)))
            rec(tag + "/eq", lambda: str(Sequence(data, a) == Sequence(data, a)) + str(Sequence(data, a) == data))
            rec(tag + "/hash", lambda: str(hash(Sequence(data, a, id="h")) == hash(Sequence(data, a, id="h"))))
    # characters missing from the complement table
    for a in NT_ALPHABETS:
        for bad in ["AXC", "AC-GT", "ACNGT", "acgu", "A C", "AC1", "RYK"]:
            rec(
                f"seqbasic/rc_badchar/{a.name}/{bad}",
                lambda: show_seq(Sequence(bad, a, validate_alphabet=False).reverse_complement()),
            )
    # mismatched parent location length
    rec(
        "seqbasic/mismatched_parent",
        lambda: show_seq(Sequence("ACGT", Alphabet.NT_STRICT, parent=Parent(location=SingleInterval(0, 5, Strand.PLUS)))),
    )
    rec(
        "seqbasic/mismatched_parent_novalidate",
        lambda: show_seq(
            Sequence(
                "ACGT",
                Alphabet.NT_STRICT,
                parent=Parent(location=SingleInterval(0, 5, Strand.PLUS)),
                validate_parent=False,
            )
        ),
    )
    rec("seqbasic/str_parent", lambda: show_seq(Sequence("ACGT", Alphabet.NT_STRICT, parent="chr9")))
    rec("seqbasic/empty_fasta", lambda: Sequence("", Alphabet.NT_STRICT).to_fasta())
    # ancestors
    grand = Parent(id="grand", sequence_type="chromosome")
    mid = Parent(id="mid", sequence_type="chunk", parent=grand)
    s = Sequence("ACGT", Alphabet.NT_STRICT, type="leaf", parent=mid)
    for t in ["leaf", "chunk", "chromosome", "nope"]:
        for inc in [True, False]:
            rec(f"seqbasic/first_ancestor/{t}/{inc}", lambda: repr(s.first_ancestor_of_type(t, include_self=inc)))
            rec(f"seqbasic/has_ancestor/{t}/{inc}", lambda: repr(s.has_ancestor_of_type(t, include_self=inc)))
        rec(f"seqbasic/first_ancestor/{t}/default", lambda: repr(s.first_ancestor_of_type(t)))
        rec(f"seqbasic/has_ancestor/{t}/default", lambda: repr(s.has_ancestor_of_type(t)))


def slice_keys(n):
    bounds = [None, 0, 1, 2, n // 2, n - 1, n, n + 3, -1, -2, -n, -n - 2]
    keys = []
    for a, b in itertools.product(bounds, bounds):
        keys.append(slice(a, b))
    for step in [1, 2, -1, 3]:
        for a, b in [(None, None), (1, n - 1), (n - 1, 1), (-3, None), (None, 3)]:
            keys.append(slice(a, b, step))
    keys.extend([0, 1, n - 1, n, -1, -n, -n - 1, n + 5, n // 2])
    unique = {}
    for k in keys:
        unique.setdefault(repr(k), k)
    return list(unique.values())


def section_extract_and_slice(rng):
    case = 0
    for a in NT_ALPHABETS:
        for trial in range(6):
            seq_len = rng.randint(12, 40)
            data = random_seq(rng, a, seq_len)
            parent_variants = {
                "seqparent": lambda: Parent(id="chr1", sequence=Sequence(data, a, id="chr1")),
                "seqtyped": lambda: seq_to_parent(data, alphabet=a, seq_id="chrT"),
                "bareseq": lambda: Sequence(data, a),
            }
            pname = list(parent_variants)[trial % 3]
            mk_parent = parent_variants[pname]
            locs = []
            for strand in [Strand.PLUS, Strand.MINUS, Strand.UNSTRANDED]:
                s = rng.randint(0, seq_len - 1)
                e = rng.randint(s, seq_len)
                locs.append(("single", lambda s=s, e=e, strand=strand: SingleInterval(s, e, strand, parent=mk_parent())))
                locs.append(("single_empty", lambda s=s, strand=strand: SingleInterval(s, s, strand, parent=mk_parent())))
                for messy in [False, True]:
                    st, en = random_blocks(rng, 5, seq_len, messy)
                    locs.append(
                        (
                            "compound_messy" if messy else "compound",
                            lambda st=st, en=en, strand=strand: CompoundInterval(st, en, strand, parent=mk_parent()),
                        )
                    )
            locs.append(("full", lambda: SingleInterval(0, seq_len, Strand.MINUS, parent=mk_parent())))
            for kind, mk in locs:
                case += 1
                tag = f"extract/{a.name}/{trial}/{pname}/{kind}/{case}"
                try:
                    loc = mk()
                except Exception as e:  # noqa
                    RESULTS[tag + "/construct"] = "EXC {}: {}".format(type(e).__name__, e)
                    continue
                rec(tag + "/loc", lambda: show_loc(loc))
                rec(tag + "/extract", lambda: show_seq(loc.extract_sequence()))
                rec(tag + "/extract_again_same_obj", lambda: str(loc.extract_sequence() is loc.extract_sequence()))
                rec(tag + "/scan_blocks", lambda: str([show_loc(b) for b in loc.scan_blocks()]))
                rec(tag + "/reverse_strand", lambda: show_loc(loc.reverse_strand()))
                rec(tag + "/reverse_strand/extract", lambda: show_seq(loc.reverse_strand().extract_sequence()))
                rec(tag + "/reverse", lambda: show_loc(loc.reverse()))
                rec(tag + "/reverse/extract", lambda: show_seq(loc.reverse().extract_sequence()))
                for ns in Strand:
                    rec(tag + f"/reset_strand/{ns.name}", lambda: show_loc(loc.reset_strand(ns)))
                rec(tag + "/reset_parent_none", lambda: show_loc(loc.reset_parent(None)))
                rec(tag + "/reset_parent_none/extract", lambda: show_seq(loc.reset_parent(None).extract_sequence()))
                rec(tag + "/optimize", lambda: show_loc(loc.optimize_blocks()))
                rec(tag + "/optimize/extract", lambda: show_seq(loc.optimize_blocks().extract_sequence()))
                n = len(loc)
                rec(
                    tag + "/rel2parent_pos",
                    lambda: str([_safe(lambda i=i: loc.relative_to_parent_pos(i)) for i in range(-1, n + 2)]),
                )
                rec(
                    tag + "/parent2rel_pos",
                    lambda: str([_safe(lambda i=i: loc.parent_to_relative_pos(i)) for i in range(-1, seq_len + 2)]),
                )
                # sub-intervals: location + sequence
                pairs = [(i, j) for i in range(-1, n + 2) for j in range(-1, n + 2)]
                if len(pairs) > 120:
                    pairs = rng.sample(pairs, 120)
                for i, j in pairs:
                    for rs in Strand:
                        rec(
                            tag + f"/subinterval/{i}/{j}/{rs.name}",
                            lambda: _loc_and_seq(loc.relative_interval_to_parent_location(i, j, rs)),
                        )
                # windows
                rec(
                    tag + "/windows",
                    lambda: str([_loc_and_seq(w) for w in loc.scan_windows(max(1, n // 3), max(1, n // 4))]),
                )
                # slices of the extracted sequence: string + child location
                try:
                    extracted = loc.extract_sequence()
                except Exception:  # noqa
                    continue
                # an extracted sequence has no parent; attach the location the way the gene layer does
                with_parent = Sequence(
                    str(extracted),
                    a,
                    id="child",
                    type="childtype",
                    parent=Parent(
                        id="chr1",
                        sequence_type="chromosome",
                        location=loc.reset_parent(None),
                    ),
                    validate_parent=False,
                )
                keys = slice_keys(len(extracted))
                if case % 3:
                    keys = rng.sample(keys, min(40, len(keys)))
                for k in keys:
                    rec(tag + f"/slice/{k!r}", lambda: show_seq(with_parent[k]))
                    rec(tag + f"/slice_noparent/{k!r}", lambda: show_seq(extracted[k]))
                rec(tag + "/child_rc", lambda: show_seq(with_parent.reverse_complement(new_id="rc")))
                rec(tag + "/child_rc_rc", lambda: show_seq(with_parent.reverse_complement().reverse_complement()))
                rec(tag + "/child_slice_rc", lambda: show_seq(with_parent[1:-1].reverse_complement()))
                rec(tag + "/child_rc_slice", lambda: show_seq(with_parent.reverse_complement()[1:-1]))
                half = len(with_parent) // 2
                for data_only in [False, True]:
                    rec(
                        tag + f"/split_append/{data_only}",
                        lambda: show_seq(with_parent[:half].append(with_parent[half:], new_id="j", data_only=data_only)),
                    )
                    rec(
                        tag + f"/split_append_swapped/{data_only}",
                        lambda: show_seq(with_parent[half:].append(with_parent[:half], data_only=data_only)),
                    )
                    rec(
                        tag + f"/split_append_gap/{data_only}",
                        lambda: show_seq(with_parent[: half - 1].append(with_parent[half + 1 :], "pos_id", data_only)),
                    )
                # sequence whose parent only carries a strand / nothing
                strand_only = Sequence(str(extracted), a, parent=Parent(id="p", strand=loc.strand))
                rec(tag + "/strand_only/rc", lambda: show_seq(strand_only.reverse_complement()))
                rec(tag + "/strand_only/slice", lambda: show_seq(strand_only[1:3]))
                rec(tag + "/strand_only/append", lambda: show_seq(strand_only.append(strand_only)))


def _safe(thunk):
    try:
        return thunk()
    except Exception as e:  # noqa
        return "EXC {}: {}".format(type(e).__name__, e)


def _loc_and_seq(loc):
    return show_loc(loc) + " => " + str(_safe(lambda: show_seq(loc.extract_sequence())))


def section_append(rng):
    a = Alphabet.NT_EXTENDED_GAPPED
    chrom = Parent(id="chrA", sequence_type="chromosome")
    other_chrom = Parent(id="chrB", sequence_type="chromosome")

    def mk(data, parent=None, type=None, alphabet=a, id=None):
        return Sequence(data, alphabet, id=id, type=type, parent=parent, validate_parent=False)

    def ploc(loc, base=chrom):
        return Parent(id=base.id, sequence_type=base.sequence_type, location=loc)

    parents = {
        "none": None,
        "idonly": chrom,
        "other_idonly": other_chrom,
        "plus_0_4": ploc(SingleInterval(0, 4, Strand.PLUS)),
        "plus_4_8": ploc(SingleInterval(4, 8, Strand.PLUS)),
        "plus_2_6": ploc(SingleInterval(2, 6, Strand.PLUS)),
        "plus_10_14": ploc(SingleInterval(10, 14, Strand.PLUS)),
        "minus_0_4": ploc(SingleInterval(0, 4, Strand.MINUS)),
        "minus_4_8": ploc(SingleInterval(4, 8, Strand.MINUS)),
        "minus_2_6": ploc(SingleInterval(2, 6, Strand.MINUS)),
        "minus_10_14": ploc(SingleInterval(10, 14, Strand.MINUS)),
        "unstranded_0_4": ploc(SingleInterval(0, 4, Strand.UNSTRANDED)),
        "unstranded_4_8": ploc(SingleInterval(4, 8, Strand.UNSTRANDED)),
        "cplus": ploc(CompoundInterval([0, 6], [2, 8], Strand.PLUS)),
        "cplus_after": ploc(CompoundInterval([8, 14], [10, 16], Strand.PLUS)),
        "cminus": ploc(CompoundInterval([0, 6], [2, 8], Strand.MINUS)),
        "cminus_after": ploc(CompoundInterval([8, 14], [10, 16], Strand.MINUS)),
        "other_plus_4_8": ploc(SingleInterval(4, 8, Strand.PLUS), base=other_chrom),
        "strand_plus": Parent(id="chrA", sequence_type="chromosome", strand=Strand.PLUS),
        "strand_minus": Parent(id="chrA", sequence_type="chromosome", strand=Strand.MINUS),
        "strand_unstranded": Parent(id="chrA", sequence_type="chromosome", strand=Strand.UNSTRANDED),
    }
    for (n1, p1), (n2, p2) in itertools.product(parents.items(), parents.items()):
        for data_only in [False, True]:
            rec(
                f"append/{n1}/{n2}/{data_only}",
                lambda: show_seq(mk("ACGT", p1).append(mk("ttNN", p2), new_id="new", data_only=data_only)),
            )
    rec("append/alphabet_mismatch", lambda: show_seq(mk("ACGT").append(mk("ACGT", alphabet=Alphabet.NT_STRICT))))
    rec(
        "append/alphabet_mismatch_data_only",
        lambda: show_seq(mk("ACGT").append(mk("ACGT", alphabet=Alphabet.NT_STRICT), data_only=True)),
    )
    rec("append/type_mismatch", lambda: show_seq(mk("ACGT", type="a").append(mk("ACGT", type="b"))))
    rec("append/type_mismatch_data_only", lambda: show_seq(mk("ACGT", type="a").append(mk("ACGT", type="b"), None, True)))
    rec("append/type_same", lambda: show_seq(mk("ACGT", type="a", id="i1").append(mk("ACGT", type="a", id="i2"))))
    rec("append/empty", lambda: show_seq(mk("").append(mk(""))))
    rec("append/aa", lambda: show_seq(mk("MK*", alphabet=Alphabet.AA).append(mk("MK", alphabet=Alphabet.AA))))


def section_chunk(rng):
    """Locations on sequence chunks that themselves sit on a chromosome"""
    a = Alphabet.NT_EXTENDED_GAPPED
    for trial in range(8):
        chunk_len = rng.randint(15, 30)
        chunk_start = rng.randint(0, 50)
        data = random_seq(rng, a, chunk_len)
        for chunk_strand in [Strand.PLUS, Strand.MINUS]:

            def mk_parent():
                return seq_chunk_to_parent(data, "chrC", chunk_start, chunk_start + chunk_len, chunk_strand, a)

            for strand in [Strand.PLUS, Strand.MINUS]:
                st, en = random_blocks(rng, 4, chunk_len, False)
                for kind, mk in [
                    ("single", lambda: SingleInterval(st[0], en[-1], strand, parent=mk_parent())),
                    ("compound", lambda: CompoundInterval(st, en, strand, parent=mk_parent())),
                ]:
                    tag = f"chunk/{trial}/{chunk_strand.name}/{strand.name}/{kind}"
                    loc = mk()
                    rec(tag + "/loc", lambda: show_loc(loc))
                    rec(tag + "/extract", lambda: show_seq(loc.extract_sequence()))
                    rec(tag + "/rc_extract", lambda: show_seq(loc.reverse_strand().extract_sequence()))
                    rec(
                        tag + "/lift",
                        lambda: show_loc(loc.lift_over_to_first_ancestor_of_type(SequenceType.CHROMOSOME)),
                    )
                    rec(
                        tag + "/lift_chunk",
                        lambda: show_loc(loc.lift_over_to_first_ancestor_of_type(SequenceType.SEQUENCE_CHUNK)),
                    )
                    n = len(loc)
                    for i, j in sorted({(0, n), (1, n - 1), (0, 1), (n - 1, n), (n // 2, n // 2), (n, n), (2, 1)}):
                        for rs in [Strand.PLUS, Strand.MINUS]:
                            rec(
                                tag + f"/sub/{i}/{j}/{rs.name}",
                                lambda: _loc_and_seq(loc.relative_interval_to_parent_location(i, j, rs)),
                            )
                    chunk_seq = mk_parent().sequence
                    for k in [slice(None), slice(2, 9), slice(-4, None), 3, -1, slice(5, 2)]:
                        rec(tag + f"/chunkseq_slice/{k!r}", lambda: show_seq(chunk_seq[k]))
                    rec(tag + "/chunkseq_rc", lambda: show_seq(chunk_seq.reverse_complement()))
                    rec(tag + "/chunkseq_append", lambda: show_seq(chunk_seq[:5].append(chunk_seq[5:])))


def section_no_parent():
    for strand in Strand:
        rec(f"noparent/single/{strand.name}", lambda: show_seq(SingleInterval(0, 3, strand).extract_sequence()))
        rec(
            f"noparent/single_idparent/{strand.name}",
            lambda: show_seq(SingleInterval(0, 3, strand, parent="chr").extract_sequence()),
        )
        rec(
            f"noparent/compound/{strand.name}",
            lambda: show_seq(CompoundInterval([0, 5], [3, 7], strand).extract_sequence()),
        )
        rec(
            f"noparent/compound_idparent/{strand.name}",
            lambda: show_seq(CompoundInterval([0, 5], [3, 7], strand, parent="chr").extract_sequence()),
        )
        rec(f"noparent/scan/{strand.name}", lambda: str(list(CompoundInterval([0, 5], [3, 7], strand).scan_blocks())))
    rec("noparent/empty", lambda: show_seq(EmptyLocation().extract_sequence()))
    # AA parent: minus strand cannot be reverse complemented
    aa = Sequence("MKLV*", Alphabet.AA)
    for strand in Strand:
        rec(f"noparent/aa/{strand.name}", lambda: show_seq(SingleInterval(1, 4, strand, parent=aa).extract_sequence()))
        rec(
            f"noparent/aa_compound/{strand.name}",
            lambda: show_seq(CompoundInterval([0, 3], [2, 5], strand, parent=aa).extract_sequence()),
        )


# parameters that a refactoring adds on purpose (new, trailing, optional, default = the old behaviour):
# {qualified name: {parameter: repr of the required default}}
ADDED_OPTIONAL_PARAMETERS = {"Sequence.summary": {"max_inline_length": "20"}}


def section_api():
    """Public surface: signatures of every public callable of the anchored classes, instance layout"""
    import inspect

    for cls in [Sequence, SingleInterval, CompoundInterval, type(EmptyLocation()), Alphabet, Strand]:
        for name, member in sorted(vars(cls).items()):
            if name.startswith("_") and name not in ("__init__", "__getitem__"):
                continue
            func = member.__func__ if isinstance(member, (staticmethod, classmethod)) else member
            if isinstance(func, property):
                RESULTS[f"api/{cls.__name__}/{name}"] = "property"
                continue
            if not inspect.isfunction(func):
                continue
            qualname = f"{cls.__name__}.{name}"
            params = []
            for param in inspect.signature(func).parameters.values():
                added = ADDED_OPTIONAL_PARAMETERS.get(qualname, {})
                if param.name in added:
                    assert repr(param.default) == added[param.name], (qualname, param)
                    assert param.name == list(inspect.signature(func).parameters)[-1], (qualname, param)
                    continue
                default = "" if param.default is inspect.Parameter.empty else f"={param.default!r}"
                params.append(f"{param.kind.name}:{param.name}{default}")
            RESULTS[f"api/{qualname}"] = type(member).__name__ + "(" + ", ".join(params) + ")"
    chrom = Sequence("ACGTACGT", Alphabet.NT_STRICT, id="c")
    for label, obj in [
        ("single", SingleInterval(0, 3, Strand.PLUS, parent=chrom)),
        ("compound", CompoundInterval([0, 5], [3, 7], Strand.MINUS, parent=chrom)),
        ("empty", EmptyLocation()),
        ("sequence", chrom),
        ("parent", Parent(sequence=chrom)),
    ]:
        RESULTS[f"api/layout/{label}"] = str(hasattr(obj, "__dict__")) + str(sorted(getattr(obj, "__dict__", {})))
    # R2 adds summary(max_inline_length=20): passing the default explicitly must give what summary() gives
    has_new_parameter = "max_inline_length" in inspect.signature(Sequence.summary).parameters
    for data in ["", "ACGT", "ACGT" * 5, "ACGT" * 5 + "A", "ACGT" * 10]:
        for seq_id in [None, "", "named"]:
            seq = Sequence(data, Alphabet.NT_STRICT, id=seq_id)
            explicit = seq.summary(max_inline_length=20) if has_new_parameter else seq.summary()
            RESULTS[f"api/summary/{len(data)}/{seq_id!r}"] = str(explicit == seq.summary()) + repr(seq)
    # sets and sorting of locations / sequences
    a = SingleInterval(0, 3, Strand.PLUS, parent=chrom)
    b = SingleInterval(0, 3, Strand.PLUS, parent=chrom)
    c = CompoundInterval([0, 5], [3, 7], Strand.MINUS, parent=chrom)
    rec("api/hash_eq", lambda: str((a == b, hash(a) == hash(b), len({a, b}), c == c.reverse_strand().reverse_strand())))
    rec("api/sorted", lambda: str(sorted([SingleInterval(5, 6, Strand.MINUS), SingleInterval(0, 9, Strand.PLUS), a])))
    rec(
        "api/union",
        lambda: str(
            [
                _safe(lambda x=x, y=y: show_loc(x.union(y)))
                for x, y in [
                    (c, CompoundInterval([2, 6], [4, 8], Strand.MINUS, parent=chrom)),
                    (c, SingleInterval(1, 6, Strand.MINUS, parent=chrom)),
                    (c, CompoundInterval([2, 9], [4, 12], Strand.MINUS, parent=chrom.id)),
                    (c.reset_parent(None), CompoundInterval([2, 9], [4, 12], Strand.MINUS)),
                    (c.reset_parent(None), SingleInterval(2, 6, Strand.MINUS)),
                    (c.reset_parent(None), SingleInterval(3, 4, Strand.MINUS)),
                    (c.reset_parent(None), SingleInterval(10, 14, Strand.MINUS)),
                    (SingleInterval(3, 4, Strand.MINUS), c.reset_parent(None)),
                    (CompoundInterval([0, 2, 10], [5, 6, 12], Strand.PLUS), SingleInterval(4, 11, Strand.PLUS)),
                ]
            ]
        ),
    )
    rec("api/merge_overlapping", lambda: show_loc(CompoundInterval([0, 2, 10], [5, 6, 12], Strand.PLUS).merge_overlapping()))
    rec("api/reverse", lambda: show_loc(CompoundInterval([0, 2, 10], [5, 6, 12], Strand.PLUS, parent=chrom.id).reverse()))


def main():
    mode = sys.argv[1]
    if mode == "dump":
        rng = random.Random(20261003)
        section_api()
        section_alphabet()
        section_sequence_basic(rng)
        section_extract_and_slice(rng)
        section_append(rng)
        section_chunk(rng)
        section_no_parent()
        with open(sys.argv[2], "w") as fh:
            json.dump(RESULTS, fh, indent=0, sort_keys=True)
        n_exc = sum(1 for v in RESULTS.values() if v.startswith("EXC"))
        print("package under test:", os.path.dirname(inscripta.biocantor.location.__file__))
        print(f"{len(RESULTS)} observations written ({n_exc} of them exceptions)")
    elif mode == "compare":
        with open(sys.argv[2]) as fh:
            left = json.load(fh)
        with open(sys.argv[3]) as fh:
            right = json.load(fh)
        bad = [k for k in sorted(set(left) | set(right)) if left.get(k) != right.get(k)]
        for k in bad[:20]:
            print("DIFF", k, "\n   ", left.get(k), "\n   ", right.get(k))
        print(f"{len(left)} vs {len(right)} observations, {len(bad)} differences")
        sys.exit(1 if bad else 0)


if __name__ == "__main__":
    main()
