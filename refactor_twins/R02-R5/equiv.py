"""Equivalence harness for the location set algebra (property C02).

Usage (from the worktree root):
    /venv/bin/python _refactor/R1/equiv.py dump /tmp/out_pristine.json      # on pristine code
    (apply patch)
    /venv/bin/python _refactor/R1/equiv.py dump /tmp/out_patched.json
    /venv/bin/python _refactor/R1/equiv.py compare /tmp/out_pristine.json /tmp/out_patched.json

Every call is recorded as a description of the returned object (type, str, strand, parent repr, blocks, length)
or of the raised exception (type name + message).
"""
import hashlib
import itertools
import json
import os
import sys

sys.path.insert(0, os.getcwd())  # run from the worktree root

import inscripta.biocantor.location  # noqa: F401  (must be first: circular import otherwise)
from inscripta.biocantor import DistanceType
from inscripta.biocantor.location.location_impl import (
    SingleInterval,
    CompoundInterval,
    EmptyLocation,
    _union_preserve_overlaps,
)
from inscripta.biocantor.location.location import Location
from inscripta.biocantor.location.strand import Strand
from inscripta.biocantor.parent import Parent
from inscripta.biocantor.sequence import Sequence
from inscripta.biocantor.sequence.alphabet import Alphabet
from inscripta.biocantor.util.object_validation import ObjectValidation

GENOME = "ACGTTGCAAGGCTTAACCGT"  # 20 nt


def seq_parent(pid="chr1", seq=GENOME):
    return Parent(id=pid, sequence=Sequence(seq, Alphabet.NT_EXTENDED_GAPPED), sequence_type="chromosome")


def chunk_parent():
    """A sequence chunk (positions 2-18 of a 30nt chromosome), as built by io.parser.seq_to_parent"""
    return Parent(
        id="chr1:2-18",
        sequence=Sequence(
            GENOME[:16],
            Alphabet.NT_EXTENDED_GAPPED,
            type="sequence_chunk",
            parent=Parent(
                location=SingleInterval(
                    2, 18, Strand.PLUS, parent=Parent(id="chr1", sequence_type="chromosome")
                ),
                sequence_type="chromosome",
            ),
        ),
        sequence_type="sequence_chunk",
    )


def describe(x, depth=0):
    if isinstance(x, Location):
        if type(x).__name__ == "_EmptyLocation":
            return "EmptyLocation"
        d = {
            "t": type(x).__name__,
            "str": str(x),
            "repr": repr(x),
            "strand": x.strand.name,
            "start": x.start,
            "end": x.end,
            "len": len(x),
            "parent": repr(x.parent),
        }
        try:
            d["blocks"] = [repr(b) for b in x.blocks]
        except Exception as e:  # out-of-bounds blocks are only detected lazily
            d["blocks"] = f"EXC {type(e).__name__}: {e}"
        return d
    if isinstance(x, (list, tuple)):
        return [describe(y) for y in x]
    if isinstance(x, (bool, int, str)) or x is None:
        return x
    return repr(x)


def call(f, *args, **kwargs):
    try:
        r = f(*args, **kwargs)
        if hasattr(r, "__next__"):
            r = list(r)
        return describe(r)
    except Exception as e:
        return f"EXC {type(e).__name__}: {e}"


def build_locations():
    locs = []
    parents = {
        "none": None,
        "seq": seq_parent(),
        "noseq": Parent(id="chr1", sequence_type="chromosome"),
        "other": seq_parent("chr2"),
        "str": "chr1",
    }
    single_coords = [(0, 0), (0, 5), (3, 8), (5, 5), (5, 10), (8, 12), (10, 20), (0, 20), (7, 8)]
    compound_coords = [
        ([0, 6], [3, 9]),
        ([2, 5, 12], [5, 8, 15]),  # adjacent blocks
        ([1, 4, 10], [6, 8, 14]),  # overlapping blocks
        ([0, 3, 3, 9], [2, 3, 7, 9]),  # empty blocks
        ([4, 4], [4, 4]),  # only empty blocks
        ([0, 2], [20, 6]),  # nested block
        ([15, 0, 8], [20, 4, 11]),  # unsorted
        ([3], [9]),  # single block compound
        ([0, 10, 18], [1, 11, 20]),
    ]
    for pname, strand in itertools.product(["none", "seq"], list(Strand)):
        for s, e in single_coords:
            locs.append((f"S{s}-{e}{strand.name[0]}@{pname}", SingleInterval(s, e, strand, parents[pname])))
        for starts, ends in compound_coords:
            locs.append(
                (f"C{starts}{ends}{strand.name[0]}@{pname}", CompoundInterval(starts, ends, strand, parents[pname]))
            )
    # fewer locations for the remaining parent kinds
    for pname in ["noseq", "other", "str"]:
        for strand in [Strand.PLUS, Strand.MINUS]:
            locs.append((f"S3-8{strand.name[0]}@{pname}", SingleInterval(3, 8, strand, parents[pname])))
            locs.append(
                (
                    f"C2-5-12{strand.name[0]}@{pname}",
                    CompoundInterval([2, 5, 12], [5, 8, 15], strand, parents[pname]),
                )
            )
    # chunk-relative locations
    for strand in [Strand.PLUS, Strand.MINUS]:
        locs.append((f"S3-8{strand.name[0]}@chunk", SingleInterval(3, 8, strand, chunk_parent())))
        locs.append((f"C1-4-10{strand.name[0]}@chunk", CompoundInterval([1, 6, 10], [4, 8, 14], strand, chunk_parent())))
    # a compound location past the end of the parent sequence (only detected lazily)
    locs.append(("Coob@seq", CompoundInterval([0, 2], [25, 6], Strand.PLUS, seq_parent())))
    locs.append(("Coob-@seq", CompoundInterval([0, 2], [25, 6], Strand.MINUS, seq_parent())))
    locs.append(("Empty", EmptyLocation()))
    return locs


FLAGS = list(itertools.product([False, True], repeat=3))


def unary(name, loc, out):
    def rec(op, val):
        out[f"U|{name}|{op}"] = val

    for attr in [
        "is_contiguous",
        "is_empty",
        "is_overlapping",
        "num_blocks",
        "blocks",
        "_full_span_interval",
        "start",
        "end",
        "length",
        "parent_id",
        "parent_type",
    ]:
        rec(attr, call(getattr, loc, attr))
    for meth in [
        "optimize_blocks",
        "optimize_and_combine_blocks",
        "gap_list",
        "gaps_location",
        "merge_overlapping",
        "reverse",
        "reverse_strand",
        "scan_blocks",
        "extract_sequence",
        "to_biopython",
        "__str__",
        "__repr__",
        "__hash__",
    ]:
        if hasattr(loc, meth):
            if meth == "__hash__":
                # hash of str/enum differs between processes; only record success/failure
                rec(meth, call(lambda: isinstance(hash(loc), int)))
            else:
                rec(meth, call(getattr(loc, meth)))
    if type(loc) is CompoundInterval:
        # private block combiner, called the way the pristine code calls it (one argument, by keyword or position)
        rec("_combine_blocks_T", call(loc._combine_blocks, True))
        rec("_combine_blocks_F", call(loc._combine_blocks, False))
        rec("_combine_blocks_kwT", call(loc._combine_blocks, preserve_overlappers=True))
        rec("_to_single_if_one", call(loc._to_single_interval_if_one_block))
        rec("_single_intervals", call(lambda: loc._single_intervals))
        rec("sorted_blocks", call(lambda: sorted(loc.blocks, reverse=True)))
    for strand in Strand:
        rec(f"reset_strand{strand.name}", call(loc.reset_strand, strand))
    rec("reset_parentNone", call(loc.reset_parent, None))
    rec("reset_parentSeq", call(loc.reset_parent, seq_parent()))
    for shift in [-3, 0, 2, 7]:
        rec(f"shift{shift}", call(loc.shift_position, shift))
    for a, b in [(0, 0), (2, 0), (0, 3), (2, 3), (-1, 2), (1, -2), (30, 1), (1, 30)]:
        rec(f"extend_absolute{a},{b}", call(loc.extend_absolute, a, b))
        rec(f"extend_relative{a},{b}", call(loc.extend_relative, a, b))
    for pos in range(-1, 22):
        rec(f"p2r{pos}", call(loc.parent_to_relative_pos, pos))
        rec(f"r2p{pos}", call(loc.relative_to_parent_pos, pos))
    n = call(len, loc)
    n = n if isinstance(n, int) else 0
    for rs in range(-1, n + 2):
        for re_ in range(rs - 1, n + 2):
            if (re_ - rs) in (-1, 0, 1, 2, 5, n) or re_ == n:
                for strand in Strand:
                    rec(
                        f"ri2pl{rs},{re_},{strand.name}",
                        call(loc.relative_interval_to_parent_location, rs, re_, strand),
                    )
    for w, s, st in [(1, 1, 0), (3, 2, 0), (3, 3, 1), (5, 1, 2), (0, 1, 0), (2, 0, 0), (100, 1, 0), (2, 2, 50)]:
        rec(f"scan_windows{w},{s},{st}", call(lambda: list(loc.scan_windows(w, s, st))))
    for t in ["chromosome", "sequence_chunk", "nope"]:
        rec(f"has_anc{t}", call(loc.has_ancestor_of_type, t))
        rec(f"first_anc{t}", call(loc.first_ancestor_of_type, t))
        rec(f"lift{t}", call(loc.lift_over_to_first_ancestor_of_type, t))


def binary(n1, l1, n2, l2, out):
    def rec(op, val):
        out[f"B|{n1}|{n2}|{op}"] = val

    for ms, fs, sp in FLAGS:
        tag = f"{int(ms)}{int(fs)}{int(sp)}"
        rec(f"has_overlap{tag}", call(l1.has_overlap, l2, match_strand=ms, full_span=fs, strict_parent_compare=sp))
        rec(f"intersection{tag}", call(l1.intersection, l2, match_strand=ms, full_span=fs, strict_parent_compare=sp))
        rec(f"contains{tag}", call(l1.contains, l2, match_strand=ms, full_span=fs, strict_parent_compare=sp))
        if not fs:
            rec(f"minus{tag}", call(l1.minus, l2, match_strand=ms, strict_parent_compare=sp))
    # defaults and positional calls
    rec("has_overlap_d", call(l1.has_overlap, l2))
    rec("intersection_d", call(l1.intersection, l2))
    rec("contains_d", call(l1.contains, l2))
    rec("minus_d", call(l1.minus, l2))
    rec("has_overlap_pos", call(l1.has_overlap, l2, True, True))
    # non-bool flag values take the same branches as before ("is True"/"is False" tests)
    rec("intersection_fs1", call(l1.intersection, l2, 1, 1))
    rec("intersection_fsNone", call(l1.intersection, l2, True, None))
    rec("contains_fs0", call(l1.contains, l2, False, 0))
    rec("union", call(l1.union, l2))
    rec("union_po", call(l1.union_preserve_overlaps, l2))
    rec("union_po_fn", call(_union_preserve_overlaps, l1, l2))
    for dt in DistanceType:
        rec(f"distance{dt.name}", call(l1.distance_to, l2, dt))
    rec("distance_d", call(l1.distance_to, l2))
    rec("distance_bad", call(l1.distance_to, l2, "inner"))
    rec("eq", call(lambda: l1 == l2))
    rec("lt", call(lambda: l1 < l2))
    rec("le", call(lambda: l1 <= l2))
    rec("gt", call(lambda: l1 > l2))
    rec("ne", call(lambda: l1 != l2))
    rec("hash_eq", call(lambda: hash(l1) == hash(l2)))
    if type(l1) is SingleInterval and type(l2) is SingleInterval:
        rec("_has_overlap_si", call(l1._has_overlap_single_interval, l2))
        rec("_intersection_si", call(l1._intersection_single_interval, l2))
        rec("_union_si", call(l1._union_single_interval, l2))
        for dt in DistanceType:
            rec(f"_distance_si{dt.name}", call(l1._distance_to_single_interval, l2, dt))
    if type(l1) is CompoundInterval and type(l2) is CompoundInterval:
        for ms in (False, True):
            for fs in (False, True, None):
                rec(f"_intersection_ci{ms}{fs}", call(l1._intersection_compound_interval, l2, ms, fs))
        rec("_union_ci", call(l1._union_compound_interval, l2))
    if type(l1) is CompoundInterval and type(l2) is SingleInterval:
        for ms in (False, True):
            for fs in (False, True, 0):
                rec(f"_intersection_csi{ms}{fs}", call(l1._intersection_single_interval, l2, ms, fs))
        rec("_union_csi", call(l1._union_single_interval, l2))
    rec("compare", call(lambda: int(l1.compare(l2)) if hasattr(l1, "compare") else "n/a"))
    rec("lrt1", call(l1.location_relative_to, l2))
    rec("lrt0", call(l1.location_relative_to, l2, optimize_blocks=False))
    rec("p2rl1", call(l1.parent_to_relative_location, l2))
    rec("p2rl0", call(l1.parent_to_relative_location, l2, optimize_blocks=False))
    rec("req_par", call(ObjectValidation.require_parents_equal_except_location, l1.parent, l2.parent))
    rec("req_ovl", call(ObjectValidation.require_locations_overlap, l1, l2))
    rec("req_ovl_ms", call(ObjectValidation.require_locations_overlap, l1, l2, match_strand=True))
    rec("req_novl", call(ObjectValidation.require_locations_do_not_overlap, l1, l2))
    rec("req_same_par", call(ObjectValidation.require_locations_have_same_nonempty_parent, l1, l2))


def constructors(out):
    par = seq_parent()
    cases = [
        (-1, 5),
        (5, 3),
        (0, 21),
        (0, 20),
        (20, 20),
    ]
    for s, e in cases:
        for p in [None, par, "chr1"]:
            out[f"K|S{s},{e},{p is not None and type(p).__name__}"] = call(SingleInterval, s, e, Strand.PLUS, p)
    ccases = [
        ([], []),
        ([1], []),
        ([1, 2], [3]),
        ([-1, 3], [2, 5]),
        ([3, -1], [2, 5]),
        ([5, 1], [2, 3]),
        ([5, -2], [2, 3]),
        ([0, 10], [5, 30]),
        ((0, 10), (5, 12)),
        ([3, 3, 1], [9, 5, 4]),
    ]
    for starts, ends in ccases:
        for strand in Strand:
            for p in [None, par, "chr1", Parent(id="chr1", location=SingleInterval(0, 3, Strand.PLUS))]:
                out[f"K|C{starts},{ends},{strand.name},{repr(p)[:40]}"] = call(
                    CompoundInterval, starts, ends, strand, p
                )
    ivs = [SingleInterval(0, 3, Strand.PLUS), SingleInterval(5, 8, Strand.PLUS)]
    out["K|fsi_ok"] = call(CompoundInterval.from_single_intervals, ivs)
    out["K|fsi_empty"] = call(CompoundInterval.from_single_intervals, [])
    # the message prints a set of strands / ids, whose order depends on the hash seed: keep the fixed prefix
    out["K|fsi_strand"] = call(
        CompoundInterval.from_single_intervals, [SingleInterval(0, 3, Strand.PLUS), SingleInterval(5, 8, Strand.MINUS)]
    )[:55]
    mixed = call(
        CompoundInterval.from_single_intervals,
        [SingleInterval(0, 3, Strand.PLUS, par), SingleInterval(5, 8, Strand.PLUS, seq_parent("chr2"))],
    )
    # the message lists a set of ids, whose order depends on the hash seed
    out["K|fsi_parent"] = mixed[:60] if isinstance(mixed, str) else mixed
    out["K|fsi_parent_ok"] = call(
        CompoundInterval.from_single_intervals,
        [SingleInterval(0, 3, Strand.MINUS, par), SingleInterval(5, 8, Strand.MINUS, par)],
    )
    out["K|sort+"] = call(CompoundInterval._sort_starts_ends, [5, 1, 1], [9, 4, 7], Strand.PLUS)
    out["K|sort-"] = call(CompoundInterval._sort_starts_ends, [5, 1, 1], [9, 4, 7], Strand.MINUS)
    out["K|sort."] = call(CompoundInterval._sort_starts_ends, [5, 1, 1], [9, 4, 7], Strand.UNSTRANDED)
    out["K|merge_blocks"] = call(CompoundInterval._merge_compound_blocks, ivs + [SingleInterval(2, 6, Strand.PLUS)])
    out["K|merge_blocks_empty"] = call(CompoundInterval._merge_compound_blocks, [])
    for t in [SingleInterval, CompoundInterval, int]:
        out[f"K|req_type{t.__name__}"] = call(ObjectValidation.require_object_has_type, ivs[0], t)
    out["K|req_nonempty0"] = call(ObjectValidation.require_location_nonempty, SingleInterval(3, 3, Strand.PLUS))
    out["K|req_nonempty1"] = call(ObjectValidation.require_location_nonempty, ivs[0])
    out["K|req_has_parent"] = call(ObjectValidation.require_location_has_parent, ivs[0])
    out["K|req_has_parent_seq"] = call(
        ObjectValidation.require_location_has_parent_with_sequence, SingleInterval(0, 3, Strand.PLUS, "chr1")
    )
    out["K|empty_singleton"] = EmptyLocation() is EmptyLocation()


def main_dump(path):
    out = {}
    locs = build_locations()
    constructors(out)
    for name, loc in locs:
        unary(name, loc, out)
    for (n1, l1), (n2, l2) in itertools.product(locs, repeat=2):
        binary(n1, l1, n2, l2, out)
    digest = {k: hashlib.md5(json.dumps(v, sort_keys=True, default=str).encode()).hexdigest()[:12] for k, v in out.items()}
    # keep the full text of a sample so that differences can be inspected
    with open(path, "w") as fh:
        json.dump({"digest": digest, "full": {k: json.dumps(v, default=str)[:300] for k, v in out.items()}}, fh)
    n_exc = sum(1 for v in out.values() if isinstance(v, str) and v.startswith("EXC"))
    print(f"{len(locs)} locations, {len(out)} recorded calls ({n_exc} raising) -> {path}")


def main_compare(a, b):
    da = json.load(open(a))
    db = json.load(open(b))
    keys_a, keys_b = set(da["digest"]), set(db["digest"])
    bad = sorted(k for k in keys_a & keys_b if da["digest"][k] != db["digest"][k])
    print(f"only in A: {len(keys_a - keys_b)}; only in B: {len(keys_b - keys_a)}; differing: {len(bad)}")
    for k in bad[:25]:
        print(k, "\n   A:", da["full"][k], "\n   B:", db["full"][k])
    ok = not bad and keys_a == keys_b
    print("EQUIVALENT" if ok else "DIFFERENT", f"({len(keys_a)} calls compared)")
    return 0 if ok else 1


if __name__ == "__main__":
    if sys.argv[1] == "dump":
        main_dump(sys.argv[2])
    else:
        sys.exit(main_compare(sys.argv[2], sys.argv[3]))
