"""Equivalence script for property C03 refactorings.

Usage (from the worktree root):
    /venv/bin/python _refactor/RN/equiv.py dump _refactor/tmp/pristine.json     # on the pristine checkout
    git apply _refactor/RN/patch.diff
    /venv/bin/python _refactor/RN/equiv.py dump _refactor/tmp/patched.json
    /venv/bin/python _refactor/RN/equiv.py compare _refactor/tmp/pristine.json _refactor/tmp/patched.json

It exercises SingleInterval.extract_sequence, CompoundInterval.extract_sequence, Sequence.__getitem__,
Sequence.reverse_complement, Sequence.append, Alphabet.is_nucleotide_alphabet and the
ALPHABET_TO_NUCLEOTIDE_COMPLEMENT table on deterministic pseudo-random inputs and records
str/repr of results (or exception type + message).
"""
import json
import random
import os
import sys

sys.path.insert(0, os.getcwd())  # run from the worktree root so that the checkout under test is imported

import inscripta.biocantor.location  # noqa: F401,E402  (must be first: circular import otherwise)
from inscripta.biocantor.location.location_impl import SingleInterval, CompoundInterval, _EmptyLocation
from inscripta.biocantor.location.strand import Strand
from inscripta.biocantor.parent import Parent
from inscripta.biocantor.sequence import Sequence
from inscripta.biocantor.sequence.alphabet import Alphabet, ALPHABET_TO_NUCLEOTIDE_COMPLEMENT

RESULTS = {}


def describe(obj):
    """A stable, detailed description of a result object."""
    if isinstance(obj, Sequence):
        d = {
            "kind": "Sequence",
            "str": str(obj),
            "repr": repr(obj),
            "len": len(obj),
            "id": obj.id,
            "type": repr(obj.sequence_type),
            "alphabet": obj.alphabet.name,
            "parent": repr(obj.parent),
            "parent_strand": repr(obj.parent_strand),
            "loc": repr(obj.location_on_parent),
            "loc_type": type(obj.location_on_parent).__name__,
        }
        loc = obj.location_on_parent
        if loc is not None and not isinstance(loc, _EmptyLocation):
            d["loc_blocks"] = [(type(b.start).__name__, b.start, b.end, str(b.strand)) for b in loc.blocks]
        return d
    if isinstance(obj, (list, tuple)):
        return [describe(x) for x in obj]
    if isinstance(obj, dict):
        return {str(k): describe(v) for k, v in obj.items()}
    if isinstance(obj, (int, str, bool)) or obj is None:
        return obj
    return repr(obj)


def record(name, thunk):
    assert name not in RESULTS, name
    try:
        RESULTS[name] = {"ok": describe(thunk())}
    except Exception as e:  # noqa
        RESULTS[name] = {
            "exc": type(e).__name__,
            "msg": str(e),
            "cause": repr(e.__cause__),
            "context": type(e.__context__).__name__ if e.__context__ is not None else None,
            "suppress": e.__suppress_context__,
        }


NT_ALPHABETS = [
    Alphabet.NT_STRICT,
    Alphabet.NT_EXTENDED,
    Alphabet.NT_STRICT_GAPPED,
    Alphabet.NT_EXTENDED_GAPPED,
    Alphabet.NT_STRICT_UNKNOWN,
]


def rand_seq_data(rng, alphabet, n):
    chars = alphabet.value + alphabet.value.lower()
    return "".join(rng.choice(chars) for _ in range(n))


def make_parents(rng, alphabet, n, tag):
    """Returns a list of (label, parent) with sequence: a plain one and two chunk parents."""
    data = rand_seq_data(rng, alphabet, n)
    plain = Parent(id=f"chr_{tag}", sequence=Sequence(data, alphabet, id=f"chr_{tag}", type="chromosome"))
    out = [("plain", plain)]
    for cstrand in (Strand.PLUS, Strand.MINUS):
        chunk_start = rng.randint(0, 500)
        chunk = Parent(
            id=f"chunk_{tag}",
            sequence=Sequence(
                data,
                alphabet,
                type="sequence_chunk",
                parent=Parent(
                    id=f"chr_{tag}",
                    sequence_type="chromosome",
                    location=SingleInterval(chunk_start, chunk_start + n, cstrand),
                ),
            ),
        )
        out.append((f"chunk{cstrand}", chunk))
    # untyped bare sequence given directly as parent
    out.append(("bareseq", Sequence(data, alphabet)))
    return out


def rand_blocks(rng, n, nblocks, allow_touch=True):
    """Sorted non-overlapping blocks inside [0, n)."""
    pts = sorted(rng.sample(range(0, n + 1), 2 * nblocks)) if not allow_touch else sorted(
        rng.randint(0, n) for _ in range(2 * nblocks)
    )
    starts = pts[0::2]
    ends = pts[1::2]
    return starts, ends


SLICE_KEYS = [
    0,
    1,
    -1,
    -2,
    3,
    10 ** 6,
    -(10 ** 6),
    slice(None, None),
    slice(0, 0),
    slice(1, None),
    slice(None, -1),
    slice(2, 5),
    slice(-4, -1),
    slice(-3, None),
    slice(5, 2),
    slice(0, 10 ** 6),
    slice(-(10 ** 6), 3),
    slice(None, None, 2),
    slice(1, 7, 3),
    slice(None, None, -1),
    slice(6, 1, -2),
    slice(4, 4),
]


def key_name(k):
    return f"{k.start}:{k.stop}:{k.step}" if isinstance(k, slice) else str(k)


def exercise_sequence(name, seq, rng):
    """Slices, reverse complements and splits a Sequence."""
    for k in SLICE_KEYS:
        record(f"{name}|getitem[{key_name(k)}]", lambda k=k: seq[k])
    record(f"{name}|rc", lambda: seq.reverse_complement())
    record(f"{name}|rc_named", lambda: seq.reverse_complement(new_id="rcid", new_type="rctype"))
    record(f"{name}|rc_rc", lambda: seq.reverse_complement().reverse_complement())
    n = len(seq)
    if n >= 2:
        cut = rng.randint(0, n)
        record(f"{name}|split_append[{cut}]", lambda: seq[:cut].append(seq[cut:]))
        record(f"{name}|split_append_swapped[{cut}]", lambda: seq[cut:].append(seq[:cut]))
        record(f"{name}|split_append_data_only[{cut}]", lambda: seq[:cut].append(seq[cut:], new_id="x", data_only=True))
        record(f"{name}|split_append_newid[{cut}]", lambda: seq[:cut].append(seq[cut:], new_id="joined"))
        record(f"{name}|rc_slice", lambda: seq.reverse_complement()[1:-1])
        a, b = sorted((rng.randint(0, n), rng.randint(0, n)))
        record(f"{name}|slice_slice[{a}:{b}]", lambda: seq[a:b][1:])
        record(f"{name}|slice_rc[{a}:{b}]", lambda: seq[a:b].reverse_complement())


def section_alphabet():
    record(
        "alphabet|table",
        lambda: [
            (k.name, list(v.items()), type(v).__name__) for k, v in ALPHABET_TO_NUCLEOTIDE_COMPLEMENT.items()
        ],
    )
    record("alphabet|table_type", lambda: type(ALPHABET_TO_NUCLEOTIDE_COMPLEMENT).__name__)
    record(
        "alphabet|table_distinct_objects",
        lambda: len({id(v) for v in ALPHABET_TO_NUCLEOTIDE_COMPLEMENT.values()}),
    )
    record("alphabet|members", lambda: [(a.name, a.value) for a in Alphabet])
    record("alphabet|member_map", lambda: list(Alphabet.__members__))
    for a in Alphabet:
        record(f"alphabet|is_nt|{a.name}", lambda a=a: a.is_nucleotide_alphabet())
        record(f"alphabet|in_table|{a.name}", lambda a=a: a in ALPHABET_TO_NUCLEOTIDE_COMPLEMENT)


def section_extract(rng):
    for alphabet in NT_ALPHABETS + [Alphabet.AA, Alphabet.GENERIC]:
        for rep in range(2):
            n = rng.randint(30, 60)
            tag = f"{alphabet.name}_{rep}"
            for plabel, parent in make_parents(rng, alphabet, n, tag):
                base = f"extract|{tag}|{plabel}"
                # single intervals
                for i in range(4):
                    s, e = sorted((rng.randint(0, n), rng.randint(0, n)))
                    for strand in (Strand.PLUS, Strand.MINUS, Strand.UNSTRANDED):
                        loc_name = f"{base}|SI({s},{e},{strand})#{i}"
                        record(loc_name + "|ctor", lambda: repr(SingleInterval(s, e, strand, parent=parent)))
                        try:
                            loc = SingleInterval(s, e, strand, parent=parent)
                        except Exception:
                            continue
                        record(loc_name + "|seq", lambda: loc.extract_sequence())
                        record(loc_name + "|seq_again", lambda: loc.extract_sequence())
                        record(
                            loc_name + "|cached_identity",
                            lambda: loc.extract_sequence() is loc.extract_sequence(),
                        )
                        if strand is not Strand.UNSTRANDED:
                            record(
                                loc_name + "|reverse_strand_seq",
                                lambda: loc.reverse_strand().extract_sequence(),
                            )
                            try:
                                seq = loc.extract_sequence()
                            except Exception:
                                continue
                            if i < 2:
                                exercise_sequence(loc_name, seq, rng)
                # whole sequence + empty interval
                for strand in (Strand.PLUS, Strand.MINUS):
                    record(
                        f"{base}|whole({strand})",
                        lambda: SingleInterval(0, n, strand, parent=parent).extract_sequence(),
                    )
                    record(
                        f"{base}|empty({strand})",
                        lambda: SingleInterval(5, 5, strand, parent=parent).extract_sequence(),
                    )
                # compound intervals
                for i in range(4):
                    nblocks = rng.randint(1, 5)
                    starts, ends = rand_blocks(rng, n, nblocks, allow_touch=(i % 2 == 0))
                    for strand in (Strand.PLUS, Strand.MINUS, Strand.UNSTRANDED):
                        loc_name = f"{base}|CI({starts},{ends},{strand})#{i}"
                        record(loc_name + "|ctor", lambda: repr(CompoundInterval(starts, ends, strand, parent=parent)))
                        try:
                            loc = CompoundInterval(starts, ends, strand, parent=parent)
                        except Exception:
                            continue
                        record(loc_name + "|seq", lambda: loc.extract_sequence())
                        record(loc_name + "|seq_again", lambda: loc.extract_sequence())
                        record(
                            loc_name + "|block_seqs",
                            lambda: [b.extract_sequence() for b in loc.blocks],
                        )
                        record(
                            loc_name + "|single_block_identity",
                            lambda: loc.extract_sequence() is loc.blocks[0].extract_sequence(),
                        )
                        if strand is not Strand.UNSTRANDED:
                            record(
                                loc_name + "|reverse_strand_seq",
                                lambda: loc.reverse_strand().extract_sequence(),
                            )
                            record(
                                loc_name + "|scan_blocks_seqs",
                                lambda: [str(b.extract_sequence()) for b in loc.scan_blocks()],
                            )
                            try:
                                seq = loc.extract_sequence()
                            except Exception:
                                continue
                            if i < 2:
                                exercise_sequence(loc_name, seq, rng)
                # overlapping / unsorted blocks
                for strand in (Strand.PLUS, Strand.MINUS):
                    record(
                        f"{base}|CI_overlap({strand})",
                        lambda: CompoundInterval([2, 5, 20], [8, 12, 25], strand, parent=parent).extract_sequence(),
                    )
                    record(
                        f"{base}|CI_unsorted({strand})",
                        lambda: CompoundInterval([20, 2, 10], [25, 8, 12], strand, parent=parent).extract_sequence(),
                    )
                    record(
                        f"{base}|CI_adjacent({strand})",
                        lambda: CompoundInterval([2, 8, 12], [8, 12, 25], strand, parent=parent).extract_sequence(),
                    )

    # failure modes of extract_sequence
    for strand in (Strand.PLUS, Strand.MINUS, Strand.UNSTRANDED):
        record(f"extract|noparent|SI({strand})", lambda: SingleInterval(1, 5, strand).extract_sequence())
        record(
            f"extract|noparent|CI({strand})", lambda: CompoundInterval([1, 8], [5, 10], strand).extract_sequence()
        )
        record(
            f"extract|noseq|SI({strand})",
            lambda: SingleInterval(1, 5, strand, parent=Parent(id="p")).extract_sequence(),
        )
        record(
            f"extract|noseq|CI({strand})",
            lambda: CompoundInterval([1, 8], [5, 10], strand, parent="p").extract_sequence(),
        )
        record(
            f"extract|emptyseq|SI({strand})",
            lambda: SingleInterval(0, 0, strand, parent=Sequence("", Alphabet.NT_STRICT)).extract_sequence(),
        )


def section_sequence_direct(rng):
    # sequences without parent, with strand-only parent, with id/type, with bad characters
    for alphabet in list(Alphabet):
        for rep in range(2):
            n = rng.randint(0, 25) if rep else rng.randint(21, 40)
            data = rand_seq_data(rng, alphabet, n)
            base = f"direct|{alphabet.name}|{rep}"
            record(base + "|ctor", lambda: Sequence(data, alphabet))
            seq = Sequence(data, alphabet, id="sid", type="stype")
            exercise_sequence(base + "|noparent", seq, rng)
            for strand in (Strand.PLUS, Strand.MINUS, Strand.UNSTRANDED):
                seq_s = Sequence(data, alphabet, parent=Parent(id="par", strand=strand))
                exercise_sequence(base + f"|strandparent({strand})", seq_s, rng)
            seq_p = Sequence(data, alphabet, parent=Parent(id="par", sequence_type="ptype"))
            exercise_sequence(base + "|idparent", seq_p, rng)
            for strand in (Strand.PLUS, Strand.MINUS, Strand.UNSTRANDED):
                seq_l = Sequence(
                    data,
                    alphabet,
                    type="t",
                    parent=Parent(id="par", location=SingleInterval(7, 7 + n, strand)),
                )
                exercise_sequence(base + f"|locparent({strand})", seq_l, rng)
            if n >= 6:
                for strand in (Strand.PLUS, Strand.MINUS):
                    k = n // 3
                    seq_c = Sequence(
                        data,
                        alphabet,
                        parent=Parent(
                            id="par",
                            location=CompoundInterval([3, 50, 100], [3 + k, 50 + k, 100 + (n - 2 * k)], strand),
                        ),
                    )
                    exercise_sequence(base + f"|compoundparent({strand})", seq_c, rng)

    # characters missing from the complement table
    for alphabet in NT_ALPHABETS:
        for data in ["ACGTX", "XACGT", "AC?GT!", "acgtu", "ACGT-", "ACNGT", "A CGT", "ZQ", "AUG", "éACG"]:
            record(
                f"badchar|{alphabet.name}|{data!r}",
                lambda: Sequence(data, alphabet, validate_alphabet=False).reverse_complement(),
            )
            record(
                f"badchar_validate|{alphabet.name}|{data!r}",
                lambda: Sequence(data, alphabet),
            )
    for alphabet in Alphabet:
        record(f"rc_empty|{alphabet.name}", lambda: Sequence("", alphabet).reverse_complement())

    # exhaustive single-character complement for every alphabet
    for alphabet in NT_ALPHABETS:
        chars = alphabet.value + alphabet.value.lower()
        record(
            f"rc_all_chars|{alphabet.name}",
            lambda: str(Sequence(chars, alphabet).reverse_complement()),
        )
        for c in sorted(set(chars)):
            record(
                f"rc_char|{alphabet.name}|{c}",
                lambda: str(Sequence(c, alphabet, validate_alphabet=False).reverse_complement()),
            )


def section_append(rng):
    A = Alphabet.NT_STRICT

    def seq_at(data, start, strand, pid="par", stype=None, alphabet=A, ptype=None, with_loc=True, pstrand=None):
        if with_loc:
            parent = Parent(id=pid, sequence_type=ptype, location=SingleInterval(start, start + len(data), strand))
        else:
            parent = Parent(id=pid, sequence_type=ptype, strand=pstrand)
        return Sequence(data, alphabet, type=stype, parent=parent)

    cases = {
        "plus_ok": (seq_at("AAAC", 0, Strand.PLUS), seq_at("GGT", 10, Strand.PLUS)),
        "plus_adjacent": (seq_at("AAAC", 0, Strand.PLUS), seq_at("GGT", 4, Strand.PLUS)),
        "plus_overlap": (seq_at("AAAC", 0, Strand.PLUS), seq_at("GGT", 3, Strand.PLUS)),
        "plus_wrong_order": (seq_at("AAAC", 10, Strand.PLUS), seq_at("GGT", 0, Strand.PLUS)),
        "minus_ok": (seq_at("AAAC", 10, Strand.MINUS), seq_at("GGT", 0, Strand.MINUS)),
        "minus_adjacent": (seq_at("AAAC", 3, Strand.MINUS), seq_at("GGT", 0, Strand.MINUS)),
        "minus_overlap": (seq_at("AAAC", 2, Strand.MINUS), seq_at("GGT", 0, Strand.MINUS)),
        "minus_wrong_order": (seq_at("AAAC", 0, Strand.MINUS), seq_at("GGT", 10, Strand.MINUS)),
        "mixed_strands": (seq_at("AAAC", 0, Strand.PLUS), seq_at("GGT", 10, Strand.MINUS)),
        "mixed_strands2": (seq_at("AAAC", 10, Strand.MINUS), seq_at("GGT", 0, Strand.PLUS)),
        "unstranded": (seq_at("AAAC", 0, Strand.UNSTRANDED), seq_at("GGT", 10, Strand.UNSTRANDED)),
        "diff_parent_id": (seq_at("AAAC", 0, Strand.PLUS), seq_at("GGT", 10, Strand.PLUS, pid="other")),
        "diff_parent_type": (seq_at("AAAC", 0, Strand.PLUS, ptype="x"), seq_at("GGT", 10, Strand.PLUS, ptype="y")),
        "diff_seq_type": (seq_at("AAAC", 0, Strand.PLUS, stype="x"), seq_at("GGT", 10, Strand.PLUS, stype="y")),
        "same_seq_type": (seq_at("AAAC", 0, Strand.PLUS, stype="x"), seq_at("GGT", 10, Strand.PLUS, stype="x")),
        "diff_alphabet": (
            seq_at("AAAC", 0, Strand.PLUS),
            seq_at("GGT", 10, Strand.PLUS, alphabet=Alphabet.NT_EXTENDED),
        ),
        "no_parents": (Sequence("AAAC", A), Sequence("GGT", A)),
        "no_parents_ids": (Sequence("AAAC", A, id="a", type="t"), Sequence("GGT", A, id="b", type="t")),
        "self_noparent_other_parent": (Sequence("AAAC", A), seq_at("GGT", 10, Strand.PLUS)),
        "self_parent_other_noparent": (seq_at("AAAC", 0, Strand.PLUS), Sequence("GGT", A)),
        "strand_only_plus": (
            seq_at("AAAC", 0, None, with_loc=False, pstrand=Strand.PLUS),
            seq_at("GGT", 0, None, with_loc=False, pstrand=Strand.PLUS),
        ),
        "strand_only_minus": (
            seq_at("AAAC", 0, None, with_loc=False, pstrand=Strand.MINUS),
            seq_at("GGT", 0, None, with_loc=False, pstrand=Strand.MINUS),
        ),
        "strand_only_mixed": (
            seq_at("AAAC", 0, None, with_loc=False, pstrand=Strand.PLUS),
            seq_at("GGT", 0, None, with_loc=False, pstrand=Strand.MINUS),
        ),
        "strand_only_unstranded": (
            seq_at("AAAC", 0, None, with_loc=False, pstrand=Strand.UNSTRANDED),
            seq_at("GGT", 0, None, with_loc=False, pstrand=Strand.UNSTRANDED),
        ),
        "no_strand_parents": (
            seq_at("AAAC", 0, None, with_loc=False),
            seq_at("GGT", 0, None, with_loc=False),
        ),
        "loc_and_strand_only": (
            seq_at("AAAC", 0, Strand.PLUS),
            seq_at("GGT", 0, None, with_loc=False, pstrand=Strand.PLUS),
        ),
        "strand_only_and_loc": (
            seq_at("AAAC", 0, None, with_loc=False, pstrand=Strand.PLUS),
            seq_at("GGT", 10, Strand.PLUS),
        ),
        "empty_first": (seq_at("", 0, Strand.PLUS), seq_at("GGT", 10, Strand.PLUS)),
        "empty_second": (seq_at("AAAC", 0, Strand.PLUS), seq_at("", 10, Strand.PLUS)),
        "compound_first": (
            Sequence(
                "AAACCC",
                A,
                parent=Parent(id="par", location=CompoundInterval([0, 10], [3, 13], Strand.PLUS)),
            ),
            seq_at("GGT", 20, Strand.PLUS),
        ),
        "compound_interleaved": (
            Sequence(
                "AAACCC",
                A,
                parent=Parent(id="par", location=CompoundInterval([0, 30], [3, 33], Strand.PLUS)),
            ),
            seq_at("GGT", 20, Strand.PLUS),
        ),
        "compound_minus": (
            Sequence(
                "AAACCC",
                A,
                parent=Parent(id="par", location=CompoundInterval([20, 30], [23, 33], Strand.MINUS)),
            ),
            seq_at("GGT", 5, Strand.MINUS),
        ),
    }
    for name, (s1, s2) in cases.items():
        record(f"append|{name}", lambda: s1.append(s2))
        record(f"append|{name}|newid", lambda: s1.append(s2, new_id="nid"))
        record(f"append|{name}|newid_positional", lambda: s1.append(s2, "nid"))
        record(f"append|{name}|data_only", lambda: s1.append(s2, data_only=True))
        record(f"append|{name}|data_only_newid", lambda: s1.append(s2, new_id="nid", data_only=True))
        record(f"append|{name}|reversed_args", lambda: s2.append(s1))
        record(f"append|{name}|self", lambda: s1.append(s1))

    # random chains of appends from extracted blocks on a real parent
    for rep in range(10):
        alphabet = rng.choice(NT_ALPHABETS)
        n = rng.randint(40, 80)
        for plabel, parent in make_parents(rng, alphabet, n, f"app{rep}"):
            starts, ends = rand_blocks(rng, n, 4, allow_touch=False)
            for strand in (Strand.PLUS, Strand.MINUS):
                blocks = [SingleInterval(s, e, strand, parent=parent) for s, e in zip(starts, ends)]
                seqs = [b.extract_sequence() for b in blocks]
                name = f"append_chain|{rep}|{plabel}|{strand}|{starts}|{ends}"

                def chain(seqs):
                    acc = seqs[0]
                    for s in seqs[1:]:
                        acc = acc.append(s)
                    return acc

                record(name + "|forward", lambda: chain(seqs))
                record(name + "|backward", lambda: chain(seqs[::-1]))


def dump(path):
    print("testing", os.path.dirname(inscripta.biocantor.location.__file__))
    rng = random.Random(20260303)
    section_alphabet()
    section_extract(rng)
    section_sequence_direct(rng)
    section_append(rng)
    with open(path, "w") as f:
        json.dump(RESULTS, f, indent=0, sort_keys=True)
    n_exc = sum(1 for v in RESULTS.values() if "exc" in v)
    print(f"recorded {len(RESULTS)} observations ({n_exc} exceptions) -> {path}")


def compare(a, b):
    with open(a) as f:
        ra = json.load(f)
    with open(b) as f:
        rb = json.load(f)
    bad = [k for k in sorted(set(ra) | set(rb)) if ra.get(k) != rb.get(k)]
    for k in bad[:20]:
        print("DIFF", k, "\n   A:", ra.get(k), "\n   B:", rb.get(k))
    print(f"compared {len(ra)} vs {len(rb)} observations: {len(bad)} differences")
    return 1 if bad else 0


if __name__ == "__main__":
    if sys.argv[1] == "dump":
        dump(sys.argv[2])
    elif sys.argv[1] == "compare":
        sys.exit(compare(sys.argv[2], sys.argv[3]))
    else:
        raise SystemExit(__doc__)
