"""Equivalence script for BED12 export (property C14).

Usage (from the worktree root):
    /venv/bin/python _refactor/RX/equiv.py dump _refactor/tmp/pristine.json     # on pristine checkout
    git apply _refactor/RX/patch.diff
    /venv/bin/python _refactor/RX/equiv.py compare _refactor/tmp/pristine.json  # on patched checkout

Every case records str()/repr() of the BED12 object, the python types of its columns, or the
exception type + message, for TranscriptInterval.to_bed12 / FeatureInterval.to_bed12 in both coordinate
modes and for RGB/BED3/BED6/BED12.__str__ directly.
"""
import json
import os
import sys

sys.path.insert(0, os.getcwd())  # run from the worktree root so that the checkout under test is imported

import inscripta.biocantor.location  # noqa: F401,E402  (must come first: circular import otherwise)
from inscripta.biocantor.gene.cds_frame import CDSFrame
from inscripta.biocantor.gene.feature import FeatureInterval
from inscripta.biocantor.gene.transcript import TranscriptInterval
from inscripta.biocantor.io.bed import BED3, BED6, BED12, RGB
from inscripta.biocantor.location.location_impl import SingleInterval
from inscripta.biocantor.location.strand import Strand
from inscripta.biocantor.parent import Parent, SequenceType
from inscripta.biocantor.sequence.alphabet import Alphabet
from inscripta.biocantor.sequence.sequence import Sequence

GENOME = ("ACGTTGCAAGGCTTAACCGGATATCGCGTTAGGCCTAGCATGCATGGATCCAAGTCGATTGCAGT" * 2)[:100]


def seq_to_parent(seq, seq_id="chrT"):
    return Parent(
        sequence=Sequence(seq, Alphabet.NT_EXTENDED_GAPPED, type=SequenceType.CHROMOSOME, id=seq_id),
        location=SingleInterval(0, len(seq), Strand.PLUS),
    )


def seq_chunk_to_parent(seq, sequence_name, start, end, strand=Strand.PLUS):
    chunk_id = f"{sequence_name}:{start}-{end}"
    return Parent(
        id=chunk_id,
        sequence=Sequence(
            seq,
            Alphabet.NT_EXTENDED_GAPPED,
            id=chunk_id,
            type=SequenceType.SEQUENCE_CHUNK,
            parent=Parent(
                location=SingleInterval(
                    start,
                    end,
                    strand,
                    parent=Parent(id=sequence_name, sequence_type=SequenceType.CHROMOSOME),
                )
            ),
        ),
    )


# (exon_starts, exon_ends, cds_starts, cds_ends, cds_frames)
STRUCTURES = [
    ([2], [18], [5], [9], ["ZERO"]),
    ([2], [18], None, None, None),
    ([2, 7, 12], [6, 10, 15], [4, 7, 12], [6, 10, 13], ["ZERO", "TWO", "TWO"]),
    ([2, 7, 12], [6, 10, 15], None, None, None),
    ([10, 30, 50, 70], [20, 42, 61, 90], [14, 30, 50], [20, 42, 55], ["ZERO", "ZERO", "ZERO"]),
    ([10, 30, 50, 70], [20, 42, 61, 90], [33], [39], ["ONE"]),
    ([10, 30, 50, 70], [20, 42, 61, 90], None, None, None),
    ([0, 40], [25, 100], [0, 40], [25, 100], ["ZERO", "TWO"]),
    ([25], [30], None, None, None),
    ([5, 6 + 3, 20], [8, 15, 21], [7, 9], [8, 12], ["ZERO", "ONE"]),
]

# chunk windows: (start, end); None -> no parent, "chrom" -> full chromosome parent
WINDOWS = [None, "chrom", (0, 100), (1, 99), (2, 91), (5, 60), (10, 90), (12, 45), (35, 58), (0, 19), (28, 100),
           (95, 100), (21, 29), (62, 69)]


def make_parent(window):
    if window is None:
        return None
    if window == "chrom":
        return seq_to_parent(GENOME)
    s, e = window
    return seq_chunk_to_parent(GENOME[s:e], "chrT", s, e)


def describe(bed):
    cols = [
        bed.chrom,
        bed.start,
        bed.end,
        bed.name,
        bed.score,
        bed.strand,
        bed.thick_start,
        bed.thick_end,
        bed.item_rgb,
        bed.block_count,
        bed.block_sizes,
        bed.block_starts,
    ]
    return {
        "str": str(bed),
        "repr": repr(bed),
        "types": [type(c).__name__ for c in cols],
        "elem_types": [
            sorted({type(x).__name__ for x in bed.block_sizes}),
            sorted({type(x).__name__ for x in bed.block_starts}),
        ],
        "bed6_str": BED6.__str__(bed),
        "bed3_str": BED3.__str__(bed),
        "eq_self": bed == BED12(*cols),
    }


def attempt(fn):
    try:
        return fn()
    except Exception as e:  # noqa
        return {"exception": type(e).__name__, "message": str(e), "args": repr(e.args)}


CALLS = [
    ("default", (), {}),
    ("chunk", (), {"chromosome_relative_coordinates": False}),
    ("positional", (10, RGB(128, 128, 128), "guid", True), {}),
    ("positional_chunk", (999, RGB(1, 2, 3), "some free text", False), {}),
    ("kw_name_seq", (), {"name": "sequence_name", "score": None, "rgb": None}),
    ("kw_name_id_chunk", (), {"name": "id", "chromosome_relative_coordinates": False, "rgb": RGB()}),
    ("name_cds_start", (), {"name": "cds_start"}),
    ("name_chunk_cds_end_chunk", (), {"name": "chunk_relative_cds_end", "chromosome_relative_coordinates": False}),
    ("name_none", (), {"name": None}),
    ("name_none_chunk", (), {"name": None, "chromosome_relative_coordinates": False}),
    ("name_start", (), {"name": "start", "chromosome_relative_coordinates": 0}),
    ("truthy_mode", (), {"chromosome_relative_coordinates": "yes", "name": "strand"}),
]


def run():
    results = {}
    n_objects = 0
    for si, (ex_s, ex_e, cds_s, cds_e, frames) in enumerate(STRUCTURES):
        for strand in (Strand.PLUS, Strand.MINUS):
            for window in WINDOWS:
                key_base = f"s{si}|{strand.name}|{window}"

                def build_tx():
                    return TranscriptInterval(
                        list(ex_s),
                        list(ex_e),
                        strand,
                        cds_starts=list(cds_s) if cds_s else None,
                        cds_ends=list(cds_e) if cds_e else None,
                        cds_frames=[CDSFrame[f] for f in frames] if frames else None,
                        transcript_id=f"tid{si}",
                        transcript_symbol=f"sym{si}" if si % 2 else None,
                        sequence_name="chrT" if si % 3 else None,
                        parent_or_seq_chunk_parent=make_parent(window),
                    )

                def build_feat():
                    return FeatureInterval(
                        list(ex_s),
                        list(ex_e),
                        strand,
                        feature_name=f"feat{si}" if si % 2 == 0 else None,
                        feature_id=f"fid{si}",
                        feature_types=["promoter"],
                        sequence_name="chrT" if si % 3 != 1 else None,
                        parent_or_seq_chunk_parent=make_parent(window),
                    )

                for kind, builder in (("tx", build_tx), ("feat", build_feat)):
                    if kind == "feat" and cds_s is not None and si not in (0, 2):
                        # features ignore the CDS; skip duplicated exon structures
                        continue
                    try:
                        obj = builder()
                    except Exception as e:  # noqa
                        results[f"{key_base}|{kind}|construct"] = {
                            "exception": type(e).__name__,
                            "message": str(e),
                        }
                        continue
                    n_objects += 1
                    for label, args, kwargs in CALLS:
                        res = attempt(lambda: describe(obj.to_bed12(*args, **kwargs)))
                        results[f"{key_base}|{kind}|{label}"] = res
                        # a second call must give the same answer (cached properties)
                        res2 = attempt(lambda: describe(obj.to_bed12(*args, **kwargs)))
                        results[f"{key_base}|{kind}|{label}|again"] = res2 == res

    # direct exercise of the BED dataclasses
    for i, rgb in enumerate([RGB(), RGB(1, 2, 3), RGB(255, 0, 128), RGB(r=7), RGB("a", 2.5, None), RGB(True, -1, 10**20)]):
        results[f"rgb|{i}"] = {"str": str(rgb), "repr": repr(rgb), "hash_ok": hash(rgb) == hash(RGB(rgb.r, rgb.g, rgb.b))}
    direct = [
        ("chr1", 0, 10, "n", 0, Strand.PLUS, 0, 0, RGB(), 1, [10], [0]),
        ("chr1", 5, 50, None, None, Strand.MINUS, 7, 40, RGB(9, 9, 9), 2, [10, 5], [0, 40]),
        (None, 5, 50, "x y", 1000, Strand.UNSTRANDED, 5, 50, "255,0,0", 0, [], []),
        ("c", "1", "2", 3, 4.5, Strand.PLUS, None, None, None, "2", (1, 2), ("a", "b")),
    ]
    for i, cols in enumerate(direct):
        results[f"bed12|{i}"] = attempt(lambda: describe(BED12(*cols)))
        results[f"bed6|{i}"] = attempt(lambda: {"str": str(BED6(*cols[:6])), "repr": repr(BED6(*cols[:6]))})
        results[f"bed3|{i}"] = attempt(lambda: {"str": str(BED3(*cols[:3])), "repr": repr(BED3(*cols[:3]))})
    results["bed12|bad_strand"] = attempt(
        lambda: str(BED12("c", 1, 2, "n", 0, "+", 0, 0, RGB(), 1, [1], [0]))
    )
    results["bed12|bad_sizes"] = attempt(lambda: str(BED12("c", 1, 2, "n", 0, Strand.PLUS, 0, 0, RGB(), 1, None, [0])))
    results["__n_objects__"] = n_objects
    return results


def main():
    mode, path = sys.argv[1], sys.argv[2]
    import inscripta.biocantor

    assert os.path.realpath(inscripta.biocantor.__file__).startswith(os.path.realpath(os.getcwd())), (
        "not importing the worktree checkout: " + inscripta.biocantor.__file__
    )
    results = run()
    n_ok = sum(1 for v in results.values() if isinstance(v, dict) and "str" in v)
    n_exc = sum(1 for v in results.values() if isinstance(v, dict) and "exception" in v)
    print(f"{len(results)} records, {n_ok} BED rows, {n_exc} exceptions, {results['__n_objects__']} objects")
    if mode == "dump":
        with open(path, "w") as fh:
            json.dump(results, fh, indent=0, sort_keys=True)
        print("dumped to", path)
    else:
        with open(path) as fh:
            expected = json.load(fh)
        got = json.loads(json.dumps(results, sort_keys=True))
        diffs = [k for k in sorted(set(expected) | set(got)) if expected.get(k) != got.get(k)]
        for k in diffs[:20]:
            print("DIFF", k, "\n  expected:", expected.get(k), "\n  got:     ", got.get(k))
        if diffs:
            print(f"NOT EQUIVALENT: {len(diffs)} differing records")
            sys.exit(1)
        print("EQUIVALENT: all", len(got), "records identical")


if __name__ == "__main__":
    main()
