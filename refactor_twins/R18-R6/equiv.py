"""
Equivalence harness for property C18 (identifier / qualifier extraction, qualifier merging, locus-tag grouping).

Usage (from the worktree root):

    /venv/bin/python _refactor/R2/equiv.py --out /tmp/c18_pristine.json      # on the pristine checkout
    git apply _refactor/R2/patch.diff
    /venv/bin/python _refactor/R2/equiv.py --compare /tmp/c18_pristine.json  # on the refactored checkout

Every observation is reduced to a JSON-able value (repr of results / exceptions, captured warnings) keyed by a case
name. ``--compare`` exits non-zero on the first differing key (and prints up to 20 of them).

``inscripta.biocantor.io.models`` cannot be imported in this environment (marshmallow 4), and ``vcf`` is missing, so
both are replaced by small stand-ins in ``sys.modules`` *before* the parsers are imported. The stand-ins are the same
for both runs, so any difference comes from the library code under test. Biopython 1.88 has dropped
``SeqFeature.strand`` / ``nofuzzy_start`` that the GenBank parser still uses; they are patched back in here.
"""
import argparse
import os
import sys

_SEED = os.environ.get("C18_HASHSEED", "0")
if os.environ.get("PYTHONHASHSEED") != _SEED:
    # a few observed strings (warning texts) embed ``list(set_of_str)``: pin the hash seed so that runs are comparable
    # (set C18_HASHSEED to repeat the whole comparison under another seed)
    os.execve(sys.executable, [sys.executable] + sys.argv, dict(os.environ, PYTHONHASHSEED=_SEED))

import itertools
import json
import random
import types
import warnings
from copy import deepcopy
from pathlib import Path

ROOT = Path(__file__).resolve().parents[2]
sys.path.insert(0, str(ROOT))

import inscripta.biocantor.location  # noqa: F401,E402  must come first (circular import otherwise)
from inscripta.biocantor.gene.collections import GeneInterval, FeatureIntervalCollection  # noqa: E402

DATA = ROOT / "tests" / "data"


# --------------------------------------------------------------------------------------------------------------------
# stand-ins for modules that cannot be imported here
# --------------------------------------------------------------------------------------------------------------------
class _Loaded:
    def __init__(self, kind, data):
        self.kind = kind
        self.data = data
        for k, v in data.items():
            try:
                setattr(self, k, v)
            except Exception:
                pass

    # the two conversions below mirror io/models.py (enum conversion by name, missing keys default to None)
    def to_gene_interval(self, parent=None):
        from inscripta.biocantor.gene.biotype import Biotype as _B
        from inscripta.biocantor.gene.cds_frame import CDSFrame as _F
        from inscripta.biocantor.gene.transcript import TranscriptInterval as _T
        from inscripta.biocantor.location.strand import Strand as _S

        d = self.data
        txs = []
        for t in d["transcripts"]:
            g = t.get
            txs.append(
                _T(
                    exon_starts=t["exon_starts"],
                    exon_ends=t["exon_ends"],
                    strand=_S[t["strand"]],
                    cds_starts=g("cds_starts"),
                    cds_ends=g("cds_ends"),
                    cds_frames=[_F[x] for x in g("cds_frames")] if g("cds_frames") is not None else None,
                    guid=g("transcript_interval_guid"),
                    transcript_guid=g("transcript_guid"),
                    qualifiers=g("qualifiers"),
                    is_primary_tx=g("is_primary_tx"),
                    transcript_id=g("transcript_id"),
                    transcript_symbol=g("transcript_symbol"),
                    transcript_type=_B[g("transcript_type")] if g("transcript_type") else None,
                    sequence_name=g("sequence_name"),
                    sequence_guid=g("sequence_guid"),
                    protein_id=g("protein_id"),
                    product=g("product"),
                    parent_or_seq_chunk_parent=parent,
                )
            )
        g = d.get
        return GeneInterval(
            transcripts=txs,
            guid=g("gene_guid"),
            gene_id=g("gene_id"),
            gene_symbol=g("gene_symbol"),
            gene_type=_B[g("gene_type")] if g("gene_type") else None,
            locus_tag=g("locus_tag"),
            qualifiers=g("qualifiers"),
            sequence_name=g("sequence_name"),
            sequence_guid=g("sequence_guid"),
            parent_or_seq_chunk_parent=parent,
        )

    def to_feature_collection(self, parent=None):
        from inscripta.biocantor.gene.feature import FeatureInterval as _FI
        from inscripta.biocantor.location.strand import Strand as _S

        d = self.data
        feats = []
        for f in d["feature_intervals"]:
            g = f.get
            feats.append(
                _FI(
                    f["interval_starts"],
                    f["interval_ends"],
                    _S[f["strand"]],
                    qualifiers=g("qualifiers"),
                    sequence_guid=g("sequence_guid"),
                    sequence_name=g("sequence_name"),
                    feature_types=g("feature_types"),
                    feature_name=g("feature_name"),
                    feature_id=g("feature_id"),
                    guid=g("feature_interval_guid"),
                    feature_guid=g("feature_guid"),
                    is_primary_feature=g("is_primary_feature"),
                    parent_or_seq_chunk_parent=parent,
                )
            )
        g = d.get
        return FeatureIntervalCollection(
            feature_intervals=feats,
            feature_collection_name=g("feature_collection_name"),
            feature_collection_id=g("feature_collection_id"),
            locus_tag=g("locus_tag"),
            feature_collection_type=g("feature_collection_type"),
            sequence_name=g("sequence_name"),
            sequence_guid=g("sequence_guid"),
            qualifiers=g("qualifiers"),
            guid=g("feature_collection_guid"),
            parent_or_seq_chunk_parent=parent,
        )


def _make_model(kind):
    class _Schema:
        def load(self, data, many=False):
            return _Loaded(kind, data)

        def dump(self, data, many=False):
            return data

    class _Model:
        Schema = _Schema

    _Model.__name__ = kind
    return _Model


models_stub = types.ModuleType("inscripta.biocantor.io.models")
for _name in (
    "GeneIntervalModel",
    "AnnotationCollectionModel",
    "FeatureIntervalCollectionModel",
    "VariantIntervalCollectionModel",
    "TranscriptIntervalModel",
    "FeatureIntervalModel",
):
    setattr(models_stub, _name, _make_model(_name))
sys.modules["inscripta.biocantor.io.models"] = models_stub

vcf_stub = types.ModuleType("inscripta.biocantor.io.vcf.parser")
vcf_stub.parse_vcf_file = lambda *a, **k: {}
vcf_stub.VariantIntervalCollectionModel = models_stub.VariantIntervalCollectionModel
sys.modules["inscripta.biocantor.io.vcf.parser"] = vcf_stub

from Bio.SeqFeature import SeqFeature, SimpleLocation, CompoundLocation  # noqa: E402
from Bio.SeqRecord import SeqRecord  # noqa: E402
from Bio.Seq import Seq  # noqa: E402
from Bio import SeqIO  # noqa: E402

if not hasattr(SeqFeature, "strand"):
    SeqFeature.strand = property(lambda self: self.location.strand if self.location is not None else None)
for _cls in (SimpleLocation, CompoundLocation):
    if not hasattr(_cls, "nofuzzy_start"):
        _cls.nofuzzy_start = property(lambda self: int(self.start))
        _cls.nofuzzy_end = property(lambda self: int(self.end))

import gffutils  # noqa: E402

from inscripta.biocantor.io import features as F  # noqa: E402
from inscripta.biocantor.io.genbank import parser as GB  # noqa: E402
from inscripta.biocantor.io.genbank.constants import GenBankParserType  # noqa: E402
from inscripta.biocantor.io.gff3 import parser as GFF  # noqa: E402
from inscripta.biocantor.gene.feature import FeatureInterval  # noqa: E402
from inscripta.biocantor.gene.transcript import TranscriptInterval  # noqa: E402
from inscripta.biocantor.gene.cds_frame import CDSFrame  # noqa: E402
from inscripta.biocantor.location.strand import Strand  # noqa: E402
from inscripta.biocantor.location.location_impl import SingleInterval  # noqa: E402
from inscripta.biocantor.parent import Parent, SequenceType  # noqa: E402
from inscripta.biocantor.sequence.sequence import Sequence  # noqa: E402
from inscripta.biocantor.sequence.alphabet import Alphabet  # noqa: E402


# --------------------------------------------------------------------------------------------------------------------
# helpers
# --------------------------------------------------------------------------------------------------------------------
def jsonable(x):
    if isinstance(x, _Loaded):
        return {"__model__": x.kind, "data": jsonable(x.data)}
    if isinstance(x, dict):
        return {"__dict__": [[jsonable(k), jsonable(v)] for k, v in x.items()]}  # keeps key order
    if isinstance(x, (list, tuple)):
        return [jsonable(v) for v in x]
    if isinstance(x, (set, frozenset)):
        return {"__set__": sorted(repr(v) for v in x)}
    if isinstance(x, (str, int, float, bool)) or x is None:
        return x
    return repr(x)


def observe(fn, *args, **kwargs):
    """Run fn, capturing result or exception and all warnings (category + text, in order)."""
    with warnings.catch_warnings(record=True) as caught:
        warnings.simplefilter("always")
        try:
            res = {"ok": jsonable(fn(*args, **kwargs))}
        except Exception as e:  # noqa
            res = {"exc": f"{type(e).__name__}: {e}"}
    res["warnings"] = [f"{w.category.__name__}: {w.message}" for w in caught]
    return res


RESULTS = {}


def record(name, value):
    assert name not in RESULTS, name
    RESULTS[name] = value


# --------------------------------------------------------------------------------------------------------------------
# A. io.features
# --------------------------------------------------------------------------------------------------------------------
def cases_features():
    name_keys = ["feature_name", "standard_name", "name", "gene", "gene_name", "label", "operon"]
    id_keys = ["feature_id", "id"]
    lookalikes = ["gene_synonym", "my_gene", "feature_id_id", "Feature_Name", "ID", "NAME", "note", "locus_tag"]
    keys = name_keys + id_keys + lookalikes
    n = 0
    for size in range(0, 5):
        for perm in itertools.permutations(keys, size):
            # with 17 keys and size 4 this is 57k cases; subsample deterministically for size 4
            if size == 4 and (hash_tuple(perm) % 7):
                continue
            quals = {k: [f"{k}-v{i}", f"{k}-w{i}"] for i, k in enumerate(perm)}
            record(f"name_id/{'|'.join(perm)}", observe(F.extract_feature_name_id, quals))
            types_ = {"base"}
            record(f"types/{'|'.join(perm)}", [observe(F.extract_feature_types, types_, quals), jsonable(types_)])
            n += 1
    # full orderings of every recognised key (rank-0 key first / last / middle), several seeds
    rng = random.Random(18)
    allk = name_keys + id_keys
    for i in range(300):
        sub = rng.sample(allk, rng.randint(1, len(allk)))
        sub = [k.upper() if rng.random() < 0.3 else (k.title() if rng.random() < 0.3 else k) for k in sub]
        quals = {k: [f"val_{k}"] for k in sub}
        record(f"name_id_rand/{i}/{'|'.join(sub)}", observe(F.extract_feature_name_id, quals))

    odd = {
        "empty": {},
        "note_only": {"note": ["(hello), world"]},
        "note_empty_list": {"note": []},
        "note_empty_str": {"note": [""]},
        "note_spaces": {"note": ["   "]},
        "note_punct": {"note": ["...;;; abc"]},
        "note_str": {"note": "plain string"},
        "note_none": {"note": None},
        "note_int": {"note": [5]},
        "note_with_empty_name": {"gene": [""], "note": ["fallback here"]},
        "note_with_empty_name_and_id": {"gene": [""], "id": [""], "note": ["fallback here"]},
        "note_with_id": {"ID": ["x"], "note": ["fallback here"]},
        "Note_caps": {"Note": ["fallback here"]},
        "empty_vals_name": {"gene": []},
        "empty_vals_id": {"id": []},
        "empty_vals_lower_priority": {"feature_name": ["a"], "gene": []},
        "empty_vals_lower_priority2": {"standard_name": ["a"], "gene": []},
        "empty_vals_lower_priority3": {"gene": [], "standard_name": ["a"]},
        "rank0_then_empty": {"feature_id": ["a"], "id": []},
        "trailing_newline": {"gene\n": ["a"]},
        "trailing_newline_id": {"x": ["1"], "id\n": ["a"], "gene\n": ["b"]},
        "trailing_newline_both": {"gene\n": ["b"], "id\n": ["a"]},
        "leading_space": {" gene": ["a"]},
        "int_key": {5: ["a"]},
        "int_key_after_bad": {"id": [], 5: ["a"]},
        "int_key_before_bad": {5: ["a"], "id": []},
        "none_key": {None: ["a"]},
        "tuple_vals": {"gene": ("a", "b"), "id": ("c",)},
        "str_vals": {"gene": "abc", "id": "xyz"},
        "kelvin": {"Kelvin": ["a"], "ſtandard_name": ["long-s"], "gene": ["g"]},
        "dotless": {"ıd": ["a"], "İD": ["b"], "feature_ıd": ["c"]},
        "multi_case_same": {"gene": ["a"], "GENE": ["b"], "Gene": ["c"]},
        "multi_case_rank0": {"feature_name": ["a"], "FEATURE_NAME": ["b"]},
        "multi_case_rank0_id": {"feature_id": ["a"], "FEATURE_ID": ["b"], "Feature_Id": ["c"]},
        "type_keys": {"gbkey": ["Gene"], "regulatory_class": ["promoter"], "my_type_x": ["t"], "TYPE": ["no"]},
        "type_keys_str_val": {"gbkey": "Gene"},
        "type_keys_none_val": {"gbkey": None, "a_type": ["x"]},
        "type_keys_after_none": {"a_type": ["x"], "gbkey": None},
    }
    for label, quals in odd.items():
        record(f"name_id_odd/{label}", observe(F.extract_feature_name_id, quals))
        types_ = {"base"}
        record(f"types_odd/{label}", [observe(F.extract_feature_types, types_, quals), jsonable(types_)])
    record("types_odd/list_target_nomatch", observe(F.extract_feature_types, [], {"gene": ["x"]}))
    record("types_odd/list_target_match", observe(F.extract_feature_types, [], {"gbkey": ["x"]}))
    record("name_id_odd/not_a_dict", observe(F.extract_feature_name_id, None))
    record("types_odd/not_a_dict", observe(F.extract_feature_types, set(), None))

    # merge_qualifiers
    rng = random.Random(1818)
    pool_keys = ["a", "b", "c", "gene", "ID", "note", 1, 2, ("t", 1)]
    pool_vals = ["x", "y", "z", "10", "2", "A", "a", ""]
    for i in range(200):
        d1 = {k: rng.sample(pool_vals, rng.randint(0, 4)) for k in rng.sample(pool_keys, rng.randint(0, 6))}
        d2 = {k: rng.sample(pool_vals, rng.randint(0, 4)) for k in rng.sample(pool_keys, rng.randint(0, 6))}
        c1, c2 = deepcopy(d1), deepcopy(d2)
        record(f"merge/{i}", [observe(F.merge_qualifiers, d1, d2), jsonable(d1) == jsonable(c1), jsonable(d2) == jsonable(c2)])
    record("merge/odd/none_second", observe(F.merge_qualifiers, {"a": ["1"]}, None))
    record("merge/odd/none_first", observe(F.merge_qualifiers, None, {"a": ["1"]}))
    record("merge/odd/mixed_types", observe(F.merge_qualifiers, {"a": ["1"]}, {"a": [2]}))
    record("merge/odd/str_vals", observe(F.merge_qualifiers, {"a": "hello"}, {"a": ["lo"]}))
    record("merge/odd/none_vals", observe(F.merge_qualifiers, {"a": None}, {"a": ["lo"]}))
    record("merge/odd/unhashable_key_vals", observe(F.merge_qualifiers, {"a": [["x"]]}, {}))
    record("merge/odd/sets", observe(F.merge_qualifiers, {"a": {"x", "y"}}, {"a": {"z"}, "b": set()}))
    record("merge/odd/empty", observe(F.merge_qualifiers, {}, {}))


def hash_tuple(t):
    # deterministic (not PYTHONHASHSEED dependent)
    h = 0
    for s in t:
        for ch in s:
            h = (h * 131 + ord(ch)) % 1000003
        h = (h * 31 + 7) % 1000003
    return h


# --------------------------------------------------------------------------------------------------------------------
# B. gff3 parser
# --------------------------------------------------------------------------------------------------------------------
def gfeat(ftype, start, end, strand, attrs, chrom="chr1", fid=None):
    return gffutils.Feature(
        seqid=chrom, source="t", featuretype=ftype, start=start, end=end, strand=strand, attributes=attrs, id=fid
    )


def cases_gff3():
    quals = [
        {},
        {"Name": ["a"]},
        {"gene": ["b", "a"], "Name": ["z"], "note": ["n2", "n1"]},
        {"gene_name": ["x"], "gene_names": ["y"], "my_gene_name": ["w", "v"]},
        {"ID": ["1"], "IDs": ["2"], "id": ["3"], "Identifier": ["4"]},
        {"parent": ["p"], "Parent": ["P"], "locus_tag": ["l"], "locus": ["m"]},
        {"feature_typeX": ["1"], "xfeature_type": ["2", "1", "0"]},
        {"transcript_type": ["a"], "transcript_biotype": ["b"], "gene_symbol": ["c"], "gene_type": ["d"]},
        {"b": ["2", "10", "1"], "a": ["z", "Z"], "C": []},
        {"k": [3, 1, 2]},
        {"k": [3, "a"]},
        {5: ["a"]},
        {"k": None},
    ]
    for i, q in enumerate(quals):
        c = deepcopy(q)
        record(f"gff3/filter/{i}", [observe(GFF.filter_and_sort_qualifiers, q), jsonable(q) == jsonable(c)])
    record("gff3/filter/none", observe(GFF.filter_and_sort_qualifiers, None))

    # _parse_child_features_to_feature_interval
    groups = {
        "single_plus": [gfeat("region", 10, 20, "+", {"Name": ["r1"], "ID": ["i1"], "gbkey": ["Reg"]})],
        "single_minus": [gfeat("region", 10, 20, "-", {"feature_name": ["r1"], "gene": ["g"], "note": ["n"]})],
        "single_noattrs": [gfeat("region", 10, 20, "+", {})],
        "single_note": [gfeat("region", 10, 20, "+", {"note": ["(abc) def"]})],
        "multi_plus": [
            gfeat("sub", 30, 40, "+", {"Name": ["b"], "ID": ["i2"], "x_type": ["T2"], "k": ["2"]}),
            gfeat("sub", 10, 20, "+", {"Name": ["a"], "ID": ["i1"], "x_type": ["T1"], "k": ["1"]}),
            gfeat("sub2", 50, 60, "+", {"Name": ["b"], "feature_id": ["i1"], "k": ["3", "1"]}),
        ],
        "multi_minus": [
            gfeat("sub", 30, 40, "-", {"gene": ["b"], "standard_name": ["s"], "k": ["2"]}),
            gfeat("sub", 10, 20, "-", {"standard_name": ["s2"], "gene": ["b"], "k": ["1"]}),
            gfeat("sub", 1, 5, "-", {"feature_name": ["top"], "gene": ["b"], "k": ["1"]}),
        ],
        "rank0_orders_a": [gfeat("sub", 1, 5, "+", {"feature_name": ["F"], "operon": ["O"], "feature_id": ["I0"], "ID": ["I255"]})],
        "rank0_orders_b": [gfeat("sub", 1, 5, "+", {"operon": ["O"], "feature_name": ["F"], "ID": ["I255"], "feature_id": ["I0"]})],
        "tie_names": [
            gfeat("sub", 1, 5, "+", {"Name": ["x"]}),
            gfeat("sub", 6, 9, "+", {"Name": ["y"]}),
            gfeat("sub", 16, 19, "+", {"Name": ["y"]}),
            gfeat("sub", 26, 29, "+", {"Name": ["x"]}),
        ],
        "first_empty_attrs": [gfeat("sub", 1, 5, "+", {}), gfeat("sub", 6, 9, "+", {"Name": ["y"], "k": ["b", "a"]})],
        "mixed_strand": [gfeat("sub", 1, 5, "+", {"Name": ["x"]}), gfeat("sub", 6, 9, "-", {"Name": ["y"]})],
        "mixed_chrom": [gfeat("sub", 1, 5, "+", {"Name": ["x"]}), gfeat("sub", 6, 9, "+", {"Name": ["y"]}, chrom="c2")],
        "unstranded": [gfeat("sub", 1, 5, ".", {"Name": ["x"]}), gfeat("sub", 6, 9, ".", {"Name": ["y"]})],
        "locus_tag_ok": [gfeat("sub", 1, 5, "+", {"locus_tag": ["LT"], "Name": ["x"]})],
        "locus_tag_bad": [gfeat("sub", 1, 5, "+", {"locus_tag": ["OTHER"], "Name": ["x"]})],
        "empty": [],
    }
    for label, feats in groups.items():
        for lt in (None, "LT"):
            before = [jsonable(dict(f.attributes)) for f in feats]
            res = observe(GFF._parse_child_features_to_feature_interval, feats, locus_tag=lt)
            after = [jsonable(dict(f.attributes)) for f in feats]
            record(f"gff3/child/{label}/{lt}", [res, before == after])
            # reversed order of children too
            res = observe(GFF._parse_child_features_to_feature_interval, list(reversed(feats)), lt)
            record(f"gff3/child_rev/{label}/{lt}", res)

    # full parses of the test-data GFF3 files
    for path in sorted(list(DATA.glob("*.gff3")) + list(DATA.glob("*.gff"))):

        def run(p=path):
            return [rec.annotation for rec in GFF.parse_standard_gff3(p)]

        record(f"gff3/file/{path.name}", observe(run))


# --------------------------------------------------------------------------------------------------------------------
# C. genbank parser
# --------------------------------------------------------------------------------------------------------------------
def gbfeat(ftype, parts, strand, quals):
    locs = [SimpleLocation(s, e, strand=strand) for s, e in parts]
    if strand == -1:
        locs = locs[::-1]
    loc = locs[0] if len(locs) == 1 else CompoundLocation(locs)
    return SeqFeature(loc, type=ftype, qualifiers={k: list(v) for k, v in quals.items()})


def synthetic_record(rid="synth1"):
    feats = [
        gbfeat("source", [(0, 3000)], 1, {"organism": ["x"]}),
        # gene -> mRNA -> CDS, plus strand, multi-exon
        gbfeat("gene", [(100, 700)], 1, {"locus_tag": ["LT_B"], "gene": ["geneB"]}),
        gbfeat("mRNA", [(100, 250), (400, 700)], 1, {"locus_tag": ["LT_B"], "gene": ["geneB"], "product": ["pB"]}),
        gbfeat("CDS", [(130, 250), (400, 640)], 1, {"locus_tag": ["LT_B"], "protein_id": ["protB"], "codon_start": ["1"], "note": ["n1", "n0"]}),
        # gene -> CDS, minus strand, multi-block
        gbfeat("gene", [(800, 1400)], -1, {"locus_tag": ["LT_A"], "gene": ["geneA"], "gene_id": ["GA"]}),
        gbfeat("CDS", [(800, 1000), (1200, 1400)], -1, {"locus_tag": ["LT_A"], "product": ["pA"], "codon_start": ["2"]}),
        # non-coding gene
        gbfeat("gene", [(1500, 1600)], 1, {"locus_tag": ["LT_C"]}),
        gbfeat("tRNA", [(1500, 1600)], 1, {"locus_tag": ["LT_C"], "product": ["tRNA-X"]}),
        # isolated gene
        gbfeat("gene", [(1700, 1800)], -1, {"locus_tag": ["LT_D"], "pseudo": [""]}),
        # CDS only
        gbfeat("CDS", [(1900, 2080)], 1, {"locus_tag": ["LT_E"], "gene": ["geneE"]}),
        # gene without locus tag (sorted parser in hybrid mode) + its CDS
        gbfeat("gene", [(2100, 2280)], 1, {"gene": ["noLT"]}),
        gbfeat("CDS", [(2100, 2280)], 1, {"gene": ["noLT"]}),
        # two isoform CDS under one mRNA-less gene
        gbfeat("gene", [(2300, 2600)], -1, {"locus_tag": ["LT_F"], "gene": ["geneF"]}),
        gbfeat("CDS", [(2300, 2450)], -1, {"locus_tag": ["LT_F"], "protein_id": ["F1"]}),
        gbfeat("CDS", [(2390, 2600)], -1, {"locus_tag": ["LT_F"], "protein_id": ["F2"]}),
        # generic features, some grouped by locus tag
        gbfeat("misc_feature", [(10, 50)], 1, {"feature_name": ["mf"], "operon": ["op"], "feature_id": ["f0"], "ID": ["f255"], "note": ["z"]}),
        gbfeat("regulatory", [(60, 90)], -1, {"locus_tag": ["REG1"], "regulatory_class": ["promoter"], "standard_name": ["P1"]}),
        gbfeat("protein_bind", [(70, 80)], -1, {"locus_tag": ["REG1"], "bound_moiety": ["x"], "gbkey": ["Pb"], "label": ["P1b"]}),
        gbfeat("misc_feature", [(2700, 2750), (2800, 2850)], 1, {"note": ["(just) a note"]}),
        gbfeat("repeat_region", [(2900, 2950)], 1, {}),
    ]
    return SeqRecord(Seq("ACGT" * 750), id=rid, name=rid, features=feats)


PARSER_CLASSES = {
    "locus": "LocusTagGenBankParser",
    "sorted": "SortedGenBankParser",
    "hybrid": "HybridGenBankParser",
}


def run_parser(cls_name, records):
    cls = getattr(GB, cls_name)
    parser = cls(records, None, GB.GeneFeature.to_gene_model, GB.FeatureIntervalGenBankCollection.to_feature_model)
    out = [rec.annotation for rec in parser.parse()]
    state = {
        "grouped": [
            [
                [repr(g.gene_feature), [repr(t) for t in g.transcript_features], [repr(c) for c in g.cds_features]]
                for g in per_record
            ]
            for per_record in parser.grouped_gene_features
        ],
        "gene_filtered": [[repr(f) for f in fs] for fs in parser.gene_filtered_features],
        "feature_features": [[repr(f) for f in fs] for fs in parser.feature_features],
        "sources": [repr(s) for s in parser.sources],
        "genes_repr": [[repr(g) for g in gs] for gs in parser.genes],
        "num": [parser.num_genes, parser.num_feature_collections],
    }
    if hasattr(parser, "gene_filtered_features_without_locus_tag"):
        state["no_lt"] = [[repr(f) for f in fs] for fs in parser.gene_filtered_features_without_locus_tag]
    return [out, state]


def cases_genbank():
    # 1. real files, three parser types
    files = sorted(
        p for p in DATA.iterdir() if p.suffix in (".gbk", ".gb", ".gbff") and p.stat().st_size < 3_000_000
    )
    for path in files:
        try:
            with warnings.catch_warnings():
                warnings.simplefilter("ignore")
                base_records = list(SeqIO.parse(str(path), format="genbank"))
        except Exception as e:  # noqa
            record(f"gbk/file/{path.name}/unreadable", repr(e))
            continue
        for label, cls_name in PARSER_CLASSES.items():
            record(f"gbk/file/{path.name}/{label}", observe(run_parser, cls_name, deepcopy(base_records)))
        # permuted feature order within each record (locus-tag parser and hybrid)
        for seed in (1, 2):
            recs = deepcopy(base_records)
            rng = random.Random(seed)
            for r in recs:
                rng.shuffle(r.features)
            for label in ("locus", "hybrid"):
                record(f"gbk/file_perm{seed}/{path.name}/{label}", observe(run_parser, PARSER_CLASSES[label], recs))
        # the public entry point
        for gbk_type in GenBankParserType:

            def run(p=path, t=gbk_type):
                return [rec.annotation for rec in GB.parse_genbank(str(p), gbk_type=t)]

            record(f"gbk/parse_genbank/{path.name}/{gbk_type.name}", observe(run))

    # 2. synthetic record: original order, reversed, several shuffles, two records
    base = synthetic_record()
    orders = {"orig": list(base.features), "rev": list(reversed(base.features))}
    for seed in range(8):
        fs = list(base.features)
        random.Random(100 + seed).shuffle(fs)
        orders[f"shuf{seed}"] = fs
    for oname, fs in orders.items():
        for label, cls_name in PARSER_CLASSES.items():
            rec = SeqRecord(base.seq, id=base.id, name=base.name, features=deepcopy(fs))
            rec2 = synthetic_record("synth2")
            record(f"gbk/synth/{oname}/{label}", observe(run_parser, cls_name, [rec]))
            record(f"gbk/synth2/{oname}/{label}", observe(run_parser, cls_name, [rec, rec2]))

    # 3. error / warning paths of the locus tag grouping
    def rec_with(feats):
        return SeqRecord(Seq("ACGT" * 750), id="e", name="e", features=feats)

    dup_gene = [
        gbfeat("gene", [(100, 700)], 1, {"locus_tag": ["X"]}),
        gbfeat("CDS", [(100, 700)], 1, {"locus_tag": ["X"]}),
        gbfeat("gene", [(800, 900)], 1, {"locus_tag": ["X"]}),
    ]
    multi_tx = [
        gbfeat("gene", [(100, 700)], 1, {"locus_tag": ["X"]}),
        gbfeat("mRNA", [(100, 700)], 1, {"locus_tag": ["X"], "transcript_id": ["t1"]}),
        gbfeat("mRNA", [(100, 300), (500, 700)], 1, {"locus_tag": ["X"], "transcript_id": ["t2"]}),
        gbfeat("CDS", [(100, 700)], 1, {"locus_tag": ["X"], "protein_id": ["p1"]}),
        gbfeat("CDS", [(100, 300), (500, 700)], 1, {"locus_tag": ["X"], "protein_id": ["p2"]}),
    ]
    multi_lt_values = [
        gbfeat("gene", [(100, 700)], 1, {"locus_tag": ["X", "b"]}),
        gbfeat("CDS", [(100, 700)], 1, {"locus_tag": ["X", "a"]}),
        gbfeat("gene", [(800, 900)], -1, {"locus_tag": ["W", "z"]}),
        gbfeat("tRNA", [(800, 900)], -1, {"locus_tag": ["W"]}),
        gbfeat("misc_RNA", [(820, 900)], -1, {"locus_tag": ["W", "a"]}),
    ]
    unknown_type = [
        gbfeat("gene", [(100, 700)], 1, {"locus_tag": ["X"]}),
        gbfeat("exon", [(100, 700)], 1, {"locus_tag": ["X"]}),
        gbfeat("CDS", [(100, 700)], 1, {"locus_tag": ["X"]}),
    ]
    no_strand = [
        gbfeat("gene", [(100, 700)], 0, {"locus_tag": ["X"]}),
        gbfeat("CDS", [(100, 700)], 1, {"locus_tag": ["X"]}),
        gbfeat("misc_feature", [(10, 20)], None, {"note": ["unstranded"]}),
    ]
    only_features = [
        gbfeat("misc_feature", [(10, 20)], 1, {"locus_tag": ["A"], "gene": ["g1"]}),
        gbfeat("misc_feature", [(10, 20)], 1, {"locus_tag": ["A"], "gene": ["g1"]}),
        gbfeat("misc_feature", [(30, 40)], 1, {"locus_tag": ["B"], "gene": ["g2"], "ID": ["i"]}),
        gbfeat("misc_feature", [(50, 60)], 1, {"locus_tag": ["A"], "gene": ["g3"]}),
    ]
    for label, feats in {
        "dup_gene": dup_gene,
        "multi_tx": multi_tx,
        "multi_lt_values": multi_lt_values,
        "unknown_type": unknown_type,
        "no_strand": no_strand,
        "only_features": only_features,
        "empty": [],
    }.items():
        for order_name, fs in (("orig", feats), ("rev", list(reversed(feats)))):
            for plabel, cls_name in PARSER_CLASSES.items():
                record(
                    f"gbk/edge/{label}/{order_name}/{plabel}",
                    observe(run_parser, cls_name, [rec_with(deepcopy(fs))]),
                )

    # 3b. several colliding locus tags, spread over two records and not in sorted order (hybrid parser warnings)
    def collide(rid, tags):
        feats = []
        pos = 100
        for tag in tags:
            feats.append(gbfeat("gene", [(pos, pos + 90)], 1, {"locus_tag": [tag]}))
            feats.append(gbfeat("CDS", [(pos, pos + 90)], 1, {"locus_tag": [tag], "protein_id": [f"p{pos}"]}))
            pos += 100
        return SeqRecord(Seq("ACGT" * 750), id=rid, name=rid, features=feats)

    rec_a = collide("colA", ["zz", "b", "m", "zz", "q", "b"])
    rec_b = collide("colB", ["m", "a", "q", "a2", "Zz"])
    for plabel, cls_name in PARSER_CLASSES.items():
        record(f"gbk/collide/ab/{plabel}", observe(run_parser, cls_name, deepcopy([rec_a, rec_b])))
        record(f"gbk/collide/ba/{plabel}", observe(run_parser, cls_name, deepcopy([rec_b, rec_a])))
        ra, rb = deepcopy([rec_a, rec_b])
        random.Random(5).shuffle(ra.features)
        random.Random(6).shuffle(rb.features)
        record(f"gbk/collide/shuf/{plabel}", observe(run_parser, cls_name, [ra, rb]))

    # 3c. consensus name / id of a feature collection with ties and with nothing to count
    tie_sets = {
        "tie2": [("n1", "i1"), ("n2", "i2"), ("n2", "i1"), ("n1", "i2")],
        "tie3": [("c", "x"), ("b", "y"), ("a", "z")],
        "late_majority": [("a", "1"), ("b", "2"), ("b", "2"), ("a", "1"), ("b", "3")],
        "none": [(None, None), (None, None)],
        "partial": [(None, "i"), ("n", None), (None, "j"), (None, "j")],
    }
    for label, pairs in tie_sets.items():
        for with_lt in (True, False):
            feats = []
            for k, (nm, ident) in enumerate(pairs):
                q = {"note_x": [str(k)]}
                if with_lt:
                    q["locus_tag"] = ["LTX"]
                if nm:
                    q["gene"] = [nm]
                if ident:
                    q["ID"] = [ident]
                feats.append(gbfeat("misc_feature", [(10 + 20 * k, 20 + 20 * k)], 1, q))

            def direct_collection(feats=feats):
                coll = GB.FeatureIntervalGenBankCollection(deepcopy(feats), rec_with([]))
                return GB.FeatureIntervalGenBankCollection.to_feature_model(coll)

            record(f"gbk/consensus/{label}/{with_lt}", observe(direct_collection))
            for plabel, cls_name in PARSER_CLASSES.items():
                record(
                    f"gbk/consensus_parse/{label}/{with_lt}/{plabel}",
                    observe(run_parser, cls_name, [rec_with(deepcopy(feats))]),
                )

    # 4. direct calls of the grouping helpers
    def direct_group(feats):
        parser = GB.LocusTagGenBankParser([rec_with([])], None, None, None)
        parser._group_features_by_locus_tag(feats, parser.seq_records[0], 0)
        return [
            [repr(g.gene_feature), [repr(t) for t in g.transcript_features], [repr(c) for c in g.cds_features]]
            for g in parser.grouped_gene_features[0]
        ]

    missing_lt = [
        gbfeat("gene", [(100, 700)], 1, {"locus_tag": ["X"]}),
        gbfeat("exon", [(100, 700)], 1, {"locus_tag": ["X"]}),
        gbfeat("CDS", [(100, 700)], 1, {}),
    ]
    empty_lt = [
        gbfeat("gene", [(100, 700)], 1, {"locus_tag": ["X"]}),
        gbfeat("exon", [(100, 700)], 1, {"locus_tag": ["X"]}),
        gbfeat("CDS", [(100, 700)], 1, {"locus_tag": []}),
    ]
    unsorted = [
        gbfeat("gene", [(100, 700)], 1, {"locus_tag": ["X"]}),
        gbfeat("gene", [(800, 900)], 1, {"locus_tag": ["Y"]}),
        gbfeat("CDS", [(100, 700)], 1, {"locus_tag": ["X"]}),
        gbfeat("CDS", [(800, 900)], 1, {"locus_tag": ["Y"]}),
        gbfeat("mRNA", [(800, 900)], 1, {"locus_tag": ["Y"]}),
    ]
    for label, feats in {
        "missing_lt": missing_lt,
        "empty_lt": empty_lt,
        "unsorted": unsorted,
        "multi_tx": multi_tx,
        "dup_gene": dup_gene,
        "multi_lt_values": multi_lt_values,
        "empty": [],
    }.items():
        record(f"gbk/direct_group/{label}", observe(direct_group, deepcopy(feats)))

    # 5. transcript qualifier merging
    def merge_cds(tx_q, cds_q):
        txf = gbfeat("mRNA", [(100, 700)], 1, tx_q)
        cdsf = gbfeat("CDS", [(100, 700)], 1, cds_q) if cds_q is not None else None
        tx = GB.TranscriptFeature(txf, rec_with([]), cds_feature=cdsf)
        merged = tx.merge_cds_qualifiers_to_transcript()
        # value order comes from set iteration (hash-seed dependent for str): compare order-insensitively and exactly
        return [
            [[k, sorted(v)] for k, v in merged.items()],
            [type(v).__name__ for v in merged.values()],
            jsonable(txf.qualifiers),
            [tx.get_qualifier_from_tx_or_cds_features(q) for q in ("gene", "product", "protein_id", "zzz")],
        ]

    for i, (tq, cq) in enumerate(
        [
            ({"gene": ["a"], "note": ["1", "2"]}, {"gene": ["a", "b"], "product": ["p"], "note": ["3"]}),
            ({"gene": ["a"]}, None),
            ({}, {"protein_id": ["x", "x"]}),
            ({"k": ["3", "1", "2", "1"]}, {}),
        ]
    ):
        record(f"gbk/merge_cds/{i}", observe(merge_cds, tq, cq))


# --------------------------------------------------------------------------------------------------------------------
# D. gene/interval.py: qualifier import / export / merge on interval objects
# --------------------------------------------------------------------------------------------------------------------
def seq_to_parent(seq, seq_id="chr1"):
    return Parent(
        sequence=Sequence(seq, Alphabet.NT_EXTENDED_GAPPED, type=SequenceType.CHROMOSOME, id=seq_id),
        location=SingleInterval(0, len(seq), Strand.PLUS),
    )


def seq_chunk_to_parent(seq, sequence_name, start, end, strand=Strand.PLUS):
    chunk_id = f"{sequence_name}:{start}-{end}"
    return Parent(
        id=chunk_id,
        sequence=Sequence(
            seq,
            Alphabet.NT_EXTENDED_GAPPED,
            id=chunk_id,
            type=SequenceType.SEQUENCE_CHUNK,
            parent=Parent(
                location=SingleInterval(
                    start,
                    end,
                    strand,
                    parent=Parent(id=sequence_name, sequence_type=SequenceType.CHROMOSOME),
                ),
                sequence_type=SequenceType.CHROMOSOME,
            ),
        ),
    )


def cases_intervals():
    genome = "ACGTTGCAAGCTAGCTAGGATCGATCGATTTAGCGCGATATAGCTAGCATCGATCAGCATGCAAGT" * 2
    parents = {
        "none": None,
        "chrom": seq_to_parent(genome),
        "chunk": seq_chunk_to_parent(genome[5:100], "chr1", 5, 100),
        "chunk_small": seq_chunk_to_parent(genome[12:40], "chr1", 12, 40),
    }
    own_quals = [
        None,
        {},
        {"gene": ["a"], "note": ["b", "a", "b"]},
        {"k": [3, 1, 2], "j": [True, 1.5], 5: ["x"]},
        {"feature_name": ["collide"], "feature_id": ["c2"], "feature_type": ["t"]},
    ]
    parent_quals = [
        None,
        {},
        {"gene": {"a", "z"}, "new": {"n"}},
        {"note": ["listval", "b"], "gene_biotype": {"x"}},
        {"feature_name": {"pn"}, "transcript_id": {"pt"}, "gene_name": {"pg"}},
    ]
    block_sets = [([10], [30]), ([10, 40], [25, 60]), ([8, 20, 50], [15, 35, 70])]
    for pname, parent in parents.items():
        for strand in (Strand.PLUS, Strand.MINUS):
            for bi, (starts, ends) in enumerate(block_sets):
                for qi, q in enumerate(own_quals):
                    label = f"{pname}/{strand.name}/{bi}/{qi}"

                    def build_feature(q=q, starts=starts, ends=ends, strand=strand, parent=parent):
                        return FeatureInterval(
                            list(starts),
                            list(ends),
                            strand,
                            qualifiers=deepcopy(q),
                            feature_types=["ft2", "ft1"] if qi % 2 else None,
                            feature_name="fname" if qi != 1 else None,
                            feature_id="fid" if qi != 2 else None,
                            sequence_name="chr1",
                            parent_or_seq_chunk_parent=parent,
                        )

                    def build_tx(q=q, starts=starts, ends=ends, strand=strand, parent=parent):
                        return TranscriptInterval(
                            list(starts),
                            list(ends),
                            strand,
                            cds_starts=list(starts),
                            cds_ends=list(ends),
                            cds_frames=[CDSFrame.ZERO] * len(starts),
                            qualifiers=deepcopy(q),
                            transcript_id="tid" if qi != 1 else None,
                            transcript_symbol="tsym" if qi != 2 else None,
                            protein_id="pid",
                            product="prod",
                            sequence_name="chr1",
                            parent_or_seq_chunk_parent=parent,
                        )

                    for kind, build in (("feat", build_feature), ("tx", build_tx)):
                        try:
                            obj = build()
                        except Exception as e:  # noqa
                            record(f"ivl/{kind}/{label}/build", f"{type(e).__name__}: {e}")
                            continue
                        record(
                            f"ivl/{kind}/{label}/base",
                            [
                                jsonable(obj.qualifiers),
                                observe(obj._export_qualifiers_to_list),
                                observe(obj.to_dict),
                                str(obj),
                                str(obj.guid),
                            ],
                        )
                        for pi, pq in enumerate(parent_quals):
                            pq_copy = deepcopy(pq)
                            own_before = jsonable(obj.qualifiers)
                            merged = observe(obj._merge_qualifiers, pq_copy)
                            exported = observe(obj.export_qualifiers, pq_copy)
                            # aliasing: mutate the result of a fresh merge and check the interval is untouched
                            m = obj._merge_qualifiers(pq_copy)
                            alias = [m[k] is obj.qualifiers.get(k) for k in m]
                            for k in m:
                                m[k].add("MUTATED")
                            gff = observe(lambda: [str(r) for r in obj.to_gff(parent="P", parent_qualifiers=pq_copy)])
                            gff_rel = observe(
                                lambda: [
                                    str(r)
                                    for r in obj.to_gff(
                                        parent_qualifiers=pq_copy, chromosome_relative_coordinates=False
                                    )
                                ]
                            )
                            record(
                                f"ivl/{kind}/{label}/pq{pi}",
                                [
                                    merged,
                                    exported,
                                    alias,
                                    own_before == jsonable(obj.qualifiers),
                                    jsonable(pq_copy) == jsonable(pq),
                                    gff,
                                    gff_rel,
                                ],
                            )

    # invalid qualifier inputs
    for i, bad in enumerate([["a"], "abc", {"a": "notalist"}, {"a": ["ok"], "b": ("t",)}, {"a": {"s"}}, 5]):
        record(
            f"ivl/bad_quals/{i}",
            observe(lambda bad=bad: FeatureInterval([1], [5], Strand.PLUS, qualifiers=bad).qualifiers),
        )


def main():
    ap = argparse.ArgumentParser()
    ap.add_argument("--out")
    ap.add_argument("--compare")
    args = ap.parse_args()

    cases_features()
    cases_gff3()
    cases_genbank()
    cases_intervals()

    blob = json.loads(json.dumps(RESULTS))
    n_exc = sum(1 for v in RESULTS.values() if isinstance(v, dict) and "exc" in v)
    print(f"{len(blob)} cases recorded ({n_exc} top-level cases end in an exception)")
    if args.out:
        Path(args.out).write_text(json.dumps(blob, indent=0, sort_keys=True))
        print(f"written {args.out}")
    if args.compare:
        ref = json.loads(Path(args.compare).read_text())
        bad = [k for k in sorted(set(ref) | set(blob)) if ref.get(k, "<missing>") != blob.get(k, "<missing>")]
        for k in bad[:20]:
            print("DIFF", k)
            print("   ref:", json.dumps(ref.get(k, "<missing>"))[:600])
            print("   new:", json.dumps(blob.get(k, "<missing>"))[:600])
        print(f"{len(bad)} differing cases out of {len(blob)}")
        sys.exit(1 if bad else 0)


if __name__ == "__main__":
    main()
