"""Equivalence script for R1 (parent/parent.py).

Usage (from the worktree root):
    /venv/bin/python _refactor/R1/equiv.py dump /tmp/r1_pristine.json      # on the pristine checkout
    git apply _refactor/R1/patch.diff
    /venv/bin/python _refactor/R1/equiv.py dump /tmp/r1_patched.json
    /venv/bin/python _refactor/R1/equiv.py compare /tmp/r1_pristine.json /tmp/r1_patched.json
"""
import itertools
import json
import os
import sys

if os.environ.get("PYTHONHASHSEED") != "0":
    os.environ["PYTHONHASHSEED"] = "0"
    os.execv(sys.executable, [sys.executable] + sys.argv)

sys.path.insert(0, os.getcwd())

import inscripta.biocantor.location  # noqa: E402,F401  (must be first: circular import otherwise)
from inscripta.biocantor.location.location_impl import SingleInterval, CompoundInterval, EmptyLocation  # noqa: E402
from inscripta.biocantor.location.strand import Strand  # noqa: E402
from inscripta.biocantor.parent import Parent, SequenceType  # noqa: E402
from inscripta.biocantor.parent.parent import _unique_value_or_none  # noqa: E402
from inscripta.biocantor.sequence.alphabet import Alphabet  # noqa: E402
from inscripta.biocantor.sequence.sequence import Sequence  # noqa: E402


def attempt(fn):
    try:
        val = fn()
    except Exception as e:  # noqa
        return {"exc": type(e).__name__, "msg": str(e)}
    return {"type": type(val).__name__, "repr": repr(val)}


def cache_state():
    ci = Parent.cache_info()
    ui = _unique_value_or_none.cache_info()
    return [ci.hits, ci.misses, ci.currsize, ui.hits, ui.misses, ui.currsize]


def build_args():
    seq_plain = Sequence("ACGTACGTACGTAAACCCGGGTTT", Alphabet.NT_STRICT)
    seq_id = Sequence("ACGTACGTACGTAAACCCGGGTTT", Alphabet.NT_STRICT, id="chr1", type=SequenceType.CHROMOSOME)
    seq_short = Sequence("ACGTAC", Alphabet.NT_STRICT, id="short", type="chunk")
    grand = Parent(id="genome", sequence_type="genome", sequence=Sequence("A" * 40, Alphabet.NT_STRICT))
    grand_short = Parent(id="genome", sequence_type="genome", sequence=Sequence("A" * 4, Alphabet.NT_STRICT))
    seq_with_parent = Sequence(
        "ACGTACGTAC",
        Alphabet.NT_STRICT,
        id="chunk1",
        type=SequenceType.SEQUENCE_CHUNK,
        parent=Parent(
            location=SingleInterval(5, 15, Strand.PLUS, parent=Parent(id="chr1", sequence_type=SequenceType.CHROMOSOME))
        ),
    )
    seq_with_parent_minus = Sequence(
        "ACGTACGTAC",
        Alphabet.NT_STRICT,
        id="chunk1",
        type=SequenceType.SEQUENCE_CHUNK,
        parent=Parent(
            location=SingleInterval(5, 15, Strand.MINUS, parent=Parent(id="chr1", sequence_type="chromosome"))
        ),
    )
    ids = [None, "chr1", "other"]
    types = [None, "chromosome", SequenceType.CHROMOSOME, "chunk"]
    strands = [None, Strand.PLUS, Strand.MINUS, Strand.UNSTRANDED]
    locations = [
        None,
        SingleInterval(0, 5, Strand.PLUS),
        SingleInterval(2, 9, Strand.MINUS),
        SingleInterval(2, 30, Strand.PLUS),
        SingleInterval(0, 0, Strand.PLUS),
        SingleInterval(3, 6, Strand.UNSTRANDED),
        CompoundInterval([0, 8], [4, 12], Strand.MINUS),
        CompoundInterval([0, 8], [4, 12], Strand.PLUS, parent="chr1"),
        SingleInterval(1, 4, Strand.PLUS, parent=Parent(id="chr1", sequence_type="chromosome")),
        SingleInterval(1, 4, Strand.MINUS, parent=Parent(id="zzz", sequence_type="chunk")),
        EmptyLocation(),
    ]
    sequences = [None, seq_plain, seq_id, seq_short, seq_with_parent, seq_with_parent_minus]
    parents = [
        None,
        "chr1",
        grand,
        grand_short,
        Parent(id="chr1", sequence_type=SequenceType.CHROMOSOME),
        Parent(id="chrX", sequence_type=SequenceType.CHROMOSOME),
        seq_id,
        SingleInterval(5, 15, Strand.PLUS, parent=Parent(id="chr1", sequence_type=SequenceType.CHROMOSOME)),
    ]
    return ids, types, strands, locations, sequences, parents


def main_dump(path):
    results = []
    ids, types, strands, locations, sequences, parents = build_args()
    built = []
    n = 0
    for combo in itertools.product(
        range(len(ids)),
        range(len(types)),
        range(len(strands)),
        range(len(locations)),
        range(len(sequences)),
        range(len(parents)),
    ):
        n += 1
        # deterministic thinning: the full product is large
        if (n * 7919) % 11 not in (0, 3):
            continue
        i, t, s, l, q, p = combo
        kwargs = dict(
            id=ids[i],
            sequence_type=types[t],
            strand=strands[s],
            location=locations[l],
            sequence=sequences[q],
            parent=parents[p],
        )
        rec = {"combo": list(combo)}
        try:
            obj = Parent(**kwargs)
        except Exception as e:  # noqa
            rec["ctor"] = {"exc": type(e).__name__, "msg": str(e)}
            results.append(rec)
            continue
        again = Parent(**kwargs)
        rec["same_object_on_repeat"] = obj is again
        rec["repr"] = repr(obj)
        rec["strand_first"] = attempt(lambda: obj.strand)
        rec["strand_second"] = attempt(lambda: obj.strand)
        rec["_strand_property"] = repr(obj._strand_property)
        rec["hash"] = attempt(lambda: hash(obj))
        rec["id"] = repr(obj.id)
        rec["sequence_type"] = repr(obj.sequence_type)
        rec["parent"] = repr(obj.parent)
        rec["strip"] = attempt(lambda: obj.strip_location_info())
        rec["reset_none"] = attempt(lambda: obj.reset_location(None))
        rec["reset_empty"] = attempt(lambda: obj.reset_location(EmptyLocation()))
        rec["reset_single"] = attempt(lambda: obj.reset_location(SingleInterval(0, 3, Strand.MINUS)))
        rec["reset_is_cached"] = attempt(
            lambda: obj.reset_location(SingleInterval(0, 3, Strand.MINUS))
            is Parent(
                id=obj.id,
                sequence_type=obj.sequence_type,
                strand=Strand.MINUS,
                location=SingleInterval(0, 3, Strand.MINUS),
                sequence=obj.sequence,
                parent=obj.parent,
            )
        )
        for k, sq in enumerate(sequences):
            rec[f"has_anc_seq_{k}_T"] = attempt(lambda: obj.has_ancestor_sequence(sq))
            rec[f"has_anc_seq_{k}_F"] = attempt(lambda: obj.has_ancestor_sequence(sq, include_self=False))
        for st in ("chromosome", SequenceType.SEQUENCE_CHUNK, "genome"):
            rec[f"has_anc_{st}"] = attempt(lambda: obj.has_ancestor_of_type(st))
            rec[f"first_anc_{st}"] = attempt(lambda: obj.first_ancestor_of_type(st))
        rec["lift"] = attempt(lambda: obj.lift_child_location_to_parent())
        rec["cache"] = cache_state()
        built.append(obj)
        results.append(rec)

    # pairwise comparisons
    pairs = []
    sample = built[::5]
    others = ["x", None, 3, SingleInterval(0, 1, Strand.PLUS)]
    for a in sample:
        row = []
        for b in sample:
            row.append(
                [
                    a == b,
                    a != b,
                    a.equals_except_location(b),
                    a.equals_except_location(b, require_same_sequence=False),
                    type(a == b).__name__,
                    type(a.equals_except_location(b)).__name__,
                ]
            )
        for o in others:
            row.append([a == o, a.equals_except_location(o), type(a.equals_except_location(o)).__name__])
        pairs.append(row)

    uniq = []
    pool = [None, "a", "b", SequenceType.CHROMOSOME, "chromosome", 0, ""]
    for tup in itertools.product(pool, repeat=3):
        uniq.append(attempt(lambda: _unique_value_or_none(tup)))

    out = {
        "n_ctor": len(results),
        "n_built": len(built),
        "results": results,
        "pairs": pairs,
        "unique": uniq,
        "cache": cache_state(),
    }
    with open(path, "w") as fh:
        json.dump(out, fh, indent=1, sort_keys=True, default=repr)
    print(f"dumped {len(results)} constructor cases ({len(built)} built), {len(sample)}^2 pairs, {len(uniq)} unique cases")


def main_compare(a, b):
    with open(a) as fh:
        ja = json.load(fh)
    with open(b) as fh:
        jb = json.load(fh)
    if ja == jb:
        print(f"IDENTICAL ({ja['n_ctor']} constructor cases, {ja['n_built']} built)")
        return 0
    for key in ja:
        if ja[key] != jb.get(key):
            print("DIFFERENCE in", key)
            if isinstance(ja[key], list):
                for x, y in zip(ja[key], jb[key]):
                    if x != y:
                        print(json.dumps(x)[:2000])
                        print(json.dumps(y)[:2000])
                        break
    return 1


if __name__ == "__main__":
    if sys.argv[1] == "dump":
        main_dump(sys.argv[2])
    else:
        sys.exit(main_compare(sys.argv[2], sys.argv[3]))
