"""
Equivalence harness for the GenBank writer / parser refactorings (property C12).

Usage (from the worktree root /tmp/wt/T12):

    /venv/bin/python _refactor/R2/equiv.py dump  /tmp/pristine.json     # on the pristine checkout
    git apply _refactor/R2/patch.diff
    /venv/bin/python _refactor/R2/equiv.py dump  /tmp/patched.json      # on the refactored checkout
    /venv/bin/python _refactor/R2/equiv.py compare /tmp/pristine.json /tmp/patched.json

The environment has drifted (marshmallow 4, Biopython 1.88, no PyVCF), so this script installs small shims for the
removed third-party API (``post_dump(pass_many=)``, ``SeqFeature(strand=)``, ``SeqFeature.strand``,
``nofuzzy_start`` / ``nofuzzy_end``, the ``vcf`` module).  The same shims are used for both runs, hence they do not
affect the comparison.
"""
import os
import sys

if os.environ.get("PYTHONHASHSEED") != "0":
    os.environ["PYTHONHASHSEED"] = "0"
    os.execv(sys.executable, [sys.executable] + sys.argv)

ROOT = os.path.dirname(os.path.dirname(os.path.dirname(os.path.abspath(__file__))))
sys.path.insert(0, ROOT)
os.chdir(ROOT)

import io  # noqa: E402
import json  # noqa: E402
import random  # noqa: E402
import types  # noqa: E402
import warnings  # noqa: E402
from copy import deepcopy  # noqa: E402
from glob import glob  # noqa: E402

# ---------------------------------------------------------------------------------------------------------------------
# shims for the drifted environment
# ---------------------------------------------------------------------------------------------------------------------
import marshmallow  # noqa: E402

_orig_post_dump = marshmallow.post_dump


def _post_dump(fn=None, pass_many=False, pass_original=False, **kw):
    return _orig_post_dump(fn, pass_collection=pass_many, pass_original=pass_original)


marshmallow.post_dump = _post_dump

_vcf = types.ModuleType("vcf")
_vcf_model = types.ModuleType("vcf.model")
_vcf_model._Record = object
_vcf.model = _vcf_model
_vcf.Reader = None
sys.modules["vcf"] = _vcf
sys.modules["vcf.model"] = _vcf_model

from Bio import SeqFeature as SF  # noqa: E402

_orig_sf_init = SF.SeqFeature.__init__


def _sf_init(
    self,
    location=None,
    type="",
    location_operator="",
    strand=None,
    id="<unknown id>",
    qualifiers=None,
    sub_features=None,
    ref=None,
    ref_db=None,
):
    _orig_sf_init(self, location, type=type, id=id, qualifiers=qualifiers)
    if strand is not None:
        self.location.strand = strand


SF.SeqFeature.__init__ = _sf_init
SF.SeqFeature.strand = property(
    lambda self: self.location.strand, lambda self, v: setattr(self.location, "strand", v)
)
SF.SimpleLocation.nofuzzy_start = property(lambda self: int(self.start))
SF.SimpleLocation.nofuzzy_end = property(lambda self: int(self.end))
SF.CompoundLocation.nofuzzy_start = property(lambda self: min(int(p.start) for p in self.parts))
SF.CompoundLocation.nofuzzy_end = property(lambda self: max(int(p.end) for p in self.parts))

import inscripta.biocantor.location  # noqa: E402,F401
import inscripta.biocantor.io.models  # noqa: E402,F401
from Bio import SeqIO  # noqa: E402
from Bio.Seq import Seq  # noqa: E402
from Bio.SeqFeature import SeqFeature, SimpleLocation, CompoundLocation  # noqa: E402
from Bio.SeqRecord import SeqRecord  # noqa: E402

from inscripta.biocantor.gene import (  # noqa: E402
    AnnotationCollection,
    GeneInterval,
    FeatureIntervalCollection,
    FeatureInterval,
    TranscriptInterval,
    Biotype,
    CDSFrame,
    TranslationTable,
)
from inscripta.biocantor.io.genbank import parser as gbp  # noqa: E402
from inscripta.biocantor.io.genbank import writer as gbw  # noqa: E402
from inscripta.biocantor.io.genbank.constants import GenbankFlavor, GenBankParserType  # noqa: E402
from inscripta.biocantor.io.parser import (  # noqa: E402
    ParsedAnnotationRecord,
    seq_to_parent,
    seq_chunk_to_parent,
)
from inscripta.biocantor.location import (  # noqa: E402
    SingleInterval,
    CompoundInterval,
    EmptyLocation,
    Strand,
)
from inscripta.biocantor.parent import Parent, SequenceType  # noqa: E402
from inscripta.biocantor.sequence import Sequence  # noqa: E402
from inscripta.biocantor.sequence.alphabet import Alphabet  # noqa: E402

MODES = [GenBankParserType.SORTED, GenBankParserType.LOCUS_TAG, GenBankParserType.HYBRID]
FLAVORS = [GenbankFlavor.PROKARYOTIC, GenbankFlavor.EUKARYOTIC]


# ---------------------------------------------------------------------------------------------------------------------
# capture helpers
# ---------------------------------------------------------------------------------------------------------------------
def capture(fn):
    """Run ``fn`` and return a JSON-able record of its value (or exception) and of every warning it raised."""
    with warnings.catch_warnings(record=True) as w:
        warnings.simplefilter("always")
        try:
            val = {"ok": fn()}
        except Exception as e:  # noqa
            val = {"exc": type(e).__name__, "msg": str(e)}
    val["warnings"] = [[type(x.message).__name__, x.category.__name__, str(x.message)] for x in w]
    return json.loads(json.dumps(val, default=str))


def feat_repr(f):
    return {
        "type": f.type,
        "loc": str(f.location),
        "strand": f.location.strand,
        "parts": [[int(p.start), int(p.end), p.strand] for p in f.location.parts],
        "qualifiers": [[k, list(v) if isinstance(v, (list, tuple, set)) else v] for k, v in f.qualifiers.items()],
        "id": f.id,
    }


def parse_text(text, mode, **kw):
    def run():
        recs = list(gbp.parse_genbank(io.StringIO(text), gbk_type=mode, **kw))
        out = []
        for rec in recs:
            col = rec.to_annotation_collection()
            out.append({"dict": col.to_dict(), "repr": repr(col), "n": [len(col.genes), len(col.feature_collections)]})
        return out

    return capture(run)


def write_cols(cols, flavor, **kw):
    def run():
        buf = io.StringIO()
        gbw.collection_to_genbank(cols, buf, flavor, **kw)
        return buf.getvalue()

    return capture(run)


# ---------------------------------------------------------------------------------------------------------------------
# A. real GenBank files: parse in three modes, write in both flavours, parse again
# ---------------------------------------------------------------------------------------------------------------------
def section_real_files():
    out = {}
    files = sorted(glob("tests/data/*.gb") + glob("tests/data/*.gbk") + glob("tests/data/*.gbff"))
    for path in files:
        name = os.path.basename(path)
        with open(path) as fh:
            text = fh.read()
        for mode in MODES:
            out[f"{name}|parse|{mode.name}"] = parse_text(text, mode)
        # writing
        with warnings.catch_warnings():
            warnings.simplefilter("ignore")
            try:
                cols = [r.to_annotation_collection() for r in gbp.parse_genbank(io.StringIO(text))]
            except Exception:
                try:
                    cols = [
                        r.to_annotation_collection()
                        for r in gbp.parse_genbank(io.StringIO(text), gbk_type=GenBankParserType.SORTED)
                    ]
                except Exception:
                    continue
        big = len(text) > 400000
        for flavor in FLAVORS:
            for upd in (False, True):
                if big and upd:
                    continue
                for force in (True, False):
                    if not force and upd:
                        continue
                    key = f"{name}|write|{flavor.name}|upd={upd}|force={force}"
                    res = write_cols(cols, flavor, update_translations=upd, force_strand=force)
                    out[key] = res
                    if "ok" in res and force and not big:
                        for mode in MODES:
                            out[key + f"|reparse|{mode.name}"] = parse_text(res["ok"], mode)
    return out


# ---------------------------------------------------------------------------------------------------------------------
# B. synthetic collections
# ---------------------------------------------------------------------------------------------------------------------
TX_TYPES = [
    None,
    Biotype.protein_coding,
    Biotype.ncRNA,
    Biotype.tRNA,
    Biotype.rRNA,
    Biotype.misc_RNA,
    Biotype.tmRNA,
    Biotype.lncRNA,
    Biotype.mRNA,
    Biotype.pseudogene,
]


def rand_blocks(rng, lo, hi, nmax=4):
    n = rng.randint(1, nmax)
    pts = sorted(rng.sample(range(lo, hi), 2 * n))
    return [pts[i] for i in range(0, 2 * n, 2)], [pts[i] for i in range(1, 2 * n, 2)]


def rand_quals(rng, extra=()):
    q = {}
    for k in rng.sample(["note", "db_xref", "product", "gene_synonym", "codon_start", "protein_id", "translation"], 3):
        if k == "codon_start":
            q[k] = [str(rng.randint(1, 3))]
        else:
            q[k] = [f"{k}_{rng.randint(0, 99)}" for _ in range(rng.randint(1, 2))]
    for k in extra:
        q[k] = ["x"]
    return q


def make_collection(rng, idx):
    seq_len = rng.randint(300, 700)
    seq = "".join(rng.choice("ACGT" if rng.random() < 0.9 else "ACGTN") for _ in range(seq_len))
    name = f"chr{idx}"
    use_chunk = idx % 5 == 4
    if use_chunk:
        c_start = rng.randint(0, 40)
        c_end = seq_len - rng.randint(0, 40)
        parent = seq_chunk_to_parent(seq[c_start:c_end], name, c_start, c_end)
        lo, hi = c_start, c_end
    else:
        parent = seq_to_parent(seq, seq_id=name)
        lo, hi = 0, seq_len
    genes = []
    ngenes = rng.randint(0 if idx % 7 == 6 else 1, 4)
    for g in range(ngenes):
        gstrand = rng.choice([Strand.PLUS, Strand.MINUS])
        glo = rng.randint(lo, hi - 120)
        ghi = rng.randint(glo + 60, min(hi, glo + 300))
        txs = []
        for t in range(rng.randint(1, 3)):
            strand = gstrand if rng.random() < 0.85 else gstrand.reverse()
            es, ee = rand_blocks(rng, glo, ghi)
            coding = rng.random() < 0.6
            kw = {}
            if coding:
                exon = CompoundInterval(es, ee, strand)
                total = len(exon)
                a = rng.randint(0, max(0, total // 3))
                b = rng.randint(max(a + 1, total - total // 3), total)
                cds = exon.relative_interval_to_parent_location(a, b, Strand.PLUS)
                cs = [x.start for x in cds.blocks]
                ce = [x.end for x in cds.blocks]
                frame = rng.choice([CDSFrame.ZERO, CDSFrame.ZERO, CDSFrame.ONE, CDSFrame.TWO])
                from inscripta.biocantor.gene import CDSInterval

                frames = CDSInterval.construct_frames_from_location(CompoundInterval(cs, ce, strand), frame)
                kw = dict(cds_starts=cs, cds_ends=ce, cds_frames=frames)
            txs.append(
                TranscriptInterval(
                    es,
                    ee,
                    strand,
                    qualifiers=rand_quals(rng) if rng.random() < 0.7 else None,
                    transcript_id=rng.choice([None, f"tx{idx}_{g}_{t}"]),
                    transcript_symbol=rng.choice([None, f"txsym{g}{t}"]),
                    transcript_type=rng.choice(TX_TYPES),
                    protein_id=rng.choice([None, f"prot{idx}{g}{t}"]),
                    product=rng.choice([None, "some product"]),
                    sequence_name=name,
                    parent_or_seq_chunk_parent=parent,
                    **kw,
                )
            )
        genes.append(
            GeneInterval(
                txs,
                gene_id=rng.choice([None, "", f"gid{idx}_{g}"]),
                gene_symbol=rng.choice([None, "", f"sym{idx}_{g}"]),
                gene_type=rng.choice([None, Biotype.protein_coding, Biotype.ncRNA]),
                locus_tag=rng.choice([None, "", f"LT{idx}_{g:02d}", f"LT{idx}_{g:02d}", "DUP"]),
                qualifiers=rand_quals(rng) if rng.random() < 0.5 else None,
                sequence_name=name,
                parent_or_seq_chunk_parent=parent,
            )
        )
    fcs = []
    for f in range(rng.randint(0, 2)):
        fstrand = rng.choice([Strand.PLUS, Strand.MINUS])
        feats = []
        for k in range(rng.randint(1, 3)):
            strand = fstrand if rng.random() < 0.8 else fstrand.reverse()
            s, e = rand_blocks(rng, lo, hi, 3)
            feats.append(
                FeatureInterval(
                    s,
                    e,
                    strand,
                    qualifiers=rand_quals(rng) if rng.random() < 0.7 else None,
                    sequence_name=name,
                    feature_types=rng.choice([None, ["promoter"], ["a", "b"]]),
                    feature_name=rng.choice([None, f"fn{f}{k}"]),
                    feature_id=rng.choice([None, f"fid{f}{k}"]),
                    parent_or_seq_chunk_parent=parent,
                )
            )
        fcs.append(
            FeatureIntervalCollection(
                feats,
                feature_collection_name=rng.choice([None, "", f"fcn{idx}_{f}"]),
                feature_collection_id=rng.choice([None, "", f"fcid{idx}_{f}"]),
                locus_tag=rng.choice([None, f"FLT{idx}_{f}"]),
                qualifiers=rand_quals(rng) if rng.random() < 0.5 else None,
                sequence_name=name,
                parent_or_seq_chunk_parent=parent,
            )
        )
    col = AnnotationCollection(
        fcs or None,
        genes or None,
        name=name,
        sequence_name=name,
        sequence_guid=None,
        qualifiers=None,
        parent_or_seq_chunk_parent=parent,
    )
    return col


def mutate_text(rng, text, how):
    """Perturb a written GenBank file at the SeqRecord level to exercise the grouping strategies"""
    recs = list(SeqIO.parse(io.StringIO(text), "genbank"))
    for rec in recs:
        feats = rec.features
        if how == "shuffle":
            rng.shuffle(feats)
        elif how == "reverse":
            feats.reverse()
        elif how == "drop_gene":
            rec.features = [f for f in feats if f.type != "gene" or rng.random() < 0.4]
        elif how == "drop_locus_tag":
            for f in feats:
                if rng.random() < 0.4:
                    f.qualifiers.pop("locus_tag", None)
        elif how == "dup_locus_tag":
            for f in feats:
                if "locus_tag" in f.qualifiers and rng.random() < 0.5:
                    f.qualifiers["locus_tag"] = ["SAME"]
        elif how == "extras":
            new = []
            for f in feats:
                new.append(f)
                r = rng.random()
                if r < 0.25:
                    x = deepcopy(f)
                    x.type = rng.choice(["exon", "misc_feature", "regulatory", "tRNA", "CDS", "mRNA", "gene"])
                    new.append(x)
                elif r < 0.35:
                    x = deepcopy(f)
                    x.type = "misc_feature"
                    x.qualifiers.pop("locus_tag", None)
                    x.qualifiers["note"] = ["hello, world"]
                    new.append(x)
            rec.features = new
        elif how == "dup_transcript":
            new = []
            for f in feats:
                new.append(f)
                if f.type in ("mRNA", "CDS", "tRNA") and rng.random() < 0.5:
                    new.append(deepcopy(f))
            rec.features = new
        elif how == "cds_overhang":
            for f in feats:
                if f.type == "CDS" and rng.random() < 0.7:
                    parts = list(f.location.parts)
                    parts = sorted(parts, key=lambda p: p.start)
                    first = parts[0]
                    if int(first.start) > 3:
                        parts[0] = SimpleLocation(int(first.start) - 3, int(first.end), first.strand)
                    if first.strand == -1:
                        parts = parts[::-1]
                    f.location = parts[0] if len(parts) == 1 else CompoundLocation(parts)
        elif how == "pseudo":
            for f in feats:
                if f.type != "gene" and rng.random() < 0.5:
                    f.qualifiers["pseudo"] = [""]
    buf = io.StringIO()
    SeqIO.write(recs, buf, "genbank")
    return buf.getvalue()


MUTATIONS = [
    "shuffle",
    "reverse",
    "drop_gene",
    "drop_locus_tag",
    "dup_locus_tag",
    "extras",
    "dup_transcript",
    "cds_overhang",
    "pseudo",
]


def section_synthetic():
    out = {}
    rng = random.Random(20261003)
    cols = []
    for idx in range(45):
        with warnings.catch_warnings():
            warnings.simplefilter("ignore")
            cols.append(make_collection(rng, idx))
    for idx, col in enumerate(cols):
        out[f"syn{idx}|todict"] = capture(lambda: col.to_dict())
        for flavor in FLAVORS:
            for force in (True, False):
                for upd in (False, True):
                    key = f"syn{idx}|write|{flavor.name}|force={force}|upd={upd}"
                    res = write_cols([col], flavor, force_strand=force, update_translations=upd)
                    out[key] = res
                    if "ok" not in res:
                        continue
                    if upd:
                        continue
                    for mode in MODES:
                        out[key + f"|reparse|{mode.name}"] = parse_text(res["ok"], mode)
                    if force:
                        mrng = random.Random(idx * 1000 + flavor.value)
                        for how in MUTATIONS:
                            with warnings.catch_warnings():
                                warnings.simplefilter("ignore")
                                try:
                                    mtext = mutate_text(mrng, res["ok"], how)
                                except Exception as e:  # noqa
                                    out[key + f"|mut={how}"] = f"mutation failed {type(e).__name__}"
                                    continue
                            for mode in MODES:
                                out[key + f"|mut={how}|{mode.name}"] = parse_text(mtext, mode)
        # direct calls to the feature converters
        for gi, gene in enumerate(col.genes):
            for flavor in FLAVORS:
                for force in (True, False):
                    tt = TranslationTable.PROKARYOTE if flavor == GenbankFlavor.PROKARYOTIC else TranslationTable.DEFAULT
                    out[f"syn{idx}|g2f|{gi}|{flavor.name}|{force}"] = capture(
                        lambda: [feat_repr(f) for f in gbw.gene_to_feature(gene, flavor, force, tt, True)]
                    )
                    out[f"syn{idx}|t2f|{gi}|{flavor.name}|{force}"] = capture(
                        lambda: [
                            feat_repr(f)
                            for f in gbw.transcripts_to_feature(gene.transcripts, Strand.MINUS, flavor, force, tt)
                        ]
                    )
                    out[f"syn{idx}|t2f_kw|{gi}|{flavor.name}|{force}"] = capture(
                        lambda: [
                            feat_repr(f)
                            for f in gbw.transcripts_to_feature(
                                gene.transcripts,
                                Strand.PLUS,
                                flavor,
                                force,
                                tt,
                                gene_symbol="",
                                locus_tag="",
                                update_translations=True,
                            )
                        ]
                    )
            for ti, tx in enumerate(gene.transcripts):
                if tx.is_coding:
                    for upd in (True, False):
                        q = {"a": ["b"], "translation": ["OLD"]}
                        out[f"syn{idx}|cds|{gi}|{ti}|{upd}"] = capture(
                            lambda: [
                                feat_repr(gbw.add_cds_feature(tx, q, Strand.PLUS, TranslationTable.DEFAULT, upd)),
                                q,
                            ]
                        )
        for fi, fc in enumerate(col.feature_collections):
            for flavor in FLAVORS:
                for force in (True, False):
                    out[f"syn{idx}|fc2f|{fi}|{flavor.name}|{force}"] = capture(
                        lambda: [
                            feat_repr(f)
                            for f in gbw.gene_to_feature(fc, flavor, force, TranslationTable.DEFAULT, False)
                        ]
                    )
                    out[f"syn{idx}|fi2f|{fi}|{force}"] = capture(
                        lambda: [
                            feat_repr(f)
                            for f in gbw.feature_intervals_to_features(fc.feature_intervals, Strand.MINUS, force)
                        ]
                    )
                    out[f"syn{idx}|fi2f_kw|{fi}|{force}"] = capture(
                        lambda: [
                            feat_repr(f)
                            for f in gbw.feature_intervals_to_features(
                                fc.feature_intervals, Strand.PLUS, force, feature_name="nm", locus_tag="lt"
                            )
                        ]
                    )

    # multi-collection exports and the optional arguments
    several = cols[:4]
    out["multi|default"] = capture(lambda: _write(several))
    out["multi|organism_source"] = capture(lambda: _write(several, organism="E. coli", source="src"))
    out["multi|organism_empty"] = capture(lambda: _write(several, organism="", source=""))
    annots = [{"molecule_type": "", "topology": "circular"}, {"molecule_type": "RNA"}, {}, {"organism": "zzz"}]
    out["multi|annotations"] = capture(lambda: [_write(several, seqrecord_annotations=annots), annots])
    out["multi|annotations_organism"] = capture(
        lambda: [_write(several, seqrecord_annotations=annots, organism="O", source="S"), annots]
    )
    out["multi|annotations_mismatch"] = capture(lambda: _write(several, seqrecord_annotations=annots[:2]))
    out["multi|annotations_empty_list"] = capture(lambda: _write(several, seqrecord_annotations=[]))
    out["multi|annotations_none_entry"] = capture(
        lambda: _write(several, seqrecord_annotations=[None, {}, {}, {}])
    )
    out["multi|flavor_none"] = capture(lambda: _write(several, genbank_type=None))
    out["multi|empty"] = capture(lambda: _write([]))
    nos = AnnotationCollection(None, [GeneInterval([TranscriptInterval([0], [10], Strand.PLUS)])], sequence_name="x")
    out["multi|no_sequence"] = capture(lambda: _write([several[0], nos]))
    guid_col = AnnotationCollection(
        None,
        list(cols[0].genes),
        sequence_name="chr0",
        sequence_guid=__import__("uuid").UUID(int=7),
        parent_or_seq_chunk_parent=cols[0].genes[0].transcripts[0].chunk_relative_location.parent,
    )
    out["multi|guid"] = capture(lambda: _write([guid_col]))
    # path output
    import tempfile

    def to_path():
        with tempfile.TemporaryDirectory() as d:
            p = os.path.join(d, "x.gb")
            gbw.collection_to_genbank(several, p)
            from pathlib import Path

            gbw.collection_to_genbank(several, Path(d) / "y.gb", GenbankFlavor.EUKARYOTIC)
            return [Path(p).read_text(), (Path(d) / "y.gb").read_text()]

    out["multi|paths"] = capture(to_path)

    # parse_genbank options
    text = _write(cols[:3])
    dup = text + text
    for mode in MODES:
        out[f"opts|dup|{mode.name}"] = parse_text(dup, mode)
        out[f"opts|dup_allowed|{mode.name}"] = parse_text(dup, mode, allow_duplicate_sequence_identifiers=True)
        out[f"opts|variants_unknown|{mode.name}"] = parse_text(text, mode, parsed_variants={"nope": []})
        out[f"opts|variants_both|{mode.name}"] = parse_text(
            text, mode, parsed_variants={"nope": []}, variant_handle_or_path="x.vcf"
        )
        out[f"opts|variants_empty_list|{mode.name}"] = parse_text(text, mode, parsed_variants={"chr0": []})
    out["opts|int_mode"] = [parse_text(text, m) for m in (1, 2, 3, 4, None)]
    return out


def _write(cols, genbank_type=GenbankFlavor.PROKARYOTIC, **kw):
    buf = io.StringIO()
    gbw.collection_to_genbank(cols, buf, genbank_type, **kw)
    return buf.getvalue()


# ---------------------------------------------------------------------------------------------------------------------
# C. Location.to_biopython
# ---------------------------------------------------------------------------------------------------------------------
def loc_repr(x):
    return [type(x).__name__, str(x), x.strand, [[int(p.start), int(p.end), p.strand] for p in x.parts]]


def section_locations():
    out = {}
    rng = random.Random(5)
    strands = [Strand.PLUS, Strand.MINUS, Strand.UNSTRANDED]
    parent = Parent(id="p", sequence=Sequence("A" * 500, Alphabet.NT_STRICT))
    for i in range(60):
        s, e = rand_blocks(rng, 0, 400, 5)
        strand = rng.choice(strands)
        par = parent if i % 3 == 0 else None
        out[f"compound{i}"] = capture(lambda: loc_repr(CompoundInterval(s, e, strand, par).to_biopython()))
        out[f"compound_cl{i}"] = capture(lambda: loc_repr(CompoundInterval(s, e, strand, par).to_compound_location()))
        out[f"single{i}"] = capture(lambda: loc_repr(SingleInterval(s[0], e[-1], strand, par).to_biopython()))
        out[f"single_fl{i}"] = capture(
            lambda: loc_repr(SingleInterval(s[0], e[-1], strand, par).to_feature_location())
        )
        out[f"opt{i}"] = capture(lambda: loc_repr(CompoundInterval(s, e, strand, par).optimize_blocks().to_biopython()))
    out["overlapping"] = capture(lambda: loc_repr(CompoundInterval([0, 5], [10, 20], Strand.PLUS).to_biopython()))
    out["zero"] = capture(lambda: loc_repr(SingleInterval(5, 5, Strand.PLUS).to_biopython()))
    out["empty"] = capture(lambda: EmptyLocation().to_biopython())
    return out


# ---------------------------------------------------------------------------------------------------------------------
# D. parser helper units
# ---------------------------------------------------------------------------------------------------------------------
ALL_TYPES = ["gene", "mRNA", "ncRNA", "tRNA", "rRNA", "misc_RNA", "tmRNA", "CDS", "exon", "misc_feature", "source"]


def mk_feature(rng, ftype=None, strand=None, tag=True):
    ftype = ftype or rng.choice(ALL_TYPES)
    strand = strand if strand is not None else rng.choice([1, -1])
    n = rng.choice([1, 1, 2, 3])
    pts = sorted(rng.sample(range(0, 300), 2 * n))
    parts = [SimpleLocation(pts[2 * i], pts[2 * i + 1], strand) for i in range(n)]
    if strand == -1:
        parts = parts[::-1]
    loc = parts[0] if n == 1 else CompoundLocation(parts)
    q = {}
    if tag and rng.random() < 0.8:
        q["locus_tag"] = [rng.choice(["A", "B", "C", "D"])]
    if rng.random() < 0.5:
        q["gene"] = [rng.choice(["g1", "g2"])]
    if rng.random() < 0.3:
        q["codon_start"] = [str(rng.randint(1, 3))]
    if rng.random() < 0.3:
        q["protein_id"] = ["P" + str(rng.randint(0, 9)), "Q"]
    if rng.random() < 0.3:
        q["note"] = [rng.choice(["", "  ", "word; another", "(x)"])]
    if rng.random() < 0.2:
        q["gbkey"] = ["Gene", "Other"]
    if rng.random() < 0.2:
        q["Name"] = ["nm"]
    if rng.random() < 0.2:
        q["ID"] = ["theid"]
    if rng.random() < 0.1:
        q["pseudo"] = [""]
    return SeqFeature(loc, type=ftype, qualifiers=q)


def short(f):
    return [f.type, int(f.location.start), int(f.location.end), f.location.strand, f.qualifiers.get("locus_tag")]


def mk_parser(cls, rec):
    return cls([rec], None, gbp.GeneFeature.to_gene_model, gbp.FeatureIntervalGenBankCollection.to_feature_model)


def section_parser_units():
    out = {}
    rng = random.Random(99)
    rec = SeqRecord(Seq("ACGT" * 100), id="rec1", name="rec1")
    B = gbp.BaseGenBankParser
    for i in range(150):
        n = rng.randint(0, 9)
        feats = [mk_feature(rng) for _ in range(n)]
        if i % 3 == 0:
            # canonical-ish ordering
            feats = [mk_feature(rng, t) for t in rng.choice(
                [["gene", "mRNA", "CDS", "tRNA", "rRNA", "gene", "CDS"],
                 ["gene", "mRNA", "CDS", "gene", "ncRNA", "gene", "CDS"],
                 ["gene", "tRNA", "CDS"],
                 ["CDS", "CDS", "mRNA", "gene", "mRNA", "mRNA", "CDS", "CDS"],
                 ["exon", "gene", "exon", "mRNA", "exon", "CDS", "misc_feature"],
                 ["tRNA", "mRNA", "CDS", "ncRNA", "mRNA", "gene"]])]
        out[f"sort{i}"] = capture(lambda: [short(f) for f in B._sort_features_by_position_and_type(feats)])
        out[f"group{i}"] = capture(lambda: [[short(f) for f in g] for g in B._group_sorted_features_by_type(feats)])
        out[f"group_sorted{i}"] = capture(
            lambda: [
                [short(f) for f in g]
                for g in B._group_sorted_features_by_type(B._sort_features_by_position_and_type(feats))
            ]
        )

        def by_position():
            p = mk_parser(gbp.SortedGenBankParser, rec)
            p._group_features_by_position(feats, rec, 0)
            return [
                [
                    g.seqrecord.id,
                    short(g.gene_feature) if g.gene_feature else None,
                    [short(f) for f in g.transcript_features],
                    [short(f) for f in g.cds_features],
                ]
                for g in p.grouped_gene_features[0]
            ]

        out[f"bypos{i}"] = capture(by_position)

        tagged = [f for f in feats if "locus_tag" in f.qualifiers]

        def by_tag(sort):
            fs = sorted(tagged, key=lambda f: f.qualifiers["locus_tag"]) if sort else tagged
            p = mk_parser(gbp.LocusTagGenBankParser, rec)
            p._group_features_by_locus_tag(fs, rec, 0)
            return [
                [
                    short(g.gene_feature) if g.gene_feature else None,
                    [short(f) for f in g.transcript_features],
                    [short(f) for f in g.cds_features],
                ]
                for g in p.grouped_gene_features[0]
            ]

        out[f"bytag{i}"] = capture(lambda: by_tag(True))
        out[f"bytag_unsorted{i}"] = capture(lambda: by_tag(False))
        out[f"validate{i}"] = capture(lambda: [B.validate_seqfeature(f) for f in feats])
        out[f"construct{i}"] = capture(
            lambda: [repr(B._construct_gene_from_feature(deepcopy(f), rec)) for f in feats]
        )

        # whole parsers directly on a SeqRecord
        for cls in (gbp.SortedGenBankParser, gbp.LocusTagGenBankParser, gbp.HybridGenBankParser):

            def whole():
                r = SeqRecord(Seq("ACGT" * 100), id="rec1", name="rec1")
                r.features = deepcopy(feats)
                r2 = SeqRecord(Seq("ACGT" * 100), id="rec2", name="rec2")
                r2.features = deepcopy(feats[::-1])
                p = cls([r, r2], None, gbp.GeneFeature.to_gene_model, gbp.FeatureIntervalGenBankCollection.to_feature_model)
                res = []
                try:
                    for x in p.parse():
                        res.append(x.to_annotation_collection().to_dict())
                finally:
                    state = {
                        "gff": [[short(f) for f in fs] for fs in p.gene_filtered_features],
                        "ff": [[short(f) for f in fs] for fs in p.feature_features],
                        "wo": [[short(f) for f in fs] for fs in getattr(p, "gene_filtered_features_without_locus_tag", [])],
                        "sources": [short(s) if s else None for s in p.sources],
                        "genes": [[repr(g) for g in gs] for gs in p.genes],
                        "ngenes": p.num_genes,
                        "nfc": p.num_feature_collections,
                        "fcs": [[sorted(fc.types) + [fc.start] for fc in fcs] for fcs in p.feature_collections],
                    }
                return [res, state]

            out[f"whole{i}|{cls.__name__}"] = capture(whole)
            if "exc" in out[f"whole{i}|{cls.__name__}"]:
                # still want the state of the parser at the time of the failure

                def state_only():
                    r = SeqRecord(Seq("ACGT" * 100), id="rec1", name="rec1")
                    r.features = deepcopy(feats)
                    p = cls([r], None, gbp.GeneFeature.to_gene_model, gbp.FeatureIntervalGenBankCollection.to_feature_model)
                    try:
                        list(p.parse())
                    except Exception as e:  # noqa
                        err = [type(e).__name__, str(e)]
                    else:
                        err = None
                    return [
                        err,
                        [[short(f) for f in fs] for fs in p.gene_filtered_features],
                        [[short(f) for f in fs] for fs in p.feature_features],
                        [[repr(g) for g in gs] for gs in p.genes],
                    ]

                out[f"whole_state{i}|{cls.__name__}"] = capture(state_only)

    # feature classes
    for i in range(120):
        tx_f = mk_feature(rng, rng.choice(["mRNA", "tRNA", "ncRNA", "misc_RNA"]))
        strand = tx_f.location.strand
        cds_f = mk_feature(rng, "CDS", strand=strand) if rng.random() < 0.7 else None
        gene_f = mk_feature(rng, "gene", strand=strand)

        def tx_unit():
            tx = gbp.TranscriptFeature(deepcopy(tx_f), rec, cds_feature=deepcopy(cds_f) if cds_f else None)
            res = {
                "str": str(tx),
                "type": tx.type,
                "strand": str(tx.strand),
                "start": tx.start,
                "exon": repr(tx.find_exon_interval()),
                "exon2": repr(tx.find_exon_interval()),
                "txint": repr(tx.find_transcript_interval()),
            }
            cds = tx.find_cds_interval()
            res["cds"] = repr(cds)
            res["cds2"] = repr(tx.find_cds_interval())
            res["cds_is_cached"] = tx.find_cds_interval() is cds
            if not cds.is_empty:
                res["frames"] = tx.construct_frames(cds)
            res["quals"] = [
                tx.get_qualifier_from_tx_or_cds_features(k)
                for k in ("gene", "protein_id", "locus_tag", "codon_start", "nope", "note")
            ]
            res["merged"] = tx.merge_cds_qualifiers_to_transcript()
            return res

        out[f"tx{i}"] = capture(tx_unit)

        def gene_unit():
            g = gbp.GeneFeature(deepcopy(gene_f), rec)
            res = {"has": g.has_children, "str": str(g), "type": g.type, "start": g.start, "strand": str(g.strand)}
            if i % 4 == 0:
                g.infer_child()
            elif cds_f and i % 4 == 1:
                g.add_child(deepcopy(cds_f))
            elif cds_f:
                g.add_child(deepcopy(tx_f), deepcopy(cds_f))
                if i % 5 == 0:
                    g.add_child(deepcopy(tx_f), deepcopy(cds_f))
            else:
                g.add_child(deepcopy(tx_f))
            res["repr"] = repr(g)
            res["has2"] = g.has_children
            res["model"] = gbp.GeneFeature.to_gene_model(g)
            return res

        out[f"gene{i}"] = capture(gene_unit)
        out[f"gene_bad_child{i}"] = capture(
            lambda: gbp.GeneFeature(deepcopy(gene_f), rec).add_child(mk_feature(random.Random(i), "exon"))
        )
        out[f"from_tx{i}"] = capture(
            lambda: repr(gbp.GeneFeature.from_transcript_or_cds_feature(deepcopy(cds_f or tx_f), rec))
        )
        out[f"wrong_type{i}"] = capture(lambda: gbp.CDSFeature(deepcopy(tx_f), rec))
        out[f"cds_str{i}"] = capture(lambda: str(gbp.CDSFeature(deepcopy(cds_f), rec)) if cds_f else None)

        feats = [mk_feature(rng, rng.choice(["misc_feature", "regulatory", "repeat_region"])) for _ in range(rng.randint(1, 4))]
        if i % 6 == 0:
            feats.append(deepcopy(feats[0]))

        def fc_unit():
            fc = gbp.FeatureIntervalGenBankCollection(deepcopy(feats), rec)
            return [sorted(fc.types), fc.start, gbp.FeatureIntervalGenBankCollection.to_feature_model(fc)]

        out[f"fc{i}"] = capture(fc_unit)

    noloc = SeqFeature(None, type="misc_feature")
    out["fc_noloc"] = capture(lambda: gbp.FeatureIntervalGenBankCollection([mk_feature(rng, "misc_feature"), noloc], rec))
    out["feat_noloc"] = capture(lambda: gbp.GeneFeature(SeqFeature(None, type="gene"), rec))
    mixed = SeqFeature(CompoundLocation([SimpleLocation(0, 5, 1), SimpleLocation(8, 12, -1)]), type="gene")
    out["feat_mixed"] = capture(lambda: gbp.GeneFeature(mixed, rec))
    out["validate_special"] = capture(
        lambda: [gbp.BaseGenBankParser.validate_seqfeature(f) for f in (noloc, mixed, SeqFeature(SimpleLocation(3, 3, 1)))]
    )
    return out


# ---------------------------------------------------------------------------------------------------------------------
# E. io/parser.py
# ---------------------------------------------------------------------------------------------------------------------
def section_io_parser():
    out = {}
    rng = random.Random(3)
    with warnings.catch_warnings():
        warnings.simplefilter("ignore")
        cols = [make_collection(rng, i) for i in range(6)]
    text = _write(cols)
    with warnings.catch_warnings():
        warnings.simplefilter("ignore")
        recs = list(gbp.parse_genbank(io.StringIO(text)))

    for i, rec in enumerate(recs):
        out[f"rec{i}"] = capture(lambda: [repr(rec.to_annotation_collection()), rec.to_annotation_collection().to_dict()])
        bare = ParsedAnnotationRecord(annotation=rec.annotation)
        out[f"bare{i}"] = capture(lambda: [repr(bare.to_annotation_collection()), bare.to_annotation_collection().to_dict()])
        out[f"bare_fasta{i}"] = capture(lambda: bare.to_fasta(io.StringIO()))

        def fasta():
            buf = io.StringIO()
            rec.to_fasta(buf)
            return buf.getvalue()

        out[f"fasta{i}"] = capture(fasta)
        strict = ParsedAnnotationRecord(annotation=rec.annotation, seqrecord=rec.seqrecord, alphabet=Alphabet.NT_STRICT)
        out[f"strict{i}"] = capture(lambda: repr(strict.to_annotation_collection().genes[0].get_reference_sequence()) if strict.to_annotation_collection().genes else None)
    out["many"] = capture(
        lambda: [repr(c) for c in ParsedAnnotationRecord.parsed_annotation_records_to_model(iter(recs))]
    )
    for i in range(20):
        seq = "".join(rng.choice("ACGTN-") for _ in range(rng.randint(0, 30)))
        out[f"s2p{i}"] = capture(lambda: _parent_repr(seq_to_parent(seq)))
        out[f"s2p_kw{i}"] = capture(
            lambda: _parent_repr(seq_to_parent(seq, Alphabet.NT_EXTENDED_GAPPED, f"id{i}", SequenceType.SEQUENCE_CHUNK))
        )
        a = rng.randint(0, 50)
        out[f"sc2p{i}"] = capture(lambda: _parent_repr(seq_chunk_to_parent(seq, f"chr{i}", a, a + len(seq))))
        out[f"sc2p_kw{i}"] = capture(
            lambda: _parent_repr(
                seq_chunk_to_parent(seq, f"chr{i}", a, a + len(seq), Strand.MINUS, Alphabet.NT_EXTENDED_GAPPED)
            )
        )
    return out


def _parent_repr(p):
    res = [repr(p), str(p.sequence), repr(p.location), p.id, str(p.sequence_type)]
    if p.sequence is not None:
        res += [repr(p.sequence), p.sequence.id, str(p.sequence.sequence_type), str(p.sequence.alphabet)]
        if p.sequence.parent:
            res.append(_parent_repr(p.sequence.parent))
    if p.parent:
        res.append(_parent_repr(p.parent))
    if p.location is not None and p.location.parent:
        res.append(_parent_repr(p.location.parent))
    return res


def main():
    if sys.argv[1] == "dump":
        res = {
            "locations": section_locations(),
            "io_parser": section_io_parser(),
            "parser_units": section_parser_units(),
            "synthetic": section_synthetic(),
            "real": section_real_files(),
        }
        with open(sys.argv[2], "w") as fh:
            json.dump(res, fh, default=str)
        n = sum(len(v) for v in res.values())
        nexc = sum(1 for v in res.values() for x in v.values() if isinstance(x, dict) and "exc" in x)
        nwarn = sum(1 for v in res.values() for x in v.values() if isinstance(x, dict) and x.get("warnings"))
        print(f"{n} observations ({nexc} raised, {nwarn} warned) written to {sys.argv[2]}")
    else:
        with open(sys.argv[2]) as fa, open(sys.argv[3]) as fb:
            a, b = json.load(fa), json.load(fb)
        bad = 0
        for sec in sorted(set(a) | set(b)):
            ka, kb = a.get(sec, {}), b.get(sec, {})
            for k in sorted(set(ka) | set(kb)):
                if ka.get(k, "<missing>") != kb.get(k, "<missing>"):
                    bad += 1
                    if bad <= 15:
                        print("DIFF", sec, k)
                        print("   A:", json.dumps(ka.get(k, "<missing>"))[:600])
                        print("   B:", json.dumps(kb.get(k, "<missing>"))[:600])
        total = sum(len(v) for v in a.values())
        print(f"compared {total} observations: {bad} differences")
        sys.exit(1 if bad else 0)


if __name__ == "__main__":
    main()
