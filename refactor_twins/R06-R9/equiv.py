"""Equivalence harness for the C06 refactorings.

Usage (from the worktree root):
    /venv/bin/python _refactor/R2/equiv.py dump /tmp/pristine.json      # on pristine code
    git apply _refactor/R2/patch.diff
    /venv/bin/python _refactor/R2/equiv.py dump /tmp/patched.json       # on refactored code
    /venv/bin/python _refactor/R2/equiv.py compare /tmp/pristine.json /tmp/patched.json

Every call is recorded as repr(result) or as "EXC <type>: <message>", so exception types and messages are compared
as well as values.
"""
import hashlib
import json
import os
import sys

if os.environ.get("PYTHONHASHSEED") != "0":  # reprs of sets must be reproducible between the two runs
    os.execve(sys.executable, [sys.executable] + sys.argv, dict(os.environ, PYTHONHASHSEED="0"))

sys.path.insert(0, os.getcwd())  # run from the worktree root

import inscripta.biocantor.location  # noqa: F401  (must come first: circular import otherwise)
from inscripta.biocantor.gene.cds import CDSInterval
from inscripta.biocantor.gene.cds_frame import CDSFrame, CDSPhase
from inscripta.biocantor.gene.feature import FeatureInterval, FeatureIntervalCollection
from inscripta.biocantor.gene.transcript import TranscriptInterval
from inscripta.biocantor.location.location_impl import SingleInterval, CompoundInterval
from inscripta.biocantor.location.strand import Strand
from inscripta.biocantor.parent.parent import Parent, SequenceType
from inscripta.biocantor.sequence.alphabet import Alphabet
from inscripta.biocantor.sequence.sequence import Sequence

GENOME = "AAGTATTCTTGGACCTAATTAAAATGCGTTAGGCCATGACGTAAGGCTTTGATTCCAGTAAGGACTAAACGGCTTGGCAAAACTGATAGCCAT"  # 93 nt


def seq_to_parent(seq, seq_id="chr1"):
    return Parent(
        sequence=Sequence(seq, Alphabet.NT_EXTENDED_GAPPED, type=SequenceType.CHROMOSOME, id=seq_id),
        location=SingleInterval(0, len(seq), Strand.PLUS),
    )


def seq_chunk_to_parent(seq, sequence_name, start, end, strand=Strand.PLUS):
    chunk_id = f"{sequence_name}:{start}-{end}"
    return Parent(
        id=chunk_id,
        sequence=Sequence(
            seq,
            Alphabet.NT_EXTENDED_GAPPED,
            id=chunk_id,
            type=SequenceType.SEQUENCE_CHUNK,
            parent=Parent(
                location=SingleInterval(
                    start, end, strand, parent=Parent(id=sequence_name, sequence_type=SequenceType.CHROMOSOME)
                )
            ),
        ),
    )


def parents():
    yield "noparent", None
    yield "chrom", seq_to_parent(GENOME)
    yield "chrom_noseq", Parent(id="chr1", sequence_type=SequenceType.CHROMOSOME)
    for s, e in [(0, 93), (5, 60), (12, 40), (30, 93), (0, 20), (70, 90)]:
        yield f"chunk{s}_{e}", seq_chunk_to_parent(GENOME[s:e], "chr1", s, e)


def frames_for(starts, ends, strand, first=CDSFrame.ZERO):
    if len(starts) == 1:
        loc = SingleInterval(starts[0], ends[0], strand)
    else:
        loc = CompoundInterval(starts, ends, strand)
    return CDSInterval.construct_frames_from_location(loc, first)


# (exon_starts, exon_ends, cds_starts, cds_ends)
STRUCTURES = [
    ([2], [40], None, None),
    ([2], [40], [2], [40]),
    ([2], [40], [8], [29]),
    ([2], [40], [2], [20]),
    ([2], [40], [20], [40]),
    ([2, 20, 50], [10, 35, 80], None, None),
    ([2, 20, 50], [10, 35, 80], [2, 20, 50], [10, 35, 80]),
    ([2, 20, 50], [10, 35, 80], [5, 20, 50], [10, 35, 62]),
    ([2, 20, 50], [10, 35, 80], [20, 50], [35, 80]),
    ([2, 20, 50], [10, 35, 80], [2, 20], [10, 35]),
    ([2, 20, 50], [10, 35, 80], [22], [34]),
    ([2, 20, 50], [10, 35, 80], [20], [35]),
    ([2, 20, 50], [10, 35, 80], [8, 20, 50], [10, 35, 51]),
    ([2, 20, 50], [10, 35, 80], [9, 20, 50], [10, 35, 80]),
    ([2, 20, 50], [10, 35, 80], [2, 20, 50], [10, 35, 79]),
    ([0, 12, 30, 60], [6, 25, 45, 93], [14, 30, 60], [25, 45, 70]),
    ([0, 12, 30, 60], [6, 25, 45, 93], [0, 12, 30, 60], [6, 25, 45, 93]),
    ([0, 12, 30, 60], [6, 25, 45, 93], [3, 12, 30], [6, 25, 45]),
    ([10, 15], [15, 30], [12, 15], [15, 27]),  # adjacent blocks (0bp intron)
]


def show(res):
    """repr() of a result, except that objects with a default (address-bearing) repr are shown with str()."""
    if hasattr(res, "__next__"):
        res = list(res)
    if isinstance(res, (list, tuple)):
        return "[" + ", ".join(show(x) for x in res) + "]"
    if type(res).__name__ == "Sequence":
        return f"Sequence<{res}|{res!r}>"
    if type(res).__name__ in ("GFFRow", "GFFAttributes", "BED12"):
        return f"{type(res).__name__}<{res}>"
    return repr(res)


def call(fn, *args, **kwargs):
    try:
        return show(fn(*args, **kwargs))
    except Exception as e:  # noqa: BLE001
        return f"EXC {type(e).__name__}: {e}"


def attr(obj, name):
    try:
        return show(getattr(obj, name))
    except Exception as e:  # noqa: BLE001
        return f"EXC {type(e).__name__}: {e}"


POSITIONS = list(range(-2, 96))
REL_POSITIONS = list(range(-2, 70))
INTERVALS = [(s, e) for s in range(0, 93, 7) for e in (s, s + 1, s + 5, s + 16, s + 40)]
REL_INTERVALS = [(s, e) for s in range(-1, 60, 5) for e in (s, s + 1, s + 4, s + 13, s + 50)]
STRANDS = [Strand.PLUS, Strand.MINUS, Strand.UNSTRANDED]

FEATURE_POS_METHODS = [
    "sequence_pos_to_feature",
    "chunk_relative_pos_to_feature",
]
FEATURE_RELPOS_METHODS = [
    "feature_pos_to_sequence",
    "feature_pos_to_chunk_relative",
]
FEATURE_INTERVAL_METHODS = ["sequence_interval_to_feature", "chunk_relative_interval_to_feature"]
FEATURE_RELINTERVAL_METHODS = ["feature_interval_to_sequence", "feature_interval_to_chunk_relative"]

TX_POS_METHODS = FEATURE_POS_METHODS + [
    "sequence_pos_to_transcript",
    "chunk_relative_pos_to_transcript",
    "sequence_pos_to_cds",
    "chunk_relative_pos_to_cds",
]
TX_RELPOS_METHODS = FEATURE_RELPOS_METHODS + [
    "transcript_pos_to_sequence",
    "transcript_pos_to_chunk_relative",
    "cds_pos_to_sequence",
    "cds_pos_to_chunk_relative",
    "cds_pos_to_transcript",
    "transcript_pos_to_cds",
]
TX_INTERVAL_METHODS = FEATURE_INTERVAL_METHODS + [
    "sequence_interval_to_transcript",
    "chunk_relative_interval_to_transcript",
    "sequence_interval_to_cds",
    "chunk_relative_interval_to_cds",
]
TX_RELINTERVAL_METHODS = FEATURE_RELINTERVAL_METHODS + [
    "transcript_interval_to_sequence",
    "transcript_interval_to_chunk_relative",
    "cds_interval_to_sequence",
    "cds_interval_to_chunk_relative",
]
CDS_POS_METHODS = FEATURE_POS_METHODS + ["sequence_pos_to_cds", "chunk_relative_pos_to_cds", "sequence_pos_to_amino_acid"]
CDS_RELPOS_METHODS = FEATURE_RELPOS_METHODS + ["cds_pos_to_sequence", "cds_pos_to_chunk_relative"]
CDS_INTERVAL_METHODS = FEATURE_INTERVAL_METHODS + ["sequence_interval_to_cds", "chunk_relative_interval_to_cds"]
CDS_RELINTERVAL_METHODS = FEATURE_RELINTERVAL_METHODS + ["cds_interval_to_sequence", "cds_interval_to_chunk_relative"]

COMMON_ATTRS = [
    "chromosome_location",
    "chunk_relative_location",
    "_chunk_relative_bounded_chromosome_location",
    "chromosome_span",
    "chromosome_gaps_location",
    "chunk_relative_span",
    "chunk_relative_gaps_location",
    "blocks",
    "relative_blocks",
    "chunk_relative_blocks",
    "num_blocks",
    "num_chunk_relative_blocks",
    "strand",
    "chunk_relative_strand",
    "is_primary_feature",
    "is_chunk_relative",
    "chunk_relative_size",
    "has_sequence",
    "chunk_relative_start",
    "chunk_relative_end",
    "start",
    "end",
    "identifiers",
    "identifiers_dict",
    "id",
    "name",
    "guid",
]
TX_ATTRS = COMMON_ATTRS + [
    "is_primary_tx",
    "cds_location",
    "cds_chunk_relative_location",
    "chromosome_intron_location",
    "chunk_relative_intron_location",
    "is_coding",
    "has_in_frame_stop",
    "cds_size",
    "chunk_relative_cds_size",
    "cds_start",
    "cds_end",
    "chunk_relative_cds_start",
    "chunk_relative_cds_end",
    "cds_blocks",
    "chunk_relative_cds_blocks",
]
FEATURE_ATTRS = COMMON_ATTRS + [
    "cds_location",
    "cds_chunk_relative_location",
    "is_coding",
    "has_in_frame_stop",
    "cds_size",
    "chunk_relative_cds_size",
    "cds_start",
    "cds_end",
    "chunk_relative_cds_start",
    "chunk_relative_cds_end",
]
CDS_ATTRS = COMMON_ATTRS + [
    "frames",
    "chunk_relative_frames",
    "num_codons",
    "num_chunk_relative_codons",
    "has_canonical_start_codon",
    "has_valid_stop",
    "has_in_frame_stop",
    "chunk_relative_codon_locations",
    "chromosome_codon_locations",
]
COMMON_CALLS = [
    ("__len__", (), {}),
    ("__str__", (), {}),
    ("__repr__", (), {}),
    ("to_dict", (), {}),
    ("to_dict", (False,), {}),
    ("get_spliced_sequence", (), {}),
    ("get_reference_sequence", (), {}),
    ("get_genomic_sequence", (), {}),
    ("export_qualifiers", (), {}),
    ("export_qualifiers", ({"a": {"x"}, "k1": {"zz"}},), {}),
    ("_merge_qualifiers", (), {}),
    ("_merge_qualifiers", ({"k1": {"zz", "v1"}, "new": {"n"}},), {}),
    ("_export_qualifiers_to_list", (), {}),
    ("_parent_to_dict", (), {}),
    ("lift_over_to_first_ancestor_of_type", (), {}),
]
TX_CALLS = COMMON_CALLS + [
    ("get_5p_interval", (), {}),
    ("get_3p_interval", (), {}),
    ("get_transcript_sequence", (), {}),
    ("get_cds_sequence", (), {}),
    ("get_protein_sequence", (), {}),
    ("get_protein_sequence", (), {"truncate_at_in_frame_stop": True}),
    ("to_gff", (), {}),
    ("to_gff", (), {"chromosome_relative_coordinates": False}),
    ("to_bed12", (), {}),
    ("to_bed12", (), {"chromosome_relative_coordinates": False}),
]
FEATURE_CALLS = COMMON_CALLS + [
    ("to_gff", (), {}),
    ("to_gff", (), {"chromosome_relative_coordinates": False}),
    ("to_bed12", (), {}),
    ("to_bed12", (), {"chromosome_relative_coordinates": False}),
]
CDS_CALLS = COMMON_CALLS + [
    ("extract_sequence", (), {}),
    ("translate", (), {}),
    ("scan_codon_locations", (), {}),
    ("scan_chunk_relative_codon_locations", (), {}),
    ("scan_chromosome_codon_locations", (), {}),
    ("optimize_blocks", (), {}),
    ("optimize_and_combine_blocks", (), {}),
    ("to_gff", (), {}),
]


def exercise(obj, attrs, calls, pos_m, relpos_m, int_m, relint_m, light=False):
    out = {}
    for a in attrs:
        out[f"attr:{a}"] = attr(obj, a)
    for name, args, kwargs in calls:
        out[f"call:{name}{args}{sorted(kwargs.items())}"] = call(getattr(obj, name), *args, **kwargs)
    # a second time: cached properties / methods must give the same answer
    for a in attrs[:7]:
        out[f"attr2:{a}"] = attr(obj, a)
    for m in pos_m:
        fn = getattr(obj, m)
        out[f"pos:{m}"] = [call(fn, p) for p in POSITIONS]
        out[f"poskw:{m}"] = call(fn, pos=21)
    for m in relpos_m:
        fn = getattr(obj, m)
        out[f"relpos:{m}"] = [call(fn, p) for p in REL_POSITIONS]
        out[f"relposkw:{m}"] = call(fn, pos=3)
    ivs = INTERVALS[::3] if light else INTERVALS
    rivs = REL_INTERVALS[::3] if light else REL_INTERVALS
    for m in int_m:
        fn = getattr(obj, m)
        out[f"int:{m}"] = [call(fn, s, e, st) for s, e in ivs for st in STRANDS]
        out[f"intkw:{m}"] = call(fn, chr_start=21, chr_end=30, chr_strand=Strand.PLUS)
    for m in relint_m:
        fn = getattr(obj, m)
        out[f"relint:{m}"] = [call(fn, s, e, st) for s, e in rivs for st in STRANDS]
        out[f"relintkw:{m}"] = call(fn, rel_start=1, rel_end=6, rel_strand=Strand.PLUS)
    return out


def build(fn, *args, **kwargs):
    try:
        return fn(*args, **kwargs), None
    except Exception as e:  # noqa: BLE001
        return None, f"EXC {type(e).__name__}: {e}"


COLLECTION_ATTRS = [
    "chromosome_location",
    "chunk_relative_location",
    "_chunk_relative_bounded_chromosome_location",
    "blocks",
    "num_blocks",
    "chunk_relative_blocks",
    "strand",
    "chunk_relative_strand",
    "identifiers",
    "identifiers_dict",
    "is_chunk_relative",
    "chunk_relative_size",
    "has_sequence",
    "chunk_relative_start",
    "chunk_relative_end",
    "start",
    "end",
    "guid",
    "id",
    "name",
    "is_coding",
    "children_guids",
    "feature_types",
]


def extras(results, quals):
    """Less central entry points touched by the refactoring: alternative constructors, collections, equality."""
    from uuid import UUID

    fixed_guid = UUID("12345678-1234-5678-1234-567812345678")
    for pname, parent in parents():
        feats = []
        for i, (es, ee, _, _) in enumerate(STRUCTURES[:8:2]):
            feat, err = build(
                FeatureInterval, list(es), list(ee), Strand.PLUS if i % 2 else Strand.MINUS, qualifiers=quals,
                sequence_name="chr1", feature_types=["t%d" % i], feature_name="f%d" % i,
                feature_id=None if i == 1 else "id%d" % i, is_primary_feature=(i == 0), guid=fixed_guid if i == 3 else None,
                parent_or_seq_chunk_parent=parent,
            )
            results[f"XFEAT|{pname}|{i}"] = err or repr((str(feat), feat.guid, feat.identifiers_dict))
            if feat is not None:
                feats.append(feat)
        for variant, kw in enumerate([
            dict(feature_collection_name="coll", feature_collection_id="cid", locus_tag="lt",
                 feature_collection_type="typ", qualifiers=quals),
            dict(feature_collection_name=None, feature_collection_id="cid", guid=fixed_guid),
            dict(qualifiers={"feature_collection_id": ["other"], "z": ["1"]}, feature_collection_id="cid"),
        ]):
            coll, err = build(
                FeatureIntervalCollection, feats, sequence_name="chr1", parent_or_seq_chunk_parent=parent, **kw
            )
            key = f"COLL|{pname}|{variant}"
            if err:
                results[key] = err
                continue
            out = {f"attr:{a}": attr(coll, a) for a in COLLECTION_ATTRS}
            out["repr"] = call(repr, coll)
            out["export_qualifiers"] = call(coll.export_qualifiers)
            out["to_dict"] = call(coll.to_dict)
            out["to_dict_rel"] = call(coll.to_dict, False)
            out["_parent_to_dict"] = call(coll._parent_to_dict)
            out["to_gff"] = call(coll.to_gff)
            out["lift"] = call(coll.lift_over_to_first_ancestor_of_type)
            out["primary"] = call(coll.get_primary_feature)
            out["merged"] = call(coll.get_merged_feature)
            out["eq_self"] = call(coll.__eq__, coll)
            out["eq_feat"] = call(coll.__eq__, feats[0])
            out["eq_int"] = call(coll.__eq__, 3)
            out["hash_ok"] = call(lambda: hash(coll) == hash((coll.guid, coll.chunk_relative_location)))
            rt, err2 = build(FeatureIntervalCollection.from_dict, coll.to_dict(), parent)
            out["roundtrip"] = err2 or repr((rt == coll, str(rt)))
            for oname, oparent in list(parents())[1:6]:
                lifted, err3 = build(coll.liftover_to_parent_or_seq_chunk_parent, oparent)
                out[f"lifted:{oname}"] = err3 or repr(
                    (str(lifted), lifted.chunk_relative_location, attr(lifted, "_chunk_relative_bounded_chromosome_location"))
                )
            results[key] = out
        # equality between intervals
        if len(feats) > 1:
            results[f"EQ|{pname}"] = repr(
                [call(a.__eq__, b) for a in feats for b in feats] + [call(feats[0].__eq__, "x"), call(feats[0].__ne__, feats[1])]
            )
        # alternative constructors
        for strand in (Strand.PLUS, Strand.MINUS):
            for i, (es, ee, cs, ce) in enumerate(STRUCTURES):
                tx, err = build(
                    TranscriptInterval, list(es), list(ee), strand,
                    cds_starts=list(cs) if cs else None, cds_ends=list(ce) if cs else None,
                    cds_frames=frames_for(cs, ce, strand) if cs else None, qualifiers=quals,
                    transcript_id="t", sequence_name="chr1", guid=fixed_guid if i % 4 == 0 else None,
                    parent_or_seq_chunk_parent=parent,
                )
                key = f"ALT|{pname}|{strand.name}|{i}"
                if err:
                    results[key] = err
                    continue
                out = {"guid": repr(tx.guid)}
                loc = tx.chunk_relative_location
                for cname, ctor in [("from_location", TranscriptInterval.from_location),
                                    ("from_chunk_relative_location", TranscriptInterval.from_chunk_relative_location)]:
                    new, err = build(ctor, loc, cds=tx.cds, qualifiers=quals, transcript_id="t2", sequence_name="chr1")
                    out[cname] = err or repr((str(new), new.to_dict(), new.chunk_relative_location, new == tx))
                for cname, ctor in [("f_from_location", FeatureInterval.from_location),
                                    ("f_from_chunk_relative_location", FeatureInterval.from_chunk_relative_location)]:
                    new, err = build(ctor, loc, qualifiers=quals, feature_name="n", sequence_name="chr1")
                    out[cname] = err or repr((str(new), new.to_dict(), new.chunk_relative_location))
                if tx.cds is not None:
                    cloc = tx.cds.chunk_relative_location
                    for cname, ctor in [("c_from_location", CDSInterval.from_location),
                                        ("c_from_chunk_relative_location", CDSInterval.from_chunk_relative_location)]:
                        new, err = build(ctor, cloc, tx.cds.frames)
                        out[cname] = err or repr((str(new), new.to_dict(), new.chunk_relative_location))
                    out["cds_frame_iter"] = repr(
                        [call(tx.cds._frame_iter), call(tx.cds._frame_iter, False), call(tx.cds._exon_iter),
                         call(tx.cds._exon_iter, False)]
                    )
                    out["cds_eq"] = call(tx.cds.__eq__, tx.cds)
                feat, err = build(
                    FeatureInterval, list(es), list(ee), strand, qualifiers=quals, feature_name="n",
                    parent_or_seq_chunk_parent=parent,
                )
                if feat is not None:
                    for iv in [SingleInterval(0, 25, Strand.PLUS), SingleInterval(22, 60, Strand.MINUS),
                               CompoundInterval([5, 52], [22, 70], Strand.PLUS), SingleInterval(90, 93, Strand.PLUS)]:
                        iv2, err = build(iv.reset_parent, feat.chromosome_location.parent)
                        out[f"f_intersect:{iv.start}-{iv.end}"] = err or call(
                            feat.intersect, iv2, new_qualifiers={"q": ["1"]}
                        )
                # in-place lift of a copy onto other chunks (private hook used by collections)
                for oname, oparent in list(parents())[3:7]:
                    copy_, err = build(TranscriptInterval.from_dict, tx.to_dict(), parent)
                    if err:
                        out[f"inplace:{oname}"] = err
                        continue
                    res = call(copy_._liftover_this_location_to_seq_chunk_parent, oparent)
                    out[f"inplace:{oname}"] = repr(
                        (res, attr(copy_, "chunk_relative_location"), attr(copy_, "cds_chunk_relative_location"),
                         call(copy_.get_5p_interval), call(copy_.get_3p_interval))
                    )
                results[key] = out
    # qualifier import / export corner cases and frame / phase mixing
    for i, q in enumerate([None, {}, {"a": []}, {"a": [1, 1.5, True, "s"]}, {"a": ("t",)}, "str", [("a", ["b"])]]):
        f, err = build(FeatureInterval, [1], [10], Strand.PLUS, qualifiers=q)
        results[f"QUAL|{i}"] = err or repr(
            (f.qualifiers, f._export_qualifiers_to_list(), f._merge_qualifiers(None), f._merge_qualifiers({}),
             f._merge_qualifiers({"a": ["zz"], "b": {"y"}}), f.export_qualifiers({"a": {"p"}}))
        )
    mixes = [
        [CDSFrame.ZERO, CDSPhase.ONE, CDSFrame.ZERO],
        [CDSPhase.ZERO, CDSPhase.ONE, CDSFrame.ZERO],
        [CDSPhase.ZERO, CDSPhase.ONE, CDSPhase.TWO],
        [CDSFrame.ZERO, CDSFrame.ONE, CDSFrame.TWO],
        [CDSFrame.ZERO, 1, CDSFrame.TWO],
        [CDSFrame.ZERO, CDSFrame.ONE],
    ]
    for i, fr in enumerate(mixes):
        c, err = build(CDSInterval, [2, 20, 50], [10, 35, 80], Strand.PLUS, fr, guid=fixed_guid if i == 3 else None)
        results[f"MIX|{i}"] = err or repr((str(c), c.frames, c.guid))


def dump(path):
    results = {}
    quals = {"k1": ["v1", "v2"], "k2": [1, True]}
    for pname, parent in parents():
        for strand in (Strand.PLUS, Strand.MINUS):
            for i, (es, ee, cs, ce) in enumerate(STRUCTURES):
                for first in (CDSFrame.ZERO, CDSFrame.ONE) if cs else (None,):
                    key = f"{pname}|{strand.name}|{i}|{first.name if first else '-'}"
                    frames = frames_for(cs, ce, strand, first) if cs else None
                    tx, err = build(
                        TranscriptInterval,
                        list(es),
                        list(ee),
                        strand,
                        cds_starts=list(cs) if cs else None,
                        cds_ends=list(ce) if cs else None,
                        cds_frames=frames,
                        qualifiers=quals,
                        is_primary_tx=(i % 2 == 0),
                        transcript_id=f"tx{i}",
                        transcript_symbol=f"sym{i}",
                        protein_id=f"prot{i}" if cs else None,
                        product="prod" if i % 3 == 0 else None,
                        sequence_name="chr1",
                        parent_or_seq_chunk_parent=parent,
                    )
                    if err:
                        results["TX|" + key] = err
                        continue
                    results["TX|" + key] = exercise(
                        tx, TX_ATTRS, TX_CALLS, TX_POS_METHODS, TX_RELPOS_METHODS, TX_INTERVAL_METHODS,
                        TX_RELINTERVAL_METHODS, light=(first is CDSFrame.ONE),
                    )
                    if tx.cds is not None and first is CDSFrame.ZERO:
                        results["TXCDS|" + key] = exercise(
                            tx.cds, CDS_ATTRS, CDS_CALLS, CDS_POS_METHODS, CDS_RELPOS_METHODS, CDS_INTERVAL_METHODS,
                            CDS_RELINTERVAL_METHODS, light=True,
                        )
                    # round trip & lift to other parents
                    tx2, err = build(TranscriptInterval.from_dict, tx.to_dict(), parent)
                    results["TXRT|" + key] = err or repr((tx2 == tx, hash(tx2) == hash(tx), str(tx2)))
                    if first is not CDSFrame.ONE:
                        for oname, oparent in list(parents())[1:5]:
                            lifted, err = build(tx.liftover_to_parent_or_seq_chunk_parent, oparent)
                            if err:
                                results[f"TXLIFT|{key}|{oname}"] = err
                            else:
                                results[f"TXLIFT|{key}|{oname}"] = {
                                    "str": str(lifted),
                                    "5p": call(lifted.get_5p_interval),
                                    "3p": call(lifted.get_3p_interval),
                                    "len": call(len, lifted),
                                    "crl": attr(lifted, "chunk_relative_location"),
                                    "t2c": [call(lifted.transcript_pos_to_cds, p) for p in range(0, 60, 3)],
                                    "c2t": [call(lifted.cds_pos_to_transcript, p) for p in range(0, 60, 3)],
                                }
                        for iv in [SingleInterval(0, 25, Strand.PLUS), SingleInterval(22, 60, Strand.MINUS),
                                   CompoundInterval([5, 52], [22, 70], Strand.PLUS), SingleInterval(90, 93, Strand.PLUS)]:
                            ikey = f"TXINT|{key}|{iv.start}-{iv.end}"
                            if parent is not None:
                                iv, err = build(iv.reset_parent, tx.chunk_relative_location.parent)
                                if err:
                                    results[ikey] = err
                                    continue
                            results[ikey] = call(tx.intersect, iv)
                if cs is None or True:
                    key = f"{pname}|{strand.name}|{i}"
                    feat, err = build(
                        FeatureInterval,
                        list(es),
                        list(ee),
                        strand,
                        qualifiers=quals,
                        sequence_name="chr1",
                        feature_types=["b", "a"],
                        feature_name=f"feat{i}",
                        feature_id=f"fid{i}" if i % 2 else None,
                        is_primary_feature=(i % 2 == 1),
                        parent_or_seq_chunk_parent=parent,
                    )
                    if ("FEAT|" + key) in results:
                        continue
                    if err:
                        results["FEAT|" + key] = err
                        continue
                    results["FEAT|" + key] = exercise(
                        feat, FEATURE_ATTRS, FEATURE_CALLS, FEATURE_POS_METHODS, FEATURE_RELPOS_METHODS,
                        FEATURE_INTERVAL_METHODS, FEATURE_RELINTERVAL_METHODS, light=True,
                    )
                if cs:
                    for phase in (False, True):
                        fr = frames_for(cs, ce, strand, CDSFrame.TWO)
                        if phase:
                            fr = [f.to_phase() for f in fr]
                        cds, err = build(
                            CDSInterval, list(cs), list(ce), strand, fr, None, "chr1", "pid", "prod",
                            qualifiers=quals, parent_or_seq_chunk_parent=parent,
                        )
                        ckey = f"CDS|{pname}|{strand.name}|{i}|{phase}"
                        if err:
                            results[ckey] = err
                            continue
                        results[ckey] = exercise(
                            cds, CDS_ATTRS, CDS_CALLS, CDS_POS_METHODS, CDS_RELPOS_METHODS, CDS_INTERVAL_METHODS,
                            CDS_RELINTERVAL_METHODS, light=phase,
                        )
    extras(results, quals)
    # frames construction on its own
    for strand in (Strand.PLUS, Strand.MINUS):
        for i, (es, ee, cs, ce) in enumerate(STRUCTURES):
            for first in CDSFrame:
                results[f"FRAMES|{strand.name}|{i}|{first.name}"] = call(frames_for, es, ee, strand, first)
    # constructor validation messages
    bad = [
        dict(exon_starts=[1], exon_ends=[10], strand=Strand.PLUS, cds_starts=[2]),
        dict(exon_starts=[1], exon_ends=[10], strand=Strand.PLUS, cds_ends=[2]),
        dict(exon_starts=[1], exon_ends=[10], strand=Strand.PLUS, cds_starts=[2, 3], cds_ends=[5]),
        dict(exon_starts=[1], exon_ends=[10], strand=Strand.PLUS, cds_starts=[0], cds_ends=[5]),
        dict(exon_starts=[1], exon_ends=[10], strand=Strand.PLUS, cds_starts=[2], cds_ends=[11]),
        dict(exon_starts=[1], exon_ends=[10], strand=Strand.PLUS, cds_starts=[2], cds_ends=[8]),
        dict(exon_starts=[1], exon_ends=[10], strand=Strand.PLUS, cds_starts=[2], cds_ends=[8], cds_frames=[]),
        dict(exon_starts=[1, 2], exon_ends=[10], strand=Strand.PLUS),
        dict(exon_starts=[1], exon_ends=[10], strand=Strand.PLUS, qualifiers=[1]),
        dict(exon_starts=[1], exon_ends=[10], strand=Strand.PLUS, qualifiers={"a": "b"}),
        dict(exon_starts=[1], exon_ends=[10], strand=Strand.PLUS, cds_starts=[3], cds_ends=[3],
             cds_frames=[CDSFrame.ZERO]),
        dict(exon_starts=[1], exon_ends=[10], strand=Strand.PLUS, cds_starts=[3, 6], cds_ends=[5, 9],
             cds_frames=[CDSFrame.ZERO, CDSPhase.ONE]),
    ]
    for i, kw in enumerate(bad):
        results[f"BAD|{i}"] = call(TranscriptInterval, **kw)
    if not os.environ.get("EQUIV_VERBOSE"):  # long observations are stored as digests (+ length / exception count)
        def compact(vv):
            if isinstance(vv, list) and len(vv) > 30:
                digest = hashlib.sha1(json.dumps(vv).encode()).hexdigest()
                n_exc = sum(1 for x in vv if x.startswith("EXC"))
                return f"list[{len(vv)}, {n_exc} exceptions] sha1={digest}"
            if isinstance(vv, str) and len(vv) > 160:
                return f"{vv[:60]}...[{len(vv)} chars] sha1={hashlib.sha1(vv.encode()).hexdigest()}"
            if isinstance(vv, list):
                return [compact(x) for x in vv]
            return vv

        for k, v in results.items():
            results[k] = {kk: compact(vv) for kk, vv in v.items()} if isinstance(v, dict) else compact(v)
    with open(path, "w") as fh:
        json.dump(results, fh, indent=0, sort_keys=True)
    n = sum(len(v) if isinstance(v, dict) else 1 for v in results.values())
    print(f"dumped {len(results)} objects / {n} observation groups to {path}")


def compare(a, b):
    with open(a) as fh:
        ra = json.load(fh)
    with open(b) as fh:
        rb = json.load(fh)
    diffs = []
    for k in sorted(set(ra) | set(rb)):
        va, vb = ra.get(k), rb.get(k)
        if va == vb:
            continue
        if isinstance(va, dict) and isinstance(vb, dict):
            for kk in sorted(set(va) | set(vb)):
                if va.get(kk) != vb.get(kk):
                    diffs.append((k, kk, va.get(kk), vb.get(kk)))
        else:
            diffs.append((k, None, va, vb))
    for d in diffs[:40]:
        print("DIFF", d[0], d[1])
        print("   A:", str(d[2])[:300])
        print("   B:", str(d[3])[:300])
    print(f"{len(ra)} vs {len(rb)} objects; {len(diffs)} differences")
    return 1 if diffs else 0


if __name__ == "__main__":
    if sys.argv[1] == "dump":
        dump(sys.argv[2])
    else:
        sys.exit(compare(sys.argv[2], sys.argv[3]))
