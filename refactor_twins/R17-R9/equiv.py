"""
Equivalence script for the C17 refactorings (NCBI .tbl export and the CDS / transcript helpers it relies on).

Usage (from the worktree root):

    /venv/bin/python _refactor/R2/equiv.py dump /tmp/pristine.json      # on the pristine checkout
    git apply _refactor/R2/patch.diff
    /venv/bin/python _refactor/R2/equiv.py dump /tmp/patched.json       # on the refactored checkout
    /venv/bin/python _refactor/R2/equiv.py compare /tmp/pristine.json /tmp/patched.json

Every observation is a string (str / repr / to_dict / the text written by collection_to_tbl), or the type and message
of the exception that was raised. The inputs are generated from a fixed seed, so that both runs see the same models.
"""
import io
import itertools
import json
import os
import random
import sys
import types
import warnings

sys.path.insert(0, os.getcwd())

import inscripta.biocantor.location  # noqa: E402,F401  (must come first: circular import otherwise)
from inscripta.biocantor.gene.biotype import Biotype  # noqa: E402
from inscripta.biocantor.gene.cds import CDSInterval  # noqa: E402
from inscripta.biocantor.gene.cds_frame import CDSFrame, CDSPhase  # noqa: E402
from inscripta.biocantor.gene.codon import TranslationTable  # noqa: E402
from inscripta.biocantor.gene.collections import AnnotationCollection  # noqa: E402
from inscripta.biocantor.gene.gene import GeneInterval  # noqa: E402
from inscripta.biocantor.gene.transcript import TranscriptInterval  # noqa: E402
from inscripta.biocantor.io.genbank.constants import GenbankFlavor  # noqa: E402
from inscripta.biocantor.io.ncbi import tbl_writer  # noqa: E402
from inscripta.biocantor.io.ncbi.tbl_writer import (  # noqa: E402
    CDSTblFeature,
    GeneTblFeature,
    MiscRNATblFeature,
    MRNATblFeature,
    NcRNATblFeature,
    RRNATblFeature,
    TblFeature,
    TblGene,
    TRNATblFeature,
    collection_to_tbl,
    random_uppercase_str,
)
from inscripta.biocantor.location.location_impl import CompoundInterval, SingleInterval  # noqa: E402
from inscripta.biocantor.location.strand import Strand  # noqa: E402
from inscripta.biocantor.parent import Parent, SequenceType  # noqa: E402
from inscripta.biocantor.sequence.alphabet import Alphabet  # noqa: E402
from inscripta.biocantor.sequence.sequence import Sequence  # noqa: E402

warnings.simplefilter("ignore")

COMP = str.maketrans("ACGT", "TGCA")
STOPS = ["TAA", "TAG", "TGA"]
STARTS = ["ATG", "ATG", "GTG", "TTG", "CTG", "ATT"]


# ---------------------------------------------------------------------------------------------------------------------
# the two helpers of io/parser.py (that module cannot be imported here)
# ---------------------------------------------------------------------------------------------------------------------
def seq_to_parent(seq, seq_id):
    return Parent(
        sequence=Sequence(seq, Alphabet.NT_EXTENDED_GAPPED, type=SequenceType.CHROMOSOME, id=seq_id),
        location=SingleInterval(0, len(seq), Strand.PLUS),
    )


def seq_chunk_to_parent(seq, sequence_name, start, end):
    chunk_id = f"{sequence_name}:{start}-{end}"
    return Parent(
        id=chunk_id,
        sequence=Sequence(
            seq,
            Alphabet.NT_EXTENDED_GAPPED,
            id=chunk_id,
            type=SequenceType.SEQUENCE_CHUNK,
            parent=Parent(
                location=SingleInterval(
                    start,
                    end,
                    Strand.PLUS,
                    parent=Parent(id=sequence_name, sequence_type=SequenceType.CHROMOSOME),
                )
            ),
        ),
    )


# ---------------------------------------------------------------------------------------------------------------------
# observation helpers
# ---------------------------------------------------------------------------------------------------------------------
def observe(fn):
    """Result of fn() as a string, or the exception it raised."""
    try:
        with warnings.catch_warnings(record=True) as caught:
            warnings.simplefilter("always")
            val = fn()
        out = _fmt(val)
        msgs = [f"{w.category.__name__}: {w.message}" for w in caught]
        return {"ok": out, "warnings": msgs} if msgs else out
    except Exception as e:  # noqa
        return f"EXC {type(e).__name__}: {e}"


def _fmt(val):
    if isinstance(val, dict):
        return {str(k): _fmt(v) for k, v in val.items()}
    if isinstance(val, (list, tuple)):
        return [_fmt(v) for v in val]
    if isinstance(val, (set, frozenset)):
        return sorted(_fmt(v) for v in val)
    if isinstance(val, (types.GeneratorType, itertools.chain, zip, map, filter, reversed)):
        return [_fmt(v) for v in val]
    return str(val)


# ---------------------------------------------------------------------------------------------------------------------
# model generation
# ---------------------------------------------------------------------------------------------------------------------
WINDOW = 240


def random_blocks(rng, lo, hi, n_blocks, adjacent=False, overlap=False):
    """n sorted blocks within [lo, hi). Optionally make one pair adjacent (0bp gap) or overlapping."""
    while True:
        cuts = sorted(rng.sample(range(lo, hi), 2 * n_blocks))
        starts, ends = cuts[0::2], cuts[1::2]
        if all(e - s >= 4 for s, e in zip(starts, ends)):
            break
    if n_blocks > 1 and adjacent:
        i = rng.randrange(n_blocks - 1)
        starts[i + 1] = ends[i]
    if n_blocks > 1 and overlap:
        i = rng.randrange(n_blocks - 1)
        starts[i + 1] = ends[i] - 1
    return starts, ends


def write_cds_sequence(genome, starts, ends, strand, frame, rng, with_start, with_stop, inframe_stop):
    """Write a start codon / stop codon / in frame stop codon to the genome list under this CDS."""
    positions = [p for s, e in zip(starts, ends) for p in range(s, e)]
    # overlapping blocks: keep the positions as they come (a base may be used twice)
    if strand == Strand.MINUS:
        positions = positions[::-1]
    spliced = [genome[p] if strand == Strand.PLUS else genome[p].translate(COMP) for p in positions]
    # remove accidental in-frame stops
    n = len(spliced)
    for i in range(frame, n - 2, 3):
        while "".join(spliced[i : i + 3]) in STOPS:
            spliced[i + rng.randrange(3)] = rng.choice("ACGT")
    if with_start and n >= frame + 3:
        spliced[frame : frame + 3] = list(rng.choice(STARTS))
    if with_stop:
        last = frame + ((n - frame) // 3) * 3
        if last - 3 >= frame + 3:
            spliced[last - 3 : last] = list(rng.choice(STOPS))
    if inframe_stop and n >= frame + 12:
        spliced[frame + 6 : frame + 9] = list(rng.choice(STOPS))
    for p, base in zip(positions, spliced):
        genome[p] = base if strand == Strand.PLUS else base.translate(COMP)


PRODUCTS = [None, None, "alpha", "alpha-1", "12345", "my_protein_product", "kinase (putative); [x]", "tRNA-Ala", "16S_rRNA"]
NC_TYPES = [Biotype.rRNA, Biotype.tRNA, Biotype.misc_RNA, Biotype.lncRNA, Biotype.ncRNA, Biotype.snoRNA, None]


def make_qualifiers(rng, product):
    q = {}
    if product is not None:
        q["product"] = [product] if rng.random() < 0.7 else [product, "zz other product"]
    if rng.random() < 0.4:
        q["gene_synonym"] = rng.sample(["synA", "synB", "syn(C)", "GENE1"], rng.randint(1, 3))
    if rng.random() < 0.2:
        q["synonym"] = ["othersyn"]
    if rng.random() < 0.4:
        q["db_xref"] = ["GeneID:%d" % rng.randint(1, 999)]
    if rng.random() < 0.3:
        q["note"] = ["a note"]
    if rng.random() < 0.2:
        q["random_key"] = ["x", "y"]
    return q or None


def make_genes(rng, genome, seq_name, n_genes, parent_factory):
    genes = []
    descr = []
    for g in range(n_genes):
        lo, hi = g * WINDOW + 5, (g + 1) * WINDOW - 5
        coding = rng.random() < 0.65
        strand = rng.choice([Strand.PLUS, Strand.MINUS])
        n_tx = rng.choice([1, 1, 1, 2])
        gene_symbol = rng.choice([None, "GENE%d" % g, "GENE%d" % g, "g_%d" % g])
        locus_tag = rng.choice([None, "LT_%d" % g])
        txs = []
        for t in range(n_tx):
            tx_strand = strand
            if n_tx == 2 and t == 1 and rng.random() < 0.3 and not coding:
                tx_strand = Strand.MINUS if strand == Strand.PLUS else Strand.PLUS
            n_blocks = rng.choice([1, 1, 2, 3, 4])
            mode = rng.choice(["plain", "plain", "adjacent", "overlap"])
            starts, ends = random_blocks(rng, lo, hi, n_blocks, adjacent=mode == "adjacent", overlap=mode == "overlap")
            product = rng.choice(PRODUCTS)
            kwargs = dict(
                exon_starts=starts,
                exon_ends=ends,
                strand=tx_strand,
                qualifiers=make_qualifiers(rng, product),
                is_primary_tx=(t == 0) if rng.random() < 0.5 else None,
                transcript_id=rng.choice([None, "tx%d_%d" % (g, t)]),
                transcript_symbol=rng.choice([None, "txsym%d_%d" % (g, t)]),
                sequence_name=seq_name,
                protein_id=rng.choice([None, "prot%d_%d" % (g, t)]),
                product=rng.choice([None, "attrproduct"]),
            )
            if coding:
                # trim a UTR off of either end, sometimes
                cds_starts, cds_ends = list(starts), list(ends)
                if rng.random() < 0.5 and cds_ends[0] - cds_starts[0] > 8:
                    cds_starts[0] += rng.randint(1, 4)
                if rng.random() < 0.5 and cds_ends[-1] - cds_starts[-1] > 8:
                    cds_ends[-1] -= rng.randint(1, 4)
                frame = CDSFrame(rng.choice([0, 0, 0, 1, 2]))
                loc = (
                    SingleInterval(cds_starts[0], cds_ends[0], tx_strand)
                    if len(cds_starts) == 1
                    else CompoundInterval(cds_starts, cds_ends, tx_strand)
                )
                frames = CDSInterval.construct_frames_from_location(loc, frame)
                if rng.random() < 0.15 and len(frames) > 1:
                    # programmed frameshift: disturb one of the downstream frames
                    idx = rng.randrange(1, len(frames)) if tx_strand == Strand.PLUS else rng.randrange(len(frames) - 1)
                    frames[idx] = CDSFrame((frames[idx].value + 1) % 3)
                write_cds_sequence(
                    genome,
                    cds_starts,
                    cds_ends,
                    tx_strand,
                    frame.value,
                    rng,
                    with_start=rng.random() < 0.6,
                    with_stop=rng.random() < 0.6,
                    inframe_stop=rng.random() < 0.2,
                )
                kwargs.update(
                    cds_starts=cds_starts, cds_ends=cds_ends, cds_frames=frames, transcript_type=Biotype.protein_coding
                )
                gene_type = Biotype.protein_coding
            else:
                gene_type = rng.choice(NC_TYPES)
                kwargs.update(transcript_type=gene_type if gene_type else Biotype.ncRNA)
            txs.append(kwargs)
        gene_kwargs = dict(
            gene_id="gid%d" % g,
            gene_symbol=gene_symbol,
            gene_type=gene_type,
            locus_tag=locus_tag,
            qualifiers=make_qualifiers(rng, None),
            sequence_name=seq_name,
        )
        descr.append((txs, gene_kwargs))
    # the genome is final now: build the objects
    parent = parent_factory("".join(genome))
    for txs, gene_kwargs in descr:
        tx_objs = [TranscriptInterval(parent_or_seq_chunk_parent=parent, **kw) for kw in txs]
        genes.append(GeneInterval(tx_objs, parent_or_seq_chunk_parent=parent, **gene_kwargs))
    return genes, parent


def build_collections():
    rng = random.Random(20260317)
    collections = []
    for idx, (seq_name, n_genes, kind) in enumerate(
        [("chrA", 14, "chrom"), ("chrB", 14, "chrom"), ("chrC", 10, "chunk"), ("chrD", 8, "chunk_cut"), ("chrE", 6, "chrom")]
    ):
        length = n_genes * WINDOW
        genome = [rng.choice("ACGT") for _ in range(length)]
        if kind == "chrom":
            factory = lambda s, seq_name=seq_name: seq_to_parent(s, seq_name)  # noqa: E731
        elif kind == "chunk":
            # chunk covers the whole chromosome, but offset by 1000
            factory = lambda s, seq_name=seq_name: seq_chunk_to_parent(s, seq_name, 0, len(s))  # noqa: E731
        else:
            # chunk cuts off a part of the first and last window
            factory = lambda s, seq_name=seq_name: seq_chunk_to_parent(  # noqa: E731
                s[100 : len(s) - 100], seq_name, 100, len(s) - 100
            )
        try:
            genes, parent = make_genes(rng, genome, seq_name, n_genes, factory)
        except Exception as e:  # noqa
            # a cut chunk may make construction fail; fall back to a whole chunk
            factory = lambda s, seq_name=seq_name: seq_chunk_to_parent(s, seq_name, 0, len(s))  # noqa: E731
            genes, parent = make_genes(random.Random(idx), genome, seq_name, n_genes, factory)
        collections.append(
            AnnotationCollection(genes=genes, sequence_name=seq_name, parent_or_seq_chunk_parent=parent, name=seq_name)
        )
    return collections


# ---------------------------------------------------------------------------------------------------------------------
# observations
# ---------------------------------------------------------------------------------------------------------------------
def tbl_text(collections, **kwargs):
    fh = io.StringIO()
    try:
        with warnings.catch_warnings(record=True) as caught:
            warnings.simplefilter("always")
            collection_to_tbl(collections, fh, **kwargs)
        return {"text": fh.getvalue(), "warnings": [str(w.message) for w in caught]}
    except Exception as e:  # noqa
        return {"text": fh.getvalue(), "exc": f"{type(e).__name__}: {e}"}


def observe_tbl(collections, results):
    tables = [TranslationTable.DEFAULT, TranslationTable.STANDARD, TranslationTable.PROKARYOTE]
    n = 0
    for flavor in [GenbankFlavor.EUKARYOTIC, GenbankFlavor.PROKARYOTIC]:
        for table in tables:
            for prefix, jump, lab in [("test", 5, "inscripta"), (None, 1, None), ("LT", 10, "lab"), ("p", 3, None)]:
                key = f"tbl/{flavor.name}/{table.name}/{prefix}/{jump}/{lab}"
                # the collections on a chunk stop the export with an exception at their first multi-block CDS
                results[key + "/all"] = tbl_text(
                    collections,
                    translation_table=table,
                    locus_tag_prefix=prefix,
                    genbank_flavor=flavor,
                    locus_tag_jump_size=jump,
                    submitter_lab_name=lab,
                    random_seed=123 + jump,
                )
                results[key] = tbl_text(
                    [collections[0], collections[1], collections[4]],
                    translation_table=table,
                    locus_tag_prefix=prefix,
                    genbank_flavor=flavor,
                    locus_tag_jump_size=jump,
                    submitter_lab_name=lab,
                    random_seed=123 + jump,
                )
                n += 1
    # defaults, one collection at a time, with the global generator seeded by hand
    for i, c in enumerate(collections):
        random.seed(99 + i)
        results[f"tbl/defaults/{i}"] = tbl_text([c])
        results[f"tbl/defaults_after/{i}"] = random_uppercase_str(5)
    # each gene by itself (so that an exception in one gene does not hide the other genes)
    for i, c in enumerate(collections):
        for j, gene in enumerate(c.genes):
            single = AnnotationCollection(
                genes=[gene], sequence_name=c.sequence_name, parent_or_seq_chunk_parent=c._parent_or_seq_chunk_parent
            )
            for flavor in [GenbankFlavor.EUKARYOTIC, GenbankFlavor.PROKARYOTIC]:
                results[f"tbl/single/{i}/{j}/{flavor.name}"] = tbl_text(
                    [single],
                    genbank_flavor=flavor,
                    locus_tag_prefix="single",
                    submitter_lab_name="lab",
                    random_seed=5,
                    translation_table=TranslationTable.PROKARYOTE if j % 2 else TranslationTable.DEFAULT,
                )
    # no sequence name; empty iterable; generator input
    results["tbl/no_name"] = tbl_text(
        [AnnotationCollection(genes=collections[0].genes[:2], parent_or_seq_chunk_parent=collections[0]._parent_or_seq_chunk_parent)],
        random_seed=1,
    )
    results["tbl/empty"] = tbl_text([], random_seed=1)
    results["tbl/generator"] = tbl_text((c for c in collections[:2]), random_seed=1, locus_tag_prefix="gen")
    results["tbl/empty_collection"] = tbl_text([AnnotationCollection(sequence_name="nothing")], random_seed=1)
    results["tbl/jump0"] = tbl_text(collections[:1], random_seed=1, locus_tag_jump_size=0, locus_tag_prefix="z")
    results["tbl/jump_none"] = tbl_text(collections[:1], random_seed=1, locus_tag_jump_size=None, locus_tag_prefix="z")
    results["tbl/jump_none_empty"] = tbl_text([], random_seed=1, locus_tag_jump_size=None, locus_tag_prefix="z")
    results["tbl/flavor_other"] = tbl_text(collections[:1], random_seed=1, genbank_flavor=None, locus_tag_prefix="z")


def observe_tbl_objects(collections, results):
    """The TblGene / TblFeature classes, used directly."""
    for i, c in enumerate(collections):
        for j, gene in enumerate(c.genes):
            random.seed(1000 + j)

            def build(gene=gene, j=j):
                return TblGene(
                    gene, "lab", rng_tag(j), TranslationTable.PROKARYOTE if j % 3 == 0 else TranslationTable.DEFAULT
                )

            key = f"obj/{i}/{j}"
            try:
                with warnings.catch_warnings(record=True) as caught:
                    warnings.simplefilter("always")
                    tblgene = build()
                results[key + "/warnings"] = [str(w.message) for w in caught]
            except Exception as e:  # noqa
                results[key] = f"EXC {type(e).__name__}: {e}"
                continue
            feats = list(tblgene)
            results[key + "/types"] = [type(f).__name__ for f in feats]
            results[key + "/iter_gene_tbl"] = [type(f).__name__ for f in tblgene.gene_tbl.iter_children()]
            results[key + "/children"] = [[type(ch).__name__ for ch in f.children] for f in feats]
            for k, f in enumerate(feats):
                fk = f"{key}/{k}"
                results[fk + "/str"] = observe(lambda f=f: str(f))
                results[fk + "/loc"] = observe(lambda f=f: f._location_to_str())
                results[fk + "/qual"] = observe(lambda f=f: f._qualifiers_to_str())
                results[fk + "/qualifiers"] = observe(lambda f=f: list(f.qualifiers.items()))
                results[fk + "/flags"] = [str(f.start_is_incomplete), str(f.end_is_complete), str(f.is_pseudo)]
                results[fk + "/location"] = str(f.location)
                # all four combinations of the partial flags, on this location
                saved = f.start_is_incomplete, f.end_is_complete, f.is_pseudo
                for a, b, p in itertools.product([False, True], repeat=3):
                    f.start_is_incomplete, f.end_is_complete, f.is_pseudo = a, b, p
                    results[f"{fk}/forced/{a}{b}{p}"] = observe(lambda f=f: str(f))
                f.start_is_incomplete, f.end_is_complete, f.is_pseudo = saved
            results[key + "/gene_locus_tag"] = str(tblgene.gene_tbl.locus_tag)
            # the non-coding feature classes, including the one TblGene never picks
            gene_tbl = tblgene.gene_tbl
            for tx in tblgene.gene.transcripts:
                for cls in [NcRNATblFeature, MiscRNATblFeature, TRNATblFeature, RRNATblFeature]:
                    results[f"{key}/nc/{tx.transcript_id}/{tx.start}/{cls.__name__}"] = observe(
                        lambda cls=cls, tx=tx: str(cls(tx, gene_tbl))
                    )
            # the original model is left alone by TblGene
            results[key + "/gene_after"] = observe(lambda gene=gene: gene.to_dict())


def rng_tag(j):
    return [None, "TAG_%d" % j, "GENE%d" % j][j % 3]


def observe_static_helpers(results):
    cases = [
        ({}, {}, None),
        ({"gene_synonym": {"b", "a"}}, {}, None),
        ({"gene_synonym": {"b", "a", "sym"}}, {"gene_synonym": ["x"]}, "sym"),
        ({"synonym": {"s1"}, "gene_synonym": {"s2"}, "db_xref": {"X:1"}}, {"gene": ["g"]}, "g"),
        ({"db_xref": {"X:1"}}, {"db_xref": ["old"]}, None),
        ({"db_xref": set()}, {"db_xref": ["old"]}, None),
        ({"my_synonym_key": set()}, {}, None),
        ({"note": {"n"}, "product": {"p"}}, {"note": ["k"]}, "g"),
    ]
    for i, (parsed, tblq, sym) in enumerate(cases):
        def run(parsed=parsed, tblq=tblq, sym=sym):
            ret = TblFeature.extract_dbxref_synonyms(parsed, tblq, gene_symbol=sym)
            return [str(ret), list(tblq.items())]

        results[f"static/extract/{i}"] = observe(run)
    results["static/extract/bad_key"] = observe(lambda: TblFeature.extract_dbxref_synonyms({1: {"a"}}, {}))
    random.seed(3)
    results["static/random"] = [random_uppercase_str(), random_uppercase_str(0), random_uppercase_str(size=12)]

    class Fake(TblFeature):
        FEATURE_TYPE = tbl_writer.GeneFeatures.GENE
        VALID_KEYS = {"a", "b", "note"}

    for strand in Strand:
        for blocks in [([3], [9]), ([3, 20], [9, 30]), ([3, 20, 40], [9, 30, 41])]:
            loc = (
                SingleInterval(blocks[0][0], blocks[1][0], strand)
                if len(blocks[0]) == 1
                else CompoundInterval(blocks[0], blocks[1], strand)
            )
            for a, b, p in itertools.product([False, True], repeat=3):
                q = {"b": ["z(1)", "a;[2]", None], "a": [3, 1, 2], "c": ["skipped"], "note": [], "pseudo": ["x"]}
                results[f"static/fake/{strand.name}/{len(blocks[0])}/{a}{b}{p}"] = observe(
                    lambda: str(Fake(loc, a, b, p, q))
                )
    results["static/fake/none_vals"] = observe(
        lambda: str(Fake(SingleInterval(0, 3, Strand.PLUS), False, False, False, {"a": [None], "b": None, "note": ""}))
    )
    results["static/fake/iter"] = observe(
        lambda: [
            type(x).__name__
            for x in Fake(
                SingleInterval(0, 3, Strand.PLUS),
                False,
                False,
                False,
                {},
                children=[Fake(SingleInterval(0, 3, Strand.PLUS), False, False, False, {})],
            )
        ]
    )
    results["static/abstract"] = observe(
        lambda: str(TblFeature(SingleInterval(0, 3, Strand.PLUS), False, False, False, {}))
    )
    results["static/valid_keys"] = {
        cls.__name__: [sorted(cls.VALID_KEYS), str(cls.FEATURE_TYPE)]
        for cls in [
            GeneTblFeature,
            MRNATblFeature,
            CDSTblFeature,
            NcRNATblFeature,
            MiscRNATblFeature,
            TRNATblFeature,
            RRNATblFeature,
        ]
    }


def observe_cds(cds, key, results):
    r = results
    r[key + "/str"] = observe(lambda: str(cds))
    r[key + "/repr"] = observe(lambda: repr(cds))
    r[key + "/len"] = observe(lambda: len(cds))
    for flag in [True, False]:
        r[f"{key}/frame_iter/{flag}"] = observe(lambda: [f.name for f in cds._frame_iter(flag)])
        r[f"{key}/exon_iter/{flag}"] = observe(lambda: [str(x) for x in cds._exon_iter(flag)])
        r[f"{key}/to_dict/{flag}"] = observe(lambda: cds.to_dict(chromosome_relative_coordinates=flag))
    r[key + "/frame_iter/default"] = observe(lambda: [f.name for f in cds._frame_iter()])
    r[key + "/frame_iter/1"] = observe(lambda: [f.name for f in cds._frame_iter(1)])
    r[key + "/chunk_relative_frames"] = observe(lambda: [f.name for f in cds.chunk_relative_frames])
    r[key + "/has_valid_stop"] = observe(lambda: cds.has_valid_stop)
    r[key + "/has_canonical_start"] = observe(lambda: cds.has_canonical_start_codon)
    for table in TranslationTable:
        r[f"{key}/has_start/{table.name}"] = observe(
            lambda: cds.has_start_codon_in_specific_translation_table(table)
        )
        r[f"{key}/translate/{table.name}"] = observe(lambda: cds.translate(translation_table=table))
    r[key + "/has_start/default"] = observe(lambda: cds.has_start_codon_in_specific_translation_table())
    r[key + "/has_in_frame_stop"] = observe(lambda: cds.has_in_frame_stop)
    r[key + "/extract_sequence"] = observe(lambda: cds.extract_sequence())
    r[key + "/translate/trunc"] = observe(lambda: cds.translate(truncate_at_in_frame_stop=True))
    r[key + "/translate/nonstrict"] = observe(lambda: cds.translate(strict=False))
    r[key + "/scan_codons"] = observe(lambda: [str(c) for c in cds.scan_codons()])
    r[key + "/scan_codons/trunc"] = observe(lambda: [str(c) for c in cds.scan_codons(truncate_at_in_frame_stop=True)])
    r[key + "/num_codons"] = observe(lambda: cds.num_codons)
    r[key + "/num_chunk_relative_codons"] = observe(lambda: cds.num_chunk_relative_codons)
    r[key + "/chromosome_codon_locations"] = observe(lambda: [str(x) for x in cds.chromosome_codon_locations])
    r[key + "/chunk_codon_locations"] = observe(lambda: [str(x) for x in cds.chunk_relative_codon_locations])
    r[key + "/extract_sequence_cached"] = observe(lambda: cds.extract_sequence())
    r[key + "/first_codon_on_chunk"] = observe(lambda: cds._first_codon_is_on_chunk())
    r[key + "/window"] = observe(
        lambda: [
            str(x)
            for x in cds.scan_chromosome_codon_locations(cds.start + 2, cds.end - 2, expand_window_to_partial_codons=True)
        ]
    )
    r[key + "/window_chunk"] = observe(
        lambda: [str(x) for x in cds.scan_chunk_relative_codon_locations(cds.start + 4, cds.end - 1)]
    )
    r[key + "/expand"] = observe(lambda: cds._expand_coordinates_to_codons(cds.start + 1, cds.start + 5))
    r[key + "/export_qualifiers"] = observe(lambda: cds.export_qualifiers({"k": {"v"}}))
    r[key + "/gff"] = observe(lambda: [str(x) for x in cds.to_gff(parent="p")])
    r[key + "/gff_rel"] = observe(lambda: [str(x) for x in cds.to_gff(chromosome_relative_coordinates=False)])
    r[key + "/id_name"] = observe(lambda: [cds.id, cds.name])
    r[key + "/pos"] = observe(
        lambda: [
            cds.cds_pos_to_sequence(1),
            cds.sequence_pos_to_cds(cds.start),
            cds.sequence_pos_to_amino_acid(cds.end - 1),
        ]
    )
    for name in ["optimize_blocks", "optimize_and_combine_blocks"]:
        def opt(name=name):
            new = getattr(cds, name)()
            return [str(new), [f.name for f in new.frames], new.to_dict(), str(new.chromosome_location.parent)]

        r[f"{key}/{name}"] = observe(opt)
    for frame in CDSFrame:
        r[f"{key}/construct_frames/{frame.name}"] = observe(
            lambda: [f.name for f in CDSInterval.construct_frames_from_location(cds.chromosome_location, frame)]
        )
        r[f"{key}/construct_frames_chunk/{frame.name}"] = observe(
            lambda: [f.name for f in CDSInterval.construct_frames_from_location(cds.chunk_relative_location, frame)]
        )
    r[key + "/construct_frames/default"] = observe(
        lambda: [f.name for f in CDSInterval.construct_frames_from_location(cds.chromosome_location)]
    )
    r[key + "/from_dict"] = observe(
        lambda: str(CDSInterval.from_dict(cds.to_dict(), parent_or_seq_chunk_parent=cds.chunk_relative_location.parent))
    )


def observe_transcript(tx, key, results):
    r = results
    r[key + "/str"] = observe(lambda: str(tx))
    r[key + "/len"] = observe(lambda: len(tx))
    for flag in [True, False]:
        r[f"{key}/to_dict/{flag}"] = observe(lambda: tx.to_dict(chromosome_relative_coordinates=flag))
    for prop in [
        "is_primary_tx",
        "cds_location",
        "cds_chunk_relative_location",
        "chromosome_intron_location",
        "chunk_relative_intron_location",
        "is_coding",
        "has_in_frame_stop",
        "cds_size",
        "chunk_relative_cds_size",
        "cds_start",
        "cds_end",
        "chunk_relative_cds_start",
        "chunk_relative_cds_end",
        "chunk_relative_cds_blocks",
        "id",
        "name",
        "guid",
    ]:
        r[f"{key}/{prop}"] = observe(lambda: getattr(tx, prop))
    r[key + "/cds_blocks"] = observe(lambda: [str(x) for x in tx.cds_blocks])
    r[key + "/roundtrip"] = observe(
        lambda: TranscriptInterval.from_dict(
            tx.to_dict(), parent_or_seq_chunk_parent=tx.chunk_relative_location.parent
        ).to_dict()
    )
    r[key + "/roundtrip_noparent"] = observe(lambda: str(TranscriptInterval.from_dict(tx.to_dict())))

    def rebuilt(factory, location):
        new = factory(
            location,
            cds=tx.cds,
            qualifiers=tx._export_qualifiers_to_list(),
            transcript_id=tx.transcript_id,
            transcript_type=tx.transcript_type.name if tx.transcript_type else None,
            protein_id=tx.protein_id,
        )
        return [str(new), new.to_dict()]

    r[key + "/from_location"] = observe(lambda: rebuilt(TranscriptInterval.from_location, tx.chromosome_location))
    r[key + "/from_location_chunk"] = observe(lambda: rebuilt(TranscriptInterval.from_location, tx.chunk_relative_location))
    r[key + "/from_chunk_relative_location"] = observe(
        lambda: rebuilt(TranscriptInterval.from_chunk_relative_location, tx.chunk_relative_location)
    )
    r[key + "/intersect"] = observe(
        lambda: tx.intersect(
            SingleInterval(
                tx.chunk_relative_location.start + 2,
                tx.chunk_relative_location.end - 1,
                Strand.MINUS,
                parent=tx.chunk_relative_location.parent,
            ),
            new_qualifiers={"new": ["q"]},
        ).to_dict()
    )
    r[key + "/intersect_disjoint"] = observe(lambda: str(tx.intersect(SingleInterval(100000, 100010, Strand.PLUS))))
    r[key + "/5p"] = observe(lambda: tx.get_5p_interval())
    r[key + "/3p"] = observe(lambda: tx.get_3p_interval())
    r[key + "/tx_seq"] = observe(lambda: tx.get_transcript_sequence())
    r[key + "/cds_seq"] = observe(lambda: tx.get_cds_sequence())
    r[key + "/protein"] = observe(lambda: tx.get_protein_sequence())
    r[key + "/export_qualifiers"] = observe(lambda: tx.export_qualifiers({"k": {"v"}}))
    r[key + "/gff"] = observe(lambda: [str(x) for x in tx.to_gff(parent="p")])
    r[key + "/bed"] = observe(lambda: str(tx.to_bed12()))
    r[key + "/pos"] = observe(
        lambda: [
            tx.sequence_pos_to_transcript(tx.start),
            tx.transcript_pos_to_sequence(0),
            tx.cds_pos_to_sequence(0),
            tx.sequence_pos_to_cds(tx.cds_start),
            tx.cds_pos_to_transcript(0),
            tx.transcript_pos_to_cds(tx.cds_pos_to_transcript(1)),
        ]
    )
    if tx.cds is not None:
        observe_cds(tx.cds, key + "/cds", results)


def observe_models(collections, results):
    for i, c in enumerate(collections):
        for j, gene in enumerate(c.genes):
            for k, tx in enumerate(gene.transcripts):
                observe_transcript(tx, f"model/{i}/{j}/{k}", results)


def _sliced_transcript(exon_starts, exon_ends, cds_starts, cds_ends, frames):
    parent = seq_chunk_to_parent("ACGTTGCAAT" * 4, "chrX", 20, 60)
    tx = TranscriptInterval(
        exon_starts,
        exon_ends,
        Strand.PLUS,
        cds_starts=cds_starts,
        cds_ends=cds_ends,
        cds_frames=frames,
        parent_or_seq_chunk_parent=parent,
    )
    return [tx, tx.cds, tx.is_coding, tx._cds_frames, tx.to_dict(), tx.cds_size]


def _transcript_with_failing_cds():
    """The constructor of the CDS raises LocationOverlapException: the transcript is built without a CDS."""
    from unittest import mock

    from inscripta.biocantor.exc import LocationOverlapException
    from inscripta.biocantor.gene import transcript as transcript_module

    with mock.patch.object(transcript_module, "CDSInterval", side_effect=LocationOverlapException("sliced out")):
        tx = TranscriptInterval([5], [20], Strand.PLUS, cds_starts=[6], cds_ends=[12], cds_frames=[CDSFrame.ZERO])
    out = [tx, tx.cds, tx.is_coding, tx._cds_frames, tx.to_dict(), tx.cds_size]
    with mock.patch.object(transcript_module, "CDSInterval", side_effect=ValueError("something else")):
        try:
            TranscriptInterval([5], [20], Strand.PLUS, cds_starts=[6], cds_ends=[12], cds_frames=[CDSFrame.ZERO])
        except ValueError as e:
            out.append(f"ValueError {e}")
    return out


def observe_constructor_errors(results):
    from inscripta.biocantor.gene.cds_frame import CDSPhase

    P, Z, O, T = Strand.PLUS, CDSFrame.ZERO, CDSFrame.ONE, CDSFrame.TWO
    cases = {
        "cds/mismatch_len": lambda: CDSInterval([0, 10], [5, 15], P, [Z]),
        "cds/mix1": lambda: CDSInterval([0, 10], [5, 15], P, [Z, CDSPhase.ONE]),
        "cds/mix2": lambda: CDSInterval([0, 10], [5, 15], P, [CDSPhase.ONE, Z]),
        "cds/mix3": lambda: CDSInterval([0, 10, 20], [5, 15, 25], P, [CDSPhase.ONE, CDSPhase.ZERO, Z]),
        "cds/phases": lambda: [
            f.name for f in CDSInterval([0, 10, 20], [5, 15, 25], P, [CDSPhase.ONE, CDSPhase.ZERO, CDSPhase.TWO]).frames
        ],
        "cds/empty": lambda: CDSInterval([0], [0], P, [Z]),
        "cds/guid": lambda: CDSInterval([0, 10], [5, 15], P, [Z, O]).guid,
        "cds/guid_given": lambda: CDSInterval([0, 10], [5, 15], P, [Z, O], guid="abc").guid,
        "tx/cds_start_only": lambda: TranscriptInterval([0], [10], P, cds_starts=[2]),
        "tx/cds_end_only": lambda: TranscriptInterval([0], [10], P, cds_ends=[2]),
        "tx/cds_len_mismatch": lambda: TranscriptInterval([0], [10], P, cds_starts=[2], cds_ends=[3, 4]),
        "tx/cds_start_low": lambda: TranscriptInterval([5], [10], P, cds_starts=[2], cds_ends=[8], cds_frames=[Z]),
        "tx/cds_end_high": lambda: TranscriptInterval([5], [10], P, cds_starts=[6], cds_ends=[18], cds_frames=[Z]),
        "tx/no_frames": lambda: TranscriptInterval([5], [10], P, cds_starts=[6], cds_ends=[8]),
        "tx/frames_mismatch": lambda: TranscriptInterval([5], [10], P, cds_starts=[6], cds_ends=[8], cds_frames=[Z, T]),
        "tx/ok": lambda: TranscriptInterval([5], [10], P, cds_starts=[6], cds_ends=[9], cds_frames=[T]).to_dict(),
        "tx/noncoding": lambda: TranscriptInterval([5, 12], [10, 20], Strand.MINUS).to_dict(),
        # the chunk slices the whole CDS out (the transcript stays, and turns non-coding)
        "tx/cds_off_chunk": lambda: [
            str(x)
            for x in _sliced_transcript([5, 30], [15, 50], [6], [12], [Z])
        ],
        "tx/cds_part_off_chunk": lambda: [
            str(x)
            for x in _sliced_transcript([5, 30], [15, 50], [6, 30], [15, 42], [Z, Z])
        ],
        "tx/cds_overlap_exception": lambda: _transcript_with_failing_cds(),
        "tx/cds_other_error": lambda: _sliced_transcript([5, 30], [15, 50], [6, 30], [15, 42], [Z]),
    }
    for key, fn in cases.items():
        results["ctor/" + key] = observe(fn)


def observe_bundled_files(results):
    """The three bundled GFF3 -> tbl pairs of the upstream test suite (needs two shims to import the parsers)."""
    try:
        import marshmallow

        _orig = marshmallow.post_dump

        def post_dump(fn=None, pass_many=False, pass_original=False, **kw):
            return _orig(fn, pass_collection=pass_many, pass_original=pass_original)

        marshmallow.post_dump = post_dump
        if "vcf" not in sys.modules:
            v, m = types.ModuleType("vcf"), types.ModuleType("vcf.model")
            v.__path__ = []
            m._Record = object
            v.model = m
            sys.modules["vcf"], sys.modules["vcf.model"] = v, m
        from inscripta.biocantor.io.gff3.parser import parse_gff3_embedded_fasta
        from inscripta.biocantor.io.parser import ParsedAnnotationRecord
    except Exception as e:  # noqa
        results["bundled/unavailable"] = f"{type(e).__name__}"
        return
    for gff3, expected in [
        ("INSC1003_embedded_extra_contig.gff3", "INSC1003_embedded_extra_contig.tbl"),
        ("insO_frameshift.gff3", "insO_frameshift.tbl"),
        ("PEG10_offset_gff3_fasta.gff3", "PEG10_offset_gff3_fasta.tbl"),
    ]:
        try:
            recs = list(
                ParsedAnnotationRecord.parsed_annotation_records_to_model(parse_gff3_embedded_fasta("tests/data/" + gff3))
            )
        except Exception as e:  # noqa
            results["bundled/" + gff3] = f"parse failed {type(e).__name__}"
            continue
        for flavor in GenbankFlavor:
            out = tbl_text(
                recs, locus_tag_prefix="test", submitter_lab_name="inscripta", random_seed=123, genbank_flavor=flavor
            )
            results[f"bundled/{gff3}/{flavor.name}"] = out
            if flavor == GenbankFlavor.EUKARYOTIC:
                with open("tests/data/" + expected) as fh:
                    results[f"bundled/{gff3}/matches_expected"] = str(out["text"] == fh.read())
        for i, rec in enumerate(recs):
            for j, gene in enumerate(rec.genes):
                for k, tx in enumerate(gene.transcripts):
                    observe_transcript(tx, f"bundled/{gff3}/model/{i}/{j}/{k}", results)


def dump(path):
    results = {}
    collections = build_collections()
    results["meta/n_genes"] = [len(c.genes) for c in collections]
    observe_static_helpers(results)
    observe_constructor_errors(results)
    observe_tbl(collections, results)
    observe_tbl_objects(collections, results)
    # fresh models (the caches of the ones above are warm) for the direct CDS / transcript observations
    observe_models(build_collections(), results)
    observe_bundled_files(results)
    with open(path, "w") as fh:
        json.dump(results, fh, indent=1, sort_keys=True)
    print(f"{len(results)} observations written to {path}")


def compare(a, b):
    with open(a) as fh:
        ra = json.load(fh)
    with open(b) as fh:
        rb = json.load(fh)
    bad = [k for k in sorted(set(ra) | set(rb)) if ra.get(k, "<missing>") != rb.get(k, "<missing>")]
    for k in bad[:40]:
        print("DIFF", k)
        print("   a:", json.dumps(ra.get(k, "<missing>"))[:600])
        print("   b:", json.dumps(rb.get(k, "<missing>"))[:600])
    print(f"{len(ra)} vs {len(rb)} observations, {len(bad)} differ")
    return 1 if bad else 0


if __name__ == "__main__":
    if sys.argv[1] == "dump":
        dump(sys.argv[2])
    elif sys.argv[1] == "compare":
        sys.exit(compare(sys.argv[2], sys.argv[3]))
    else:
        raise SystemExit(__doc__)
