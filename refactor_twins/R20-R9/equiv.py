"""
Equivalence harness for the C20 refactorings (gene / feature-collection / annotation-collection aggregates).

Usage (from the worktree root):
    /venv/bin/python _refactor/R2/equiv.py dump /tmp/pristine.json      # on the pristine tree
    git apply _refactor/R2/patch.diff
    /venv/bin/python _refactor/R2/equiv.py dump /tmp/patched.json
    /venv/bin/python _refactor/R2/equiv.py compare /tmp/pristine.json /tmp/patched.json

Add --fake-cgranges to both dump runs to also drive the cgranges ("optimized") code paths through a small
pure-python stand-in for the cgranges extension, which is not installed here.

Everything observable (repr / str / to_dict / GFF rows / exceptions with their messages) is normalised to JSON.
The interpreter is re-executed with PYTHONHASHSEED=0 (or $EQUIV_HASHSEED) so that outputs that depend on set
iteration order are comparable between two runs.
"""
import os
import sys

_HASHSEED = os.environ.get("EQUIV_HASHSEED", "0")
if os.environ.get("PYTHONHASHSEED") != _HASHSEED:
    os.environ["PYTHONHASHSEED"] = _HASHSEED
    os.execv(sys.executable, [sys.executable] + sys.argv)

sys.path.insert(0, os.getcwd())

import json  # noqa: E402
import random  # noqa: E402
import types  # noqa: E402
from enum import Enum  # noqa: E402
from uuid import UUID  # noqa: E402

import inscripta.biocantor.location  # noqa: E402,F401  (must come first: circular import otherwise)
from inscripta.biocantor.location import SingleInterval, Strand  # noqa: E402
from inscripta.biocantor.parent import Parent, SequenceType  # noqa: E402
from inscripta.biocantor.sequence import Sequence, Alphabet  # noqa: E402


# --- stub of inscripta.biocantor.io.parser (cannot be imported here); the two functions are verbatim copies ---------
def seq_to_parent(seq, alphabet=Alphabet.NT_EXTENDED_GAPPED, seq_id=None, seq_type=SequenceType.CHROMOSOME):
    return Parent(
        sequence=Sequence(seq, alphabet, type=seq_type, id=seq_id), location=SingleInterval(0, len(seq), Strand.PLUS)
    )


def seq_chunk_to_parent(seq, sequence_name, start, end, strand=Strand.PLUS, alphabet=Alphabet.NT_EXTENDED_GAPPED):
    chunk_id = f"{sequence_name}:{start}-{end}"
    return Parent(
        id=chunk_id,
        sequence=Sequence(
            seq,
            alphabet,
            id=chunk_id,
            type=SequenceType.SEQUENCE_CHUNK,
            parent=Parent(
                location=SingleInterval(
                    start,
                    end,
                    strand,
                    parent=Parent(id=sequence_name, sequence_type=SequenceType.CHROMOSOME),
                )
            ),
        ),
    )


# --- optional stand-in for the (not installed) cgranges extension, to drive the "optimized" query paths ---------------
class _FakeCgranges:
    """Same interface as cgranges.cgranges: add / index / overlap yielding (start, end, label) sorted by start."""

    def __init__(self):
        self._rows = []
        self._indexed = False

    def add(self, contig, start, end, label):
        self._rows.append((contig, start, end, label))

    def index(self):
        self._rows.sort(key=lambda r: (r[0], r[1]))
        self._indexed = True

    def overlap(self, contig, start, end):
        assert self._indexed
        for c, s, e, label in self._rows:
            if c == contig and s < end and start < e:
                yield s, e, label


if "--fake-cgranges" in sys.argv:
    sys.argv.remove("--fake-cgranges")
    _cg = types.ModuleType("cgranges")
    _cg.cgranges = _FakeCgranges
    sys.modules["cgranges"] = _cg

_stub = types.ModuleType("inscripta.biocantor.io.parser")
_stub.seq_to_parent = seq_to_parent
_stub.seq_chunk_to_parent = seq_chunk_to_parent
sys.modules["inscripta.biocantor.io.parser"] = _stub

from inscripta.biocantor.gene.biotype import Biotype  # noqa: E402
from inscripta.biocantor.gene.cds_frame import CDSFrame  # noqa: E402
from inscripta.biocantor.gene.collections import AnnotationCollection  # noqa: E402
from inscripta.biocantor.gene.feature import FeatureInterval, FeatureIntervalCollection  # noqa: E402
from inscripta.biocantor.gene.gene import GeneInterval  # noqa: E402
from inscripta.biocantor.gene.interval import AbstractFeatureIntervalCollection  # noqa: E402
from inscripta.biocantor.gene.transcript import TranscriptInterval  # noqa: E402
from inscripta.biocantor.gene.variants import VariantInterval, VariantIntervalCollection  # noqa: E402

GENOME_LEN = 240
CHUNK = (20, 220)
_rng = random.Random(20)
GENOME = "".join(_rng.choice("ACGT") for _ in range(GENOME_LEN))


def parents():
    """name -> factory of a fresh parent (None / chromosome / sequence chunk)."""
    return {
        "none": lambda: None,
        "chrom": lambda: seq_to_parent(GENOME, seq_id="chr1"),
        "chunk": lambda: seq_chunk_to_parent(GENOME[CHUNK[0] : CHUNK[1]], "chr1", CHUNK[0], CHUNK[1]),
    }


# --- normalisation ---------------------------------------------------------------------------------------------------
def norm(obj):
    if obj is None or isinstance(obj, (bool, int, float)):
        return obj
    if isinstance(obj, Enum):
        return f"{obj.__class__.__name__}.{obj.name}"
    if isinstance(obj, str):
        return obj
    if isinstance(obj, UUID):
        return str(obj)
    if isinstance(obj, dict):
        return {"__dict_in_order__": [[norm(k), norm(v)] for k, v in obj.items()]}
    if isinstance(obj, (set, frozenset)):
        return {"__set_in_iteration_order__": [norm(x) for x in obj]}
    if isinstance(obj, tuple):
        return {"__tuple__": [norm(x) for x in obj]}
    if isinstance(obj, list):
        return [norm(x) for x in obj]
    if isinstance(obj, types.GeneratorType):
        return {"__generator__": [norm(x) for x in obj]}
    return {"__type__": type(obj).__name__, "repr": repr(obj), "str": str(obj)}


def attempt(fn):
    try:
        return {"ok": norm(fn())}
    except Exception as e:  # noqa: BLE001 - exception type and message are part of the behaviour
        return {"exc": type(e).__name__, "msg": str(e)}


# --- random building blocks ------------------------------------------------------------------------------------------
def random_blocks(rng, lo, hi, max_blocks):
    n = rng.randint(1, max_blocks)
    points = sorted(rng.sample(range(lo, hi), 2 * n))
    return points[0::2], points[1::2]


def random_transcript_kwargs(rng, lo, hi, idx, coding=None, primary=None, strand=None):
    starts, ends = random_blocks(rng, lo, hi, 4)
    strand = strand or rng.choice([Strand.PLUS, Strand.MINUS])
    kw = dict(
        exon_starts=starts,
        exon_ends=ends,
        strand=strand,
        transcript_id=f"tx{idx}",
        transcript_symbol=f"sym{idx}",
        sequence_name="chr1",
        is_primary_tx=primary,
        qualifiers={"note": [f"n{idx}"]} if rng.random() < 0.5 else None,
    )
    if coding is None:
        coding = rng.random() < 0.6
    if coding:
        # CDS: a sub-range of the exonic bases, intersected with the exons
        c_lo = rng.randint(starts[0], ends[0] - 1)
        c_hi = rng.randint(max(c_lo + 1, starts[-1] + 1), ends[-1])
        cs, ce = [], []
        for s, e in zip(starts, ends):
            s2, e2 = max(s, c_lo), min(e, c_hi)
            if s2 < e2:
                cs.append(s2)
                ce.append(e2)
        kw.update(
            cds_starts=cs,
            cds_ends=ce,
            cds_frames=[rng.choice([CDSFrame.ZERO, CDSFrame.ONE, CDSFrame.TWO]) for _ in cs],
            transcript_type=Biotype.protein_coding,
            protein_id=f"prot{idx}",
        )
    return kw


def random_feature_kwargs(rng, lo, hi, idx, primary=None, strand=None):
    starts, ends = random_blocks(rng, lo, hi, 3)
    return dict(
        interval_starts=starts,
        interval_ends=ends,
        strand=strand or rng.choice([Strand.PLUS, Strand.MINUS, Strand.UNSTRANDED]),
        feature_types=rng.choice([None, ["promoter"], ["tfbs", "promoter"], ["enhancer"], ["a", "b", "c", "d"]]),
        feature_name=f"feat{idx}",
        feature_id=f"fid{idx}",
        sequence_name="chr1",
        is_primary_feature=primary,
        qualifiers={"q": [f"v{idx}", "shared"]} if rng.random() < 0.5 else None,
    )


def primary_flags(rng, n):
    """none / exactly one / several flags."""
    mode = rng.choice(["none", "none", "none", "one", "one", "one", "several", "false"])
    if mode == "none":
        return [None] * n
    if mode == "false":
        return [False] * n
    if mode == "one":
        flags = [None] * n
        flags[rng.randrange(n)] = True
        return flags
    return [rng.random() < 0.5 for _ in range(n)]


def gene_specs(rng, count, lo, hi):
    specs = []
    for g in range(count):
        n = rng.randint(1, 5)
        flags = primary_flags(rng, n)
        # two thirds of the genes have all their transcripts on one strand (merged transcripts need that)
        strand = rng.choice([None, Strand.PLUS, Strand.MINUS])
        txs = []
        for i in range(n):
            kind = rng.random()
            if txs and kind < 0.3:
                # a tie: same structure as an earlier transcript, different identifiers
                dup = dict(rng.choice(txs))
                dup.update(transcript_id=f"g{g}dup{i}", transcript_symbol=f"dupsym{i}", is_primary_tx=flags[i])
                if strand is None and rng.random() < 0.5:
                    dup["strand"] = Strand.PLUS if dup["strand"] == Strand.MINUS else Strand.MINUS
                txs.append(dup)
            else:
                txs.append(random_transcript_kwargs(rng, lo, hi, f"{g}_{i}", primary=flags[i], strand=strand))
        specs.append(
            dict(
                transcripts=txs,
                gene_id=f"gene{g}",
                gene_symbol=rng.choice([None, f"GS{g}"]),
                gene_type=rng.choice([None, Biotype.protein_coding, Biotype.lncRNA]),
                locus_tag=rng.choice([None, f"LT{g}"]),
                qualifiers=rng.choice([None, {"gq": ["x", "y"]}, {"gene_id": ["other"], "k": [1, 2]}]),
                sequence_name="chr1",
            )
        )
    return specs


def collection_specs(rng, count, lo, hi):
    specs = []
    for c in range(count):
        n = rng.randint(1, 5)
        flags = primary_flags(rng, n)
        strand = rng.choice([None, Strand.PLUS, Strand.MINUS, Strand.UNSTRANDED])
        feats = []
        for i in range(n):
            if feats and rng.random() < 0.3:
                dup = dict(rng.choice(feats))
                dup.update(feature_id=f"c{c}dup{i}", is_primary_feature=flags[i])
                feats.append(dup)
            else:
                feats.append(random_feature_kwargs(rng, lo, hi, f"{c}_{i}", primary=flags[i], strand=strand))
        specs.append(
            dict(
                feature_intervals=feats,
                feature_collection_name=rng.choice([None, f"fc{c}"]),
                feature_collection_id=f"fcid{c}",
                feature_collection_type=rng.choice([None, "regulatory"]),
                locus_tag=rng.choice([None, f"FLT{c}"]),
                qualifiers=rng.choice([None, {"cq": ["x"]}, {"feature_type": ["zzz"]}]),
                sequence_name="chr1",
            )
        )
    return specs


def build_gene(spec, parent):
    kw = dict(spec)
    kw["transcripts"] = [TranscriptInterval(parent_or_seq_chunk_parent=parent, **t) for t in spec["transcripts"]]
    return GeneInterval(parent_or_seq_chunk_parent=parent, **kw)


def build_fc(spec, parent):
    kw = dict(spec)
    kw["feature_intervals"] = [
        FeatureInterval(parent_or_seq_chunk_parent=parent, **f) for f in spec["feature_intervals"]
    ]
    return FeatureIntervalCollection(parent_or_seq_chunk_parent=parent, **kw)


def index_of(obj, lst):
    for i, x in enumerate(lst):
        if x is obj:
            return i
    return None if obj is None else "NOT_A_MEMBER"


def describe_feature_interval(fi):
    return dict(
        str=str(fi),
        d=norm(fi.to_dict()),
        d_chunk=attempt(lambda: fi.to_dict(chromosome_relative_coordinates=False)),
        chrom_blocks=norm([(b.start, b.end, b.strand) for b in fi.chromosome_location.blocks]),
        chunk_loc=repr(fi.chunk_relative_location),
        guid=str(fi.guid),
        types=norm(fi.feature_types),
        seq=attempt(lambda: str(fi.get_spliced_sequence())),
    )


def gff_rows(obj, **kw):
    return attempt(lambda: [str(r) for r in obj.to_gff(**kw)])


def describe_gene(gene):
    txs = gene.transcripts
    out = dict(
        repr=repr(gene),
        start=gene.start,
        end=gene.end,
        genomic=(gene.genomic_start, gene.genomic_end),
        bin=gene.bin,
        chunk_loc=repr(gene.chunk_relative_location),
        chrom_loc=repr(gene.chromosome_location),
        strand=norm(gene.strand),
        is_coding=norm(gene.is_coding),
        id=gene.id,
        name=gene.name,
        identifiers=norm(gene.identifiers),
        guid=str(gene.guid),
        children_guids=norm(gene.children_guids),
        guid_map=norm([(str(k), index_of(v, txs)) for k, v in gene.guid_map.items()]),
        iter=norm([index_of(t, txs) for t in gene]),
        iter_children_type=type(gene.iter_children()).__name__,
        primary_attr=index_of(gene.primary_transcript, txs),
        primary=index_of(gene.get_primary_transcript(), txs),
        primary_feature=index_of(gene.get_primary_feature(), txs),
        primary_cds=attempt(lambda: gene.get_primary_cds()),
        primary_tx_seq=attempt(lambda: gene.get_primary_transcript_sequence()),
        primary_feature_seq=attempt(lambda: gene.get_primary_feature_sequence()),
        primary_cds_seq=attempt(lambda: gene.get_primary_cds_sequence()),
        primary_protein=attempt(lambda: gene.get_primary_protein()),
        merged_tx=attempt(lambda: describe_feature_interval(gene.get_merged_transcript())),
        merged_feature=attempt(lambda: describe_feature_interval(gene.get_merged_feature())),
        merged_cds=attempt(lambda: describe_feature_interval(gene.get_merged_cds())),
        export_qualifiers=norm(gene.export_qualifiers()),
        export_qualifiers_again=norm(gene.export_qualifiers()),
        qualifiers_after=norm(gene.qualifiers),
        to_dict=norm(gene.to_dict()),
        to_dict_chunk=attempt(lambda: gene.to_dict(chromosome_relative_coordinates=False)),
        gff=gff_rows(gene),
        gff_chunk=gff_rows(gene, chromosome_relative_coordinates=False),
        ref_seq=attempt(lambda: str(gene.get_reference_sequence())),
    )
    guids = [t.guid for t in txs]
    queries = {
        "single": guids[0],
        "all_reversed": list(reversed(guids)),
        "last_only": [guids[-1]],
        "unknown": [UUID(int=5)],
        "mixed": [UUID(int=5), guids[-1], guids[0]],
        "empty": [],
    }
    for name, q in queries.items():

        def run(q=q):
            res = gene.query_by_guids(q)
            if res is None:
                return None
            return dict(
                repr=repr(res),
                d=res.to_dict(),
                primary=index_of(res.get_primary_transcript(), res.transcripts),
                span=(res.start, res.end),
                guid=res.guid,
            )

        out[f"query_{name}"] = attempt(run)
    out["roundtrip"] = attempt(lambda: GeneInterval.from_dict(gene.to_dict()).to_dict())
    return out


def describe_fc(fc):
    feats = fc.feature_intervals
    out = dict(
        repr=repr(fc),
        start=fc.start,
        end=fc.end,
        genomic=(fc.genomic_start, fc.genomic_end),
        bin=fc.bin,
        chunk_loc=repr(fc.chunk_relative_location),
        strand=norm(fc.strand),
        is_coding=norm(fc.is_coding),
        id=fc.id,
        name=fc.name,
        identifiers=norm(fc.identifiers),
        guid=str(fc.guid),
        feature_types=norm(fc.feature_types),
        feature_types_is_fresh_set=all(fc.feature_types is not f.feature_types for f in feats),
        children_guids=norm(fc.children_guids),
        guid_map=norm([(str(k), index_of(v, feats)) for k, v in fc.guid_map.items()]),
        iter=norm([index_of(t, feats) for t in fc]),
        iter_children_type=type(fc.iter_children()).__name__,
        primary_attr=index_of(fc.primary_feature, feats),
        primary=index_of(fc.get_primary_feature(), feats),
        primary_seq=attempt(lambda: fc.get_primary_feature_sequence()),
        merged=attempt(lambda: describe_feature_interval(fc.get_merged_feature())),
        export_qualifiers=norm(fc.export_qualifiers()),
        qualifiers_after=norm(fc.qualifiers),
        to_dict=norm(fc.to_dict()),
        to_dict_chunk=attempt(lambda: fc.to_dict(chromosome_relative_coordinates=False)),
        gff=gff_rows(fc),
        gff_chunk=gff_rows(fc, chromosome_relative_coordinates=False),
    )
    guids = [t.guid for t in feats]
    for name, q in {
        "single": guids[0],
        "all_reversed": list(reversed(guids)),
        "unknown": [UUID(int=5)],
        "mixed": [UUID(int=5), guids[-1]],
    }.items():

        def run(q=q):
            res = fc.query_by_guids(q)
            if res is None:
                return None
            return dict(
                repr=repr(res),
                d=res.to_dict(),
                primary=index_of(res.get_primary_feature(), res.feature_intervals),
                span=(res.start, res.end),
                types=res.feature_types,
            )

        out[f"query_{name}"] = attempt(run)
    out["roundtrip"] = attempt(lambda: FeatureIntervalCollection.from_dict(fc.to_dict()).to_dict())
    return out


def describe_collection_brief(ac):
    return dict(
        repr=repr(ac),
        is_empty=ac.is_empty,
        len=len(ac),
        loc=repr(ac._location),
        span=(getattr(ac, "start", "unset"), getattr(ac, "end", "unset")),
        bin=getattr(ac, "bin", "unset"),
        guid=str(ac.guid),
        order=[(type(c).__name__, c.start, c.end, str(c.guid)) for c in ac],
        to_dict=attempt(lambda: ac.to_dict()),
        completely_within=ac.completely_within,
    )


def describe_collection(ac):
    out = describe_collection_brief(ac)
    children = list(ac.iter_children())
    out.update(
        children_type=type(ac.children).__name__,
        iter_children_type=type(ac.iter_children()).__name__,
        non_variant=[(type(c).__name__, c.start, str(c.guid)) for c in ac.iter_non_variant_children()],
        iter_nv_type=type(ac.iter_non_variant_children()).__name__,
        children_guids=norm(ac.children_guids),
        guid_map=norm([(str(k), index_of(v, children)) for k, v in ac.guid_map.items()]),
        hierarchical=attempt(lambda: ac.hierarchical_children_guids),
        interval_guids_to_collections=attempt(
            lambda: [(str(k), index_of(v, children)) for k, v in ac.interval_guids_to_collections.items()]
        ),
        child_interval_guid_map=attempt(
            lambda: [
                (str(k), index_of(v[0], children), repr(v[1])) for k, v in ac._child_interval_guid_map.items()
            ]
        ),
        id=ac.id,
        name=ac.name,
        identifiers=norm(ac.identifiers),
        to_dict_chunk=attempt(lambda: ac.to_dict(chromosome_relative_coordinates=False)),
        to_dict_parent=attempt(lambda: ac.to_dict(export_parent=True)),
        gff=gff_rows(ac),
        gff_chunk=gff_rows(ac, chromosome_relative_coordinates=False),
        alt_haplotypes=attempt(
            lambda: None
            if ac.alternative_haplotype_mapping is None
            else [(str(k), [repr(x) for x in v]) for k, v in ac.alternative_haplotype_mapping.items()]
        ),
    )
    for t in ["feature", "TRANSCRIPT", "Variant", "gene", ""]:
        out[f"children_by_type_{t}"] = attempt(
            lambda t=t: [index_of(c, children) for c in ac.get_children_by_type(t)]
        )

    if not ac.is_empty or hasattr(ac, "start"):
        s, e = ac.start, ac.end
        mid = (s + e) // 2
        windows = [
            (None, None),
            (s, e),
            (s, mid),
            (mid, e),
            (s + (e - s) // 4, e - (e - s) // 4),
            (mid, mid + 1),
            (mid, mid),
            (e, s),
            (-1, e),
            (s - 1 if s > 0 else 0, e + 1),
            (0, e),
        ]
        for (ws, we) in windows:
            for cw in (True, False):
                for coding_only in (False, True):
                    for expand in (False, True):
                        key = f"qpos_{ws}_{we}_{cw}_{coding_only}_{expand}"
                        out[key] = attempt(
                            lambda: describe_collection_brief(
                                ac.query_by_position(
                                    ws,
                                    we,
                                    coding_only=coding_only,
                                    completely_within=cw,
                                    expand_location_to_children=expand,
                                )
                            )
                        )

    child_guids = [c.guid for c in children]
    grandchild_guids = [g.guid for c in children for g in c.iter_children()]
    identifiers = sorted({i for c in children for i in c.identifiers if isinstance(i, str)})
    guid_queries = {
        "none": [],
        "unknown": [UUID(int=7)],
        "first": child_guids[:1],
        "single": child_guids[0] if child_guids else UUID(int=7),
        "rev": list(reversed(child_guids)),
        "every_other": child_guids[::2] + [UUID(int=9)],
    }
    for name, q in guid_queries.items():
        out[f"qguid_{name}"] = attempt(lambda q=q: describe_collection_brief(ac.query_by_guids(q)))
    interval_queries = {
        "none": [],
        "unknown": [UUID(int=7)],
        "single": grandchild_guids[0] if grandchild_guids else UUID(int=7),
        "rev": list(reversed(grandchild_guids)),
        "every_third": grandchild_guids[::3] + [UUID(int=9)],
    }
    for name, q in interval_queries.items():
        for meth in (
            "query_by_interval_guids",
            "query_by_transcript_interval_guids",
            "query_by_feature_interval_guids",
        ):

            def run(q=q, meth=meth):
                res = getattr(ac, meth)(q)
                d = describe_collection_brief(res)
                # set-driven ordering inside: also record sorted view
                d["sorted_order"] = sorted(map(repr, d["order"]))
                return d

            out[f"{meth}_{name}"] = attempt(run)
    ident_queries = {
        "none": [],
        "unknown": "nope",
        "single": identifiers[0] if identifiers else "nope",
        "several": identifiers[::2],
        "all": identifiers,
    }
    for name, q in ident_queries.items():
        out[f"qident_{name}"] = attempt(
            lambda q=q: describe_collection_brief(ac.query_by_feature_identifiers(q))
        )
    return out


# --- stand-ins used to probe _find_primary_feature directly (truthiness, ties, flags) ----------------------------------
class FakeInterval:
    def __init__(self, kind, cds, length, flag, name):
        self.interval_type = kind
        self.cds_size = cds
        self._len = length
        self.is_primary_feature = flag
        self.name = name

    def __len__(self):
        return self._len

    def __repr__(self):
        return self.name


def probe_find_primary(rng):
    out = {}
    fn = AbstractFeatureIntervalCollection._find_primary_feature
    for case in range(300):
        n = rng.randint(1, 6)
        items = []
        for i in range(n):
            items.append(
                FakeInterval(
                    rng.choice(["transcript", "feature"]),
                    rng.choice([0, 0, 3, 9, 9, 30]),
                    rng.choice([0, 0, 5, 9, 9, 12]),
                    rng.choice([None, None, None, False, True, 1, 0, "yes", ""]),
                    f"i{i}",
                )
            )
        if rng.random() < 0.3:
            seq = tuple(items)
        else:
            seq = items
        out[f"fake_{case}"] = dict(
            spec=[(x.interval_type, x.cds_size, len(x), repr(x.is_primary_feature)) for x in items],
            res=attempt(lambda: index_of(fn(seq), items)),
        )
    out["empty"] = attempt(lambda: fn([]))
    return out


def main_dump(path):
    rng = random.Random(2020)
    results = {}
    lo, hi = CHUNK[0] + 2, CHUNK[1] - 2
    g_specs = gene_specs(rng, 60, lo, hi)
    c_specs = collection_specs(rng, 50, lo, hi)
    pfac = parents()

    results["find_primary"] = probe_find_primary(random.Random(7))

    for pname, factory in pfac.items():
        for i, spec in enumerate(g_specs):
            results[f"gene/{pname}/{i}"] = attempt(lambda: describe_gene(build_gene(spec, factory())))
        for i, spec in enumerate(c_specs):
            results[f"fc/{pname}/{i}"] = attempt(lambda: describe_fc(build_fc(spec, factory())))

    # degenerate constructors
    results["gene/empty"] = attempt(lambda: GeneInterval([]))
    results["fc/empty"] = attempt(lambda: FeatureIntervalCollection([]))

    def dup_gene():
        t = TranscriptInterval([1], [5], Strand.PLUS)
        return GeneInterval([t, TranscriptInterval([7], [9], Strand.PLUS), t])

    def dup_gene_two_pairs():
        a = TranscriptInterval([1], [5], Strand.PLUS)
        b = TranscriptInterval([7], [9], Strand.PLUS)
        return GeneInterval([a, b, TranscriptInterval([7], [9], Strand.PLUS), TranscriptInterval([1], [5], Strand.PLUS)])

    def dup_fc():
        a = FeatureInterval([1], [5], Strand.PLUS)
        b = FeatureInterval([7], [9], Strand.PLUS)
        return FeatureIntervalCollection([a, b, FeatureInterval([7], [9], Strand.PLUS), a])

    results["gene/dup"] = attempt(dup_gene)
    results["gene/dup2"] = attempt(dup_gene_two_pairs)
    results["fc/dup"] = attempt(dup_fc)

    # annotation collections (children drawn from the specs that can be built)
    def buildable(builder, spec):
        try:
            builder(spec, None)
        except Exception:  # noqa: BLE001
            return False
        return True

    g_specs = [s for s in g_specs if buildable(build_gene, s)]
    c_specs = [s for s in c_specs if buildable(build_fc, s)]
    arng = random.Random(99)
    for pname, factory in pfac.items():
        for k in range(24):
            n_g = arng.randint(0, 4)
            n_c = arng.randint(0, 3)
            gs = arng.sample(g_specs, n_g)
            cs = arng.sample(c_specs, n_c)
            bounds_mode = arng.choice(["infer"] * 5 + ["given"] * 2 + ["given_wide"] * 2 + ["start_only", "end_only"])
            with_variants = arng.random() < 0.35

            def make(gs=gs, cs=cs, bounds_mode=bounds_mode, with_variants=with_variants, factory=factory, k=k):
                parent = factory()
                genes = [build_gene(s, parent) for s in gs]
                fcs = [build_fc(s, parent) for s in cs]
                kw = {}
                if bounds_mode == "given":
                    kw = dict(start=CHUNK[0], end=CHUNK[1])
                elif bounds_mode == "given_wide":
                    kw = dict(start=CHUNK[0], end=CHUNK[1]) if pname == "chunk" else dict(start=0, end=GENOME_LEN)
                elif bounds_mode == "start_only":
                    kw = dict(start=CHUNK[0])
                elif bounds_mode == "end_only":
                    kw = dict(end=CHUNK[1])
                variants = None
                if with_variants and parent is not None:
                    v1 = VariantInterval(60, 61, "G", "SNV", variant_name="v1", parent_or_seq_chunk_parent=parent)
                    v2 = VariantInterval(
                        120, 123, "T", "deletion", variant_name="v2", parent_or_seq_chunk_parent=parent
                    )
                    v3 = VariantInterval(
                        30, 31, "GGC", "insertion", variant_name="v3", parent_or_seq_chunk_parent=parent
                    )
                    variants = [
                        VariantIntervalCollection(
                            [v1, v2], variant_collection_name="vc1", parent_or_seq_chunk_parent=parent
                        ),
                        VariantIntervalCollection(
                            [v3], variant_collection_name="vc0", parent_or_seq_chunk_parent=parent
                        ),
                    ]
                return AnnotationCollection(
                    feature_collections=fcs or None,
                    genes=genes or None,
                    variant_collections=variants,
                    name=f"ac{k}",
                    id=f"acid{k}",
                    sequence_name="chr1",
                    qualifiers={"aq": ["1"]} if k % 2 else None,
                    completely_within=None if k % 3 else True,
                    parent_or_seq_chunk_parent=parent,
                    **kw,
                )

            results[f"ac/{pname}/{k}/{bounds_mode}/{n_g}g{n_c}c/{'var' if with_variants else 'novar'}"] = attempt(
                lambda: describe_collection(make())
            )

            def variants_incorporated(make=make):
                ac = make()
                parent = ac.chunk_relative_location.parent
                v = VariantInterval(70, 71, "A", "SNV", variant_name="iv", parent_or_seq_chunk_parent=parent)
                return describe_collection_brief(ac.incorporate_variants(v))

            results[f"ac_incorporate/{pname}/{k}"] = attempt(variants_incorporated)

        results[f"ac/{pname}/empty"] = attempt(
            lambda: describe_collection(AnnotationCollection(parent_or_seq_chunk_parent=factory()))
        )
        results[f"ac/{pname}/empty_bounds"] = attempt(
            lambda: describe_collection(
                AnnotationCollection(start=30, end=90, parent_or_seq_chunk_parent=factory())
            )
        )

    # same-start children keep genes < feature collections < variants order (stable sort)
    def same_start():
        g = [build_gene(s, None) for s in g_specs[:6]]
        f = [build_fc(s, None) for s in c_specs[:6]]
        return describe_collection(AnnotationCollection(feature_collections=f, genes=g))

    results["ac/same_start"] = attempt(same_start)

    def dup_children():
        g = build_gene(g_specs[0], None)
        return describe_collection(AnnotationCollection(genes=[g, build_gene(g_specs[0], None)]))

    results["ac/dup_children"] = attempt(dup_children)

    with open(path, "w") as fh:
        json.dump(results, fh, indent=1, sort_keys=True)
    n_exc = sum(1 for v in results.values() if isinstance(v, dict) and "exc" in v)
    print(f"wrote {len(results)} scenario records ({n_exc} top-level exceptions recorded) to {path}")


def main_compare(a, b):
    with open(a) as fh:
        ra = json.load(fh)
    with open(b) as fh:
        rb = json.load(fh)
    bad = []
    for key in sorted(set(ra) | set(rb)):
        if ra.get(key) != rb.get(key):
            bad.append(key)
    if bad:
        print(f"DIFFERENT: {len(bad)} of {len(ra)} records differ")
        for key in bad[:20]:
            print("  ", key)
            va, vb = ra.get(key), rb.get(key)
            if isinstance(va, dict) and isinstance(vb, dict) and "ok" in va and "ok" in vb:
                oa, ob = va["ok"], vb["ok"]
                if isinstance(oa, dict) and isinstance(ob, dict):
                    if "__dict_in_order__" in oa and "__dict_in_order__" in ob:
                        oa = {str(k): v for k, v in oa["__dict_in_order__"]}
                        ob = {str(k): v for k, v in ob["__dict_in_order__"]}
                    for k in sorted(set(oa) | set(ob)):
                        if oa.get(k) != ob.get(k):
                            print("      field", k, "\n        A:", str(oa.get(k))[:300], "\n        B:", str(ob.get(k))[:300])
                    continue
            print("      A:", str(va)[:300], "\n      B:", str(vb)[:300])
        sys.exit(1)
    print(f"IDENTICAL: {len(ra)} records")


if __name__ == "__main__":
    if len(sys.argv) >= 3 and sys.argv[1] == "dump":
        main_dump(sys.argv[2])
    elif len(sys.argv) >= 4 and sys.argv[1] == "compare":
        main_compare(sys.argv[2], sys.argv[3])
    else:
        print(__doc__)
        sys.exit(2)
