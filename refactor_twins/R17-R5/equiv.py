"""
Equivalence harness for refactorings of the NCBI .tbl writer and the CDS / transcript helpers it uses.

Usage (from the worktree root):

    /venv/bin/python _refactor/R1/equiv.py record /tmp/pristine.json     # on the pristine checkout
    git apply _refactor/R1/patch.diff
    /venv/bin/python _refactor/R1/equiv.py compare /tmp/pristine.json    # exits 1 on any difference

Every observation is reduced to plain str / repr so that it can be stored as JSON.
"""
import os
import sys

if os.environ.get("PYTHONHASHSEED") != "0":
    # set iteration order (db_xref qualifiers come from sets) must be the same in the two runs
    os.environ["PYTHONHASHSEED"] = "0"
    os.execv(sys.executable, [sys.executable] + sys.argv)

sys.path.insert(0, os.getcwd())  # run from the worktree root

import inscripta.biocantor.location  # noqa: F401,E402  (must be first: circular import otherwise)

import io  # noqa: E402
import json  # noqa: E402
import random  # noqa: E402
import warnings  # noqa: E402

from inscripta.biocantor.gene import GeneInterval
from inscripta.biocantor.gene.cds import CDSInterval
from inscripta.biocantor.gene.cds_frame import CDSFrame
from inscripta.biocantor.gene.codon import TranslationTable
from inscripta.biocantor.gene.collections import AnnotationCollection
from inscripta.biocantor.io.genbank.constants import GenbankFlavor
from inscripta.biocantor.io.ncbi import tbl_writer
from inscripta.biocantor.io.ncbi.tbl_writer import (
    TblFeature,
    TblGene,
    collection_to_tbl,
    random_uppercase_str,
)
from inscripta.biocantor.location.location_impl import SingleInterval, CompoundInterval
from inscripta.biocantor.location.strand import Strand
from inscripta.biocantor.parent import Parent, SequenceType
from inscripta.biocantor.sequence.alphabet import Alphabet
from inscripta.biocantor.sequence.sequence import Sequence

GENOME_LEN = 2400
WINDOW = 300
COMP = {"A": "T", "C": "G", "G": "C", "T": "A", "N": "N", "a": "t", "c": "g", "g": "c", "t": "a"}
STOPS = ["TAA", "TAG", "TGA"]
STARTS = ["ATG", "ATG", "TTG", "CTG", "GTG", "ATT", "ATA", "CCC", "AAA"]
NONCODING_BIOTYPES = ["rRNA", "tRNA", "misc_RNA", "lncRNA", "ncRNA", "snoRNA", None]
PRODUCTS = [
    None,
    ["alpha"],
    ["alpha-1"],
    ["1234"],
    ["my_protein_name"],
    ["zeta", "beta [weird]; (stuff)"],
    ["tRNA-Ala"],
    ["tRNA_bad"],
    ["16S_ribosomal_RNA"],
    ["hypothetical protein"],
]


def revcomp(s):
    return "".join(COMP[c] for c in reversed(s))


def seq_to_parent(seq, seq_id):
    return Parent(
        sequence=Sequence(seq, Alphabet.NT_EXTENDED_GAPPED, type=SequenceType.CHROMOSOME, id=seq_id),
        location=SingleInterval(0, len(seq), Strand.PLUS),
    )


def seq_chunk_to_parent(seq, sequence_name, start, end):
    chunk_id = f"{sequence_name}:{start}-{end}"
    return Parent(
        id=chunk_id,
        sequence=Sequence(
            seq,
            Alphabet.NT_EXTENDED_GAPPED,
            id=chunk_id,
            type=SequenceType.SEQUENCE_CHUNK,
            parent=Parent(
                location=SingleInterval(
                    start,
                    end,
                    Strand.PLUS,
                    parent=Parent(id=sequence_name, sequence_type=SequenceType.CHROMOSOME),
                )
            ),
        ),
    )


def own_frames(blocks, strand, start_frame):
    """Frames of in-frame blocks, listed in + orientation (independent re-implementation)."""
    ordered = blocks if strand == "PLUS" else blocks[::-1]
    frames = []
    consumed = -start_frame
    for i, (s, e) in enumerate(ordered):
        if i == 0:
            frames.append(start_frame)
        else:
            frames.append(consumed % 3)
        consumed += e - s
    if strand != "PLUS":
        frames = frames[::-1]
    return [["ZERO", "ONE", "TWO"][f] for f in frames]


def random_blocks(rng, lo, hi, n, allow_adjacent):
    """n sorted non-overlapping blocks inside [lo, hi); adjacent (0bp gap) blocks allowed on request."""
    while True:
        cuts = sorted(rng.sample(range(lo, hi), 2 * n))
        blocks = [(cuts[2 * i], cuts[2 * i + 1]) for i in range(n)]
        if all(e - s >= 4 for s, e in blocks):
            break
    if allow_adjacent and n > 1:
        # glue one block to its successor with a 0bp gap
        i = rng.randrange(n - 1)
        blocks[i] = (blocks[i][0], blocks[i + 1][0])
    return blocks


def plant(genome, blocks, strand, spliced):
    """Write the spliced (5'->3') sequence into the genome list at the block positions."""
    positions = [p for s, e in blocks for p in range(s, e)]
    if strand != "PLUS":
        positions = positions[::-1]
        spliced = "".join(COMP[c] for c in spliced)
    assert len(positions) == len(spliced)
    for p, c in zip(positions, spliced):
        genome[p] = c


def make_tx(rng, genome, lo, hi, strand, coding, idx, seqname, untyped=False):
    n = rng.choice([1, 1, 2, 3, 4])
    exons = random_blocks(rng, lo, hi, n, allow_adjacent=rng.random() < 0.4)
    tx = dict(
        exon_starts=[s for s, _ in exons],
        exon_ends=[e for _, e in exons],
        strand=strand,
        cds_starts=None,
        cds_ends=None,
        cds_frames=None,
        qualifiers=None,
        is_primary_tx=rng.choice([None, True, False]),
        transcript_id=rng.choice([None, f"tx{idx}", f"NM_{idx}.1"]),
        transcript_symbol=rng.choice([None, f"txsym{idx}"]),
        transcript_type=None,
        sequence_name=seqname,
        sequence_guid=None,
        protein_id=rng.choice([None, f"NP_{idx}.1"]),
        product=None,
        transcript_guid=None,
        transcript_interval_guid=None,
    )
    quals = {}
    prod = rng.choice(PRODUCTS)
    if prod is not None:
        quals["product"] = list(prod)
    if rng.random() < 0.4:
        quals["gene_synonym"] = rng.sample(["syn1", "abc", "GENE_A", f"sym{idx}", "zz top"], rng.randint(1, 3))
    if rng.random() < 0.3:
        quals["db_xref"] = rng.sample(["GeneID:1", "GeneID:22", "HGNC:5"], rng.randint(1, 2))
    if rng.random() < 0.2:
        quals["note"] = ["some (note); here"]
    if quals:
        tx["qualifiers"] = quals

    if coding:
        # trim UTRs
        cds = list(exons)
        if rng.random() < 0.6:
            first_s, first_e = cds[0]
            cds[0] = (first_s + rng.randint(0, max(0, (first_e - first_s) - 4)), first_e)
        if rng.random() < 0.6:
            last_s, last_e = cds[-1]
            cds[-1] = (last_s, last_e - rng.randint(0, max(0, (last_e - last_s) - 4)))
        if len(cds) > 2 and rng.random() < 0.3:
            cds = cds[1:]
        start_frame = rng.choice([0, 0, 1, 2])
        tx["cds_starts"] = [s for s, _ in cds]
        tx["cds_ends"] = [e for _, e in cds]
        if rng.random() < 0.8:
            tx["cds_frames"] = own_frames(cds, strand, start_frame)
        else:
            tx["cds_frames"] = [rng.choice(["ZERO", "ONE", "TWO"]) for _ in cds]
        tx["transcript_type"] = "protein_coding"
        # build the spliced sequence
        total = sum(e - s for s, e in cds)
        body = [rng.choice("ACGT") for _ in range(total)]
        # remove accidental stops in frame
        for i in range(start_frame, total - 2, 3):
            while "".join(body[i : i + 3]) in STOPS:
                body[i] = rng.choice("ACGT")
        spliced = "".join(body)
        if total >= start_frame + 3:
            start = rng.choice(STARTS)
            spliced = spliced[:start_frame] + start + spliced[start_frame + 3 :]
        mode = rng.choice(["stop", "stop", "nostop", "offstop", "internal"])
        usable = (total - start_frame) // 3 * 3
        if usable >= 9:
            end_codon_at = start_frame + usable - 3
            if mode in ("stop", "internal"):
                spliced = spliced[:end_codon_at] + rng.choice(STOPS) + spliced[end_codon_at + 3 :]
            if mode == "internal":
                at = start_frame + 3 * rng.randrange(1, usable // 3 - 1)
                spliced = spliced[:at] + rng.choice(STOPS) + spliced[at + 3 :]
            if mode == "offstop" and total - 3 > start_frame + 3:
                spliced = spliced[: total - 3] + rng.choice(STOPS)
        if rng.random() < 0.15:
            spliced = spliced.lower()
        plant(genome, cds, strand, spliced)
    else:
        # an untyped non-coding transcript makes the export fail (AttributeError): only in one collection
        tx["transcript_type"] = rng.choice(["rRNA", "tRNA", "misc_RNA", "lncRNA"] + ([None] if untyped else []))
    return tx


def make_collection(seed, with_name=True):
    rng = random.Random(seed)
    seqname = f"chr{seed}" if with_name else None
    genome = [rng.choice("ACGT") for _ in range(GENOME_LEN)]
    genes = []
    for w in range(GENOME_LEN // WINDOW):
        lo, hi = w * WINDOW + 5, (w + 1) * WINDOW - 5
        coding = rng.random() < 0.7
        strand = rng.choice(["PLUS", "MINUS"])
        n_tx = rng.choice([1, 1, 2])
        txs = []
        for t in range(n_tx):
            tx_strand = strand
            if n_tx > 1 and rng.random() < 0.15:
                tx_strand = "MINUS" if strand == "PLUS" else "PLUS"
            # later transcripts must not clobber the planted sequence of the first one: give each its own half
            if n_tx == 1:
                tlo, thi = lo, hi
            else:
                half = (hi - lo) // 2
                tlo, thi = (lo, lo + half - 2) if t == 0 else (lo + half + 2, hi)
            # a non-coding isoform in a coding gene makes the export fail: only in two collections
            tx_coding = coding and (t == 0 or seed not in (3, 101) or rng.random() < 0.5)
            txs.append(make_tx(rng, genome, tlo, thi, tx_strand, tx_coding, f"{seed}_{w}_{t}", seqname, seed == 101))
        for extra in txs[1:]:
            if txs[0]["is_primary_tx"] and extra["is_primary_tx"]:
                extra["is_primary_tx"] = False
        symbol = rng.choice([None, f"gene{w}", f"LT{seed}_{(w + 1) * 5}", "G(1);x"])
        gquals = {}
        if rng.random() < 0.4:
            gquals["gene_synonym"] = rng.sample(["gsyn", f"gene{w}", "aaa", "Zed"], rng.randint(1, 3))
        if rng.random() < 0.3:
            gquals["db_xref"] = ["GeneID:99"]
        if rng.random() < 0.2:
            gquals["synonym"] = ["othersyn"]
        gene = dict(
            transcripts=txs,
            gene_id=rng.choice([None, f"gid{w}"]),
            gene_symbol=symbol,
            gene_type="protein_coding" if coding else rng.choice(NONCODING_BIOTYPES),
            locus_tag=rng.choice([None, f"orig_{w}"]),
            qualifiers=gquals or None,
            sequence_name=seqname,
            sequence_guid=None,
            gene_guid=None,
        )
        genes.append(gene)
    return dict(seed=seed, seqname=seqname, genome="".join(genome), genes=genes)


def build_collection(spec, chunk=None):
    if chunk is None:
        parent = seq_to_parent(spec["genome"], spec["seqname"])
    else:
        s, e = chunk
        parent = seq_chunk_to_parent(spec["genome"][s:e], spec["seqname"], s, e)
    genes = [GeneInterval.from_dict(g, parent_or_seq_chunk_parent=parent) for g in spec["genes"]]
    return AnnotationCollection(
        genes=genes, sequence_name=spec["seqname"], parent_or_seq_chunk_parent=parent, name=f"coll{spec['seed']}"
    )


def attempt(fn):
    """Run fn, capturing warnings and exceptions; everything as JSON-able strings."""
    with warnings.catch_warnings(record=True) as w:
        warnings.simplefilter("always")
        try:
            res = fn()
            out = {"ok": res}
        except Exception as exc:  # noqa: BLE001
            out = {"exc": type(exc).__name__, "msg": str(exc)}
    out["warnings"] = [f"{x.category.__name__}: {x.message}" for x in w]
    return out


def obs_tbl(spec, chunk=None):
    res = {}
    for flavor in (GenbankFlavor.EUKARYOTIC, GenbankFlavor.PROKARYOTIC):
        for table in (TranslationTable.DEFAULT, TranslationTable.STANDARD, TranslationTable.PROKARYOTE):
            for kw_name, kw in (
                ("std", dict(locus_tag_prefix=f"LT{spec['seed']}", submitter_lab_name="lab", random_seed=7)),
                ("rand", dict(random_seed=11, locus_tag_jump_size=3)),
            ):

                def run():
                    coll = build_collection(spec, chunk)
                    fh = io.StringIO()
                    try:
                        collection_to_tbl([coll, coll], fh, translation_table=table, genbank_flavor=flavor, **kw)
                    finally:
                        run.partial = fh.getvalue()
                    return fh.getvalue()

                run.partial = None
                r = attempt(run)
                r["partial"] = run.partial
                res[f"{flavor.name}/{table.name}/{kw_name}"] = r
    # positional call, defaults, state of the random generator afterwards
    def run_positional():
        coll = build_collection(spec, chunk)
        fh = io.StringIO()
        random.seed(99)
        collection_to_tbl([coll], fh, TranslationTable.PROKARYOTE, "PFX", GenbankFlavor.PROKARYOTIC, 10, "sub")
        return [fh.getvalue(), random.random()]

    res["positional"] = attempt(run_positional)

    def run_defaults():
        coll = build_collection(spec, chunk)
        fh = io.StringIO()
        random.seed(5)
        collection_to_tbl(iter([coll]), fh)
        return [fh.getvalue(), random.random()]

    res["defaults"] = attempt(run_defaults)
    return res


def feature_obs(feat):
    return dict(
        type=type(feat).__name__,
        feature_type=str(feat.FEATURE_TYPE),
        valid_keys=sorted(feat.VALID_KEYS),
        loc=repr(feat.location),
        start_is_incomplete=repr(feat.start_is_incomplete),
        end_is_complete=repr(feat.end_is_complete),
        is_pseudo=repr(feat.is_pseudo),
        qualifiers=repr(feat.qualifiers),
        n_children=len(feat.children),
        loc_str=feat._location_to_str(),
        qual_str=feat._qualifiers_to_str(),
        s=str(feat),
        iter_types=[type(x).__name__ for x in feat],
        iter_children_types=[type(x).__name__ for x in feat.iter_children()],
    )


def obs_tblgene(spec, chunk=None):
    res = []
    coll = build_collection(spec, chunk)
    for i, gene in enumerate(coll.genes):
        for table in (TranslationTable.DEFAULT, TranslationTable.PROKARYOTE):
            for tag in (f"TAG_{i}", gene.gene_symbol, None):

                def run():
                    random.seed(3)
                    before = gene.to_dict()
                    tg = TblGene(gene, "lab", tag, table)
                    feats = [feature_obs(f) for f in tg]
                    return dict(
                        feats=feats,
                        gene_locus_tag=repr(tg.gene_tbl.locus_tag),
                        gene_repr=repr(tg.gene),
                        tx_locs=[repr(tx._location) for tx in tg.gene.transcripts],
                        tx_chrom_locs=[repr(tx.chromosome_location) for tx in tg.gene.transcripts],
                        cds=[repr(tx.cds) for tx in tg.gene.transcripts],
                        input_unchanged=repr(before) == repr(gene.to_dict()),
                        rnd=random.random(),
                    )

                res.append(attempt(run))

        # every non-coding feature class directly (TblGene never builds a MiscRNATblFeature)
        for cls in (
            tbl_writer.NcRNATblFeature,
            tbl_writer.MiscRNATblFeature,
            tbl_writer.TRNATblFeature,
            tbl_writer.RRNATblFeature,
        ):
            for j in range(len(gene.transcripts)):

                def run_nc():
                    gene_feat = tbl_writer.GeneTblFeature(gene, f"NC_{i}")
                    feat = cls(gene.transcripts[j], gene_feat)
                    also_kw = cls(transcript=gene.transcripts[j], gene_feature=gene_feat)
                    return [feature_obs(feat), feature_obs(also_kw), feature_obs(gene_feat), cls.__mro__[-3].__name__]

                res.append(attempt(run_nc))

        # the gene / CDS / mRNA features directly, without the block merging of TblGene
        def run_direct():
            random.seed(8)
            gene_feat = tbl_writer.GeneTblFeature(gene=gene, locus_tag=f"D_{i}")
            out = [feature_obs(gene_feat)]
            for tx in gene.transcripts:
                cds_feat = tbl_writer.CDSTblFeature(tx, gene_feat, "dlab", TranslationTable.STANDARD)
                mrna = tbl_writer.MRNATblFeature(tx, cds_feat)
                out += [feature_obs(cds_feat), feature_obs(mrna), feature_obs(gene_feat)]
            return out

        res.append(attempt(run_direct))

        # TblGene with default arguments
        def run_default():
            random.seed(4)
            return [feature_obs(f) for f in TblGene(gene, "lab2")]

        res.append(attempt(run_default))
    return res


def obs_cds(spec, chunk=None):
    res = []
    coll = build_collection(spec, chunk)
    for gene in coll.genes:
        for tx in gene.transcripts:
            o = {}
            o["tx_len"] = attempt(lambda: len(tx))
            o["tx_str"] = attempt(lambda: str(tx))
            o["tx_repr"] = attempt(lambda: repr(tx))
            for name in (
                "is_coding",
                "is_primary_tx",
                "has_in_frame_stop",
                "cds_size",
                "chunk_relative_cds_size",
                "cds_start",
                "cds_end",
                "chunk_relative_cds_start",
                "chunk_relative_cds_end",
                "cds_location",
                "cds_chunk_relative_location",
                "chromosome_intron_location",
                "chunk_relative_intron_location",
                "chunk_relative_cds_blocks",
                "id",
                "name",
            ):
                o["tx." + name] = attempt(lambda: repr(getattr(tx, name)))
            o["tx.cds_blocks"] = attempt(lambda: repr(list(tx.cds_blocks)))
            o["tx.to_dict"] = attempt(lambda: repr(tx.to_dict()))
            o["tx.to_dict_rel"] = attempt(lambda: repr(tx.to_dict(chromosome_relative_coordinates=False)))
            o["tx.cds_seq"] = attempt(lambda: str(tx.get_cds_sequence()))
            o["tx.protein"] = attempt(lambda: str(tx.get_protein_sequence()))
            o["tx.5p"] = attempt(lambda: repr(tx.get_5p_interval()))
            o["tx.3p"] = attempt(lambda: repr(tx.get_3p_interval()))
            cds = tx.cds
            if cds is not None:
                o["len"] = attempt(lambda: len(cds))
                o["str"] = attempt(lambda: str(cds))
                o["repr"] = attempt(lambda: repr(cds))
                o["frame_iter_T"] = attempt(lambda: repr(list(cds._frame_iter())))
                o["frame_iter_T2"] = attempt(lambda: repr(list(cds._frame_iter(True))))
                o["frame_iter_F"] = attempt(lambda: repr(list(cds._frame_iter(chunk_relative_frames=False))))
                o["frame_iter_1"] = attempt(lambda: repr(list(cds._frame_iter(1))))
                o["frame_iter_0"] = attempt(lambda: repr(list(cds._frame_iter(0))))
                o["exon_iter_T"] = attempt(lambda: repr(list(cds._exon_iter())))
                o["exon_iter_F"] = attempt(lambda: repr(list(cds._exon_iter(False))))
                o["chunk_relative_frames"] = attempt(lambda: repr(cds.chunk_relative_frames))
                o["canon_start"] = attempt(lambda: repr(cds.has_canonical_start_codon))
                o["start_default"] = attempt(lambda: repr(cds.has_start_codon_in_specific_translation_table()))
                for t in TranslationTable:
                    o["start_" + t.name] = attempt(
                        lambda: repr(cds.has_start_codon_in_specific_translation_table(t))
                    )
                    o["start_kw_" + t.name] = attempt(
                        lambda: repr(cds.has_start_codon_in_specific_translation_table(translation_table=t))
                    )
                    o["translate_" + t.name] = attempt(lambda: str(cds.translate(translation_table=t)))
                o["valid_stop"] = attempt(lambda: repr(cds.has_valid_stop))
                o["in_frame_stop"] = attempt(lambda: repr(cds.has_in_frame_stop))
                o["extract"] = attempt(lambda: str(cds.extract_sequence()))
                o["translate"] = attempt(lambda: str(cds.translate()))
                o["translate_trunc"] = attempt(lambda: str(cds.translate(truncate_at_in_frame_stop=True)))
                o["translate_nonstrict"] = attempt(lambda: str(cds.translate(strict=False)))
                o["codons"] = attempt(lambda: repr(list(cds.scan_codons())))
                o["codons_trunc"] = attempt(lambda: repr(list(cds.scan_codons(truncate_at_in_frame_stop=True))))
                o["num_codons"] = attempt(lambda: cds.num_codons)
                o["num_rel_codons"] = attempt(lambda: cds.num_chunk_relative_codons)
                o["opt"] = attempt(lambda: repr(cds.optimize_blocks()))
                o["opt_dict"] = attempt(lambda: repr(cds.optimize_blocks().to_dict()))
                o["optc"] = attempt(lambda: repr(cds.optimize_and_combine_blocks()))
                o["optc_dict"] = attempt(lambda: repr(cds.optimize_and_combine_blocks().to_dict()))
                o["optc_seq"] = attempt(lambda: str(cds.optimize_and_combine_blocks().extract_sequence()))
                o["to_dict"] = attempt(lambda: repr(cds.to_dict()))
                o["to_dict_rel"] = attempt(lambda: repr(cds.to_dict(chromosome_relative_coordinates=False)))
                for f in CDSFrame:
                    for locname in ("chromosome_location", "chunk_relative_location"):
                        o[f"construct_{f.name}_{locname}"] = attempt(
                            lambda: repr(CDSInterval.construct_frames_from_location(getattr(cds, locname), f))
                        )
                o["construct_default"] = attempt(
                    lambda: repr(CDSInterval.construct_frames_from_location(cds.chromosome_location))
                )
            res.append(o)
    return res


def obs_misc():
    res = {}
    random.seed(1234)
    res["rnd_default"] = random_uppercase_str()
    res["rnd_0"] = random_uppercase_str(0)
    res["rnd_12"] = random_uppercase_str(size=12)
    res["rnd_state"] = random.random()

    rng = random.Random(77)
    xs = []
    keys = ["gene_synonym", "synonym", "old_synonyms", "db_xref", "note", "product", 5]
    vals = ["a", "b", "GENE", "Zz", "x1", "c(d)"]
    for _ in range(60):
        parsed = {}
        for k in rng.sample(keys[:-1], rng.randint(0, 5)):
            parsed[k] = set(rng.sample(vals, rng.randint(0, 4)))
        tblq = {}
        if rng.random() < 0.5:
            tblq["gene_synonym"] = [rng.choice(vals)]
        if rng.random() < 0.3:
            tblq["db_xref"] = ["old"]
        sym = rng.choice([None, "GENE", "a"])
        call = rng.randrange(3)

        def run():
            if call == 0:
                r = TblFeature.extract_dbxref_synonyms(parsed, tblq, sym)
            elif call == 1:
                r = TblFeature.extract_dbxref_synonyms(parsed, tblq, gene_symbol=sym)
            else:
                r = TblFeature.extract_dbxref_synonyms(parsed_qualifiers=parsed, tbl_qualifiers=tblq)
            # db_xref comes from a set: compare order-insensitively, like pristine hash order would demand
            out = {k: (sorted(v) if k == "db_xref" else v) for k, v in tblq.items()}
            return repr((r, out, list(tblq)))

        xs.append(attempt(run))
    # non-string key: '"synonym" in key' raises TypeError
    xs.append(attempt(lambda: repr(TblFeature.extract_dbxref_synonyms({5: {"a"}}, {}))))
    res["extract_dbxref_synonyms"] = xs

    # feature rendering on hand-made features
    class Dummy(tbl_writer.TblFeature):
        FEATURE_TYPE = tbl_writer.GeneFeatures.GENE
        VALID_KEYS = {"gene", "note", "codon_start"}

    feats = []
    for loc in (
        SingleInterval(0, 10, Strand.PLUS),
        SingleInterval(3, 4, Strand.MINUS),
        SingleInterval(3, 9, Strand.UNSTRANDED),
        CompoundInterval([0, 20, 40], [10, 30, 50], Strand.PLUS),
        CompoundInterval([0, 20, 40], [10, 30, 50], Strand.MINUS),
        CompoundInterval([0, 10], [10, 30], Strand.MINUS),
    ):
        for si in (True, False):
            for ec in (True, False):
                for pseudo in (True, False):
                    quals = {
                        "gene": ["b[x]", None, "a(y);"],
                        "bad": ["zzz"],
                        "note": [],
                        "codon_start": [2, 1],
                        "locus_tag": ["nope"],
                    }
                    if pseudo:
                        quals["note"] = [None]
                    f = Dummy(loc, si, ec, pseudo, quals, children=None)
                    feats.append(attempt(lambda: feature_obs(f)))
    res["dummy"] = feats
    res["class_attrs"] = {
        c.__name__: [repr(c.FEATURE_TYPE), sorted(c.VALID_KEYS) if c.VALID_KEYS else None, repr(c.children)]
        for c in (
            tbl_writer.TblFeature,
            tbl_writer.GeneTblFeature,
            tbl_writer.MRNATblFeature,
            tbl_writer.CDSTblFeature,
            tbl_writer.NcRNATblFeature,
            tbl_writer.MiscRNATblFeature,
            tbl_writer.TRNATblFeature,
            tbl_writer.RRNATblFeature,
        )
    }
    return res


def obs_targeted():
    """Hand-made genes for the corners of the gene / CDS qualifier logic."""
    genome = ("ATGAAACCCGGGTTTTAA" * 20)[:300]
    parent = seq_to_parent(genome, "chrT")

    def tx(strand="PLUS", quals=None, coding=True, ttype=None, **kw):
        d = dict(
            exon_starts=[0, 30],
            exon_ends=[18, 48],
            strand=strand,
            cds_starts=[0, 30] if coding else None,
            cds_ends=[18, 48] if coding else None,
            cds_frames=["ZERO", "ZERO"] if coding else None,
            qualifiers=quals,
            is_primary_tx=None,
            transcript_id=None,
            transcript_symbol=None,
            transcript_type=ttype or ("protein_coding" if coding else "lncRNA"),
            sequence_name="chrT",
            sequence_guid=None,
            protein_id=None,
            product=None,
            transcript_guid=None,
            transcript_interval_guid=None,
        )
        d.update(kw)
        return d

    def gene(txs, symbol=None, gtype="protein_coding", quals=None, locus_tag=None):
        return dict(
            transcripts=txs,
            gene_id=None,
            gene_symbol=symbol,
            gene_type=gtype,
            locus_tag=locus_tag,
            qualifiers=quals,
            sequence_name="chrT",
            sequence_guid=None,
            gene_guid=None,
        )

    cases = {
        "only_synonym_is_tag": (gene([tx()], quals={"gene_synonym": ["TAG"]}), "TAG"),
        "one_synonym": (gene([tx()], quals={"gene_synonym": ["only"]}), "TAG"),
        "two_synonyms": (gene([tx()], quals={"gene_synonym": ["b", "a"], "old_synonym": ["c"]}), "TAG"),
        "empty_symbol": (gene([tx()], symbol="", quals={"gene_synonym": ["b", "a"]}), "TAG"),
        "symbol_is_tag": (gene([tx()], symbol="TAG", quals={"gene_synonym": ["TAG", "TAG_gene", "z"]}), "TAG"),
        "no_symbol_no_tag": (gene([tx()]), None),
        "symbol_no_tag": (gene([tx()], symbol="sym", locus_tag="old"), None),
        "int_tag": (gene([tx()], symbol="sym"), 7),
        "mixed_2_1": (
            gene([tx("PLUS", transcript_id="a"), tx("MINUS", transcript_id="b"), tx("MINUS", transcript_id="c")], symbol="m"),
            "TAG",
        ),
        "mixed_1_1_plus_first": (gene([tx("PLUS"), tx("MINUS")], symbol="m"), "TAG"),
        "mixed_1_1_minus_first": (gene([tx("MINUS"), tx("PLUS")], symbol="m"), "TAG"),
        "tx_synonyms": (
            gene([tx(quals={"gene_synonym": ["sym", "x"], "db_xref": ["A:1"], "product": ["good name"]})], symbol="sym"),
            "TAG",
        ),
        "tx_synonyms_hypothetical": (gene([tx(quals={"gene_synonym": ["sym", "x"]})], symbol="sym"), "TAG"),
        "product_alpha": (gene([tx(quals={"product": ["alpha"]})], symbol="sym"), "TAG"),
        "product_digits": (gene([tx(quals={"product": ["12 34"]})], symbol="sym"), "TAG"),
        "product_underscore_only": (gene([tx(quals={"product": ["_"]})], symbol="sym"), "TAG"),
        "product_int": (gene([tx(quals={"product": [5]})], symbol="sym"), "TAG"),
        "product_mixed": (gene([tx(quals={"product": [5, "five"]})], symbol="sym"), "TAG"),
        "ids": (gene([tx(protein_id="P1", transcript_id="T1")], symbol="sym"), "TAG"),
        "two_coding_tx": (
            gene([tx(quals={"gene_synonym": ["s1"]}), tx(quals={"gene_synonym": ["s2"], "product": ["p_q"]})], symbol="g"),
            "TAG",
        ),
        "rrna_product": (
            gene([tx(coding=False, ttype="rRNA", quals={"product": ["b_b", "a_a"]})], symbol="r", gtype="rRNA"),
            "TAG",
        ),
        "rrna_int_product": (
            gene([tx(coding=False, ttype="rRNA", quals={"product": [16]})], symbol="r", gtype="rRNA"),
            "TAG",
        ),
        "trna_good": (
            gene([tx(coding=False, ttype="tRNA", quals={"product": ["tRNA-Ala"]})], symbol="t", gtype="tRNA"),
            "TAG",
        ),
        "trna_bad": (
            gene([tx(coding=False, ttype="tRNA", quals={"product": ["Ala"]})], symbol="t", gtype="tRNA"),
            "TAG",
        ),
        "trna_int": (gene([tx(coding=False, ttype="tRNA", quals={"product": [3]})], symbol="t", gtype="tRNA"), "TAG"),
        "trna_none": (gene([tx(coding=False, ttype="tRNA")], symbol="t", gtype="tRNA"), "TAG"),
        "misc": (gene([tx(coding=False, ttype="misc_RNA")], symbol="t", gtype="misc_RNA"), "TAG"),
        "nc_no_gene_symbol": (gene([tx(coding=False)], gtype="lncRNA"), "TAG"),
        "nc_untyped_gene": (gene([tx(coding=False)], symbol="u", gtype=None), "TAG"),
    }
    res = {}
    for name, (spec, tag) in cases.items():

        def run():
            random.seed(21)
            g = GeneInterval.from_dict(spec, parent_or_seq_chunk_parent=parent)
            out = {"tblgene": [feature_obs(f) for f in TblGene(g, "lab", tag)]}
            gene_feat = tbl_writer.GeneTblFeature(g, tag)
            out["gene_feat"] = feature_obs(gene_feat)
            for cls in (
                tbl_writer.NcRNATblFeature,
                tbl_writer.MiscRNATblFeature,
                tbl_writer.TRNATblFeature,
                tbl_writer.RRNATblFeature,
            ):
                out[cls.__name__] = attempt(lambda: feature_obs(cls(g.transcripts[0], gene_feat)))
            return out

        res[name] = attempt(run)

        def run_file():
            g = GeneInterval.from_dict(spec, parent_or_seq_chunk_parent=parent)
            coll = AnnotationCollection(genes=[g, g], sequence_name="chrT", parent_or_seq_chunk_parent=parent)
            fh = io.StringIO()
            try:
                collection_to_tbl([coll], fh, locus_tag_prefix="TAG", locus_tag_jump_size=0, random_seed=2)
            finally:
                run_file.partial = fh.getvalue()
            return fh.getvalue()

        run_file.partial = None
        r = attempt(run_file)
        r["partial"] = run_file.partial
        res[name + "/file"] = r

    # odd jump sizes, empty inputs, generators
    def run_odd(**kw):
        g = GeneInterval.from_dict(cases["ids"][0], parent_or_seq_chunk_parent=parent)
        coll = AnnotationCollection(genes=[g, g, g], sequence_name="chrT", parent_or_seq_chunk_parent=parent)
        empty = AnnotationCollection(genes=[], sequence_name="empty", parent_or_seq_chunk_parent=parent)
        fh = io.StringIO()
        try:
            collection_to_tbl((c for c in [empty, coll, empty, coll]), fh, random_seed=0, **kw)
        finally:
            run_odd.partial = fh.getvalue()
        return fh.getvalue()

    for label, kw in {
        "jump_default": {},
        "jump_1": dict(locus_tag_jump_size=1),
        "jump_neg": dict(locus_tag_jump_size=-2),
        "jump_float": dict(locus_tag_jump_size=0.1),
        "jump_none": dict(locus_tag_jump_size=None),
        "jump_str": dict(locus_tag_jump_size="a"),
        "empty_prefix": dict(locus_tag_prefix="", submitter_lab_name=""),
        "prok": dict(genbank_flavor=GenbankFlavor.PROKARYOTIC),
        "flavor_none": dict(genbank_flavor=None),
        "table_none": dict(translation_table=None),
    }.items():
        run_odd.partial = None
        r = attempt(lambda: run_odd(**kw))
        r["partial"] = run_odd.partial
        res["odd/" + label] = r
    res["no_collections"] = attempt(lambda: collection_to_tbl([], io.StringIO()))
    return res


def collect():
    out = {"misc": obs_misc(), "targeted": obs_targeted()}
    specs = [make_collection(seed) for seed in range(1, 13)]
    specs.append(make_collection(100, with_name=False))
    specs.append(make_collection(101))
    out["inputs"] = specs
    for spec in specs:
        key = f"coll{spec['seed']}"
        out[key + "/tbl"] = obs_tbl(spec)
        out[key + "/tblgene"] = obs_tblgene(spec)
        out[key + "/cds"] = obs_cds(spec)
    # chunk parents: the chunk cuts through some genes
    for spec in specs[:4]:
        for chunk in ((0, GENOME_LEN), (150, 1350), (433, 2011)):
            key = f"coll{spec['seed']}/chunk{chunk[0]}-{chunk[1]}"
            out[key + "/tbl"] = attempt(lambda: obs_tbl(spec, chunk))
            out[key + "/tblgene"] = attempt(lambda: obs_tblgene(spec, chunk))
            out[key + "/cds"] = attempt(lambda: obs_cds(spec, chunk))
    return json.loads(json.dumps(out, default=repr))


def diff(a, b, path=""):
    if type(a) is not type(b):
        yield f"{path}: type {type(a).__name__} != {type(b).__name__}"
    elif isinstance(a, dict):
        for k in sorted(set(a) | set(b)):
            if k not in a or k not in b:
                yield f"{path}/{k}: missing on one side"
            else:
                yield from diff(a[k], b[k], f"{path}/{k}")
    elif isinstance(a, list):
        if len(a) != len(b):
            yield f"{path}: length {len(a)} != {len(b)}"
        for i, (x, y) in enumerate(zip(a, b)):
            yield from diff(x, y, f"{path}[{i}]")
    elif a != b:
        yield f"{path}: {a!r} != {b!r}"


def count_leaves(x):
    if isinstance(x, dict):
        return sum(count_leaves(v) for v in x.values())
    if isinstance(x, list):
        return sum(count_leaves(v) for v in x)
    return 1


def main():
    mode, path = sys.argv[1], sys.argv[2]
    data = collect()
    if mode == "record":
        with open(path, "w") as fh:
            json.dump(data, fh, sort_keys=True)
        print(f"recorded {count_leaves(data)} observations to {path}")
        return 0
    with open(path) as fh:
        ref = json.load(fh)
    problems = list(diff(ref, data))
    for p in problems[:40]:
        print("DIFF", p[:600])
    print(f"compared {count_leaves(data)} observations: {len(problems)} differences")
    return 1 if problems else 0


if __name__ == "__main__":
    sys.exit(main())
