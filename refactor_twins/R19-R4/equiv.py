"""Equivalence script for R4 (constructors of GeneInterval, FeatureIntervalCollection, VariantInterval,
VariantIntervalCollection, AnnotationCollection).

Usage (from the worktree root):
    /venv/bin/python _refactor/R4/equiv.py save /tmp/r4_pristine.json     # on pristine code
    /venv/bin/python _refactor/R4/equiv.py check /tmp/r4_pristine.json    # with patch applied
"""
import itertools
import json
import os
import sys
from uuid import UUID

if os.environ.get("PYTHONHASHSEED") != "0":
    os.environ["PYTHONHASHSEED"] = "0"
    os.execv(sys.executable, [sys.executable] + sys.argv)
sys.path.insert(0, os.getcwd())  # run from the worktree root

import inscripta.biocantor.location  # noqa: F401,E402  (must come first; circular import otherwise)
from inscripta.biocantor.location import SingleInterval, Strand  # noqa: E402
from inscripta.biocantor.parent import Parent  # noqa: E402
from inscripta.biocantor.sequence import Sequence, Alphabet  # noqa: E402
from inscripta.biocantor.sequence.sequence import SequenceType  # noqa: E402
from inscripta.biocantor.gene import (  # noqa: E402
    TranscriptInterval,
    FeatureInterval,
    FeatureIntervalCollection,
    GeneInterval,
    AnnotationCollection,
    VariantInterval,
    VariantIntervalCollection,
    CDSFrame,
    Biotype,
)

GENOME = "AAGTATTCTTGGACCTAATTATGAAACTGCGCCTAGTAGGTACCCTGATAGAAGTCTTCAGTGGATTGAC"  # 70 nt
GUID_A = UUID("11111111-2222-3333-4444-555555555555")
GUID_B = UUID("aaaaaaaa-bbbb-cccc-dddd-eeeeeeeeeeee")


def seq_to_parent(seq: str, seq_id="chr1"):
    # copy of the few lines of inscripta.biocantor.io.parser.seq_to_parent
    return Parent(
        id=seq_id, sequence=Sequence(seq, Alphabet.NT_EXTENDED_GAPPED, id=seq_id, type=SequenceType.CHROMOSOME)
    )


def seq_chunk_to_parent(seq: str, name: str, start: int, end: int):
    # copy of the few lines of inscripta.biocantor.io.parser.seq_chunk_to_parent
    chunk_id = f"{name}:{start}-{end}"
    return Parent(
        id=chunk_id,
        sequence=Sequence(
            seq,
            Alphabet.NT_EXTENDED_GAPPED,
            id=chunk_id,
            type=SequenceType.SEQUENCE_CHUNK,
            parent=Parent(
                location=SingleInterval(
                    start, end, Strand.PLUS, parent=Parent(id=name, sequence_type=SequenceType.CHROMOSOME)
                )
            ),
        ),
    )


def safe(fn):
    try:
        return repr(fn())
    except BaseException as e:  # noqa
        return "EXC:" + type(e).__name__ + ":" + str(e)


def describe(obj):
    d = [
        type(obj).__name__,
        str(obj),
        repr(obj),
        str(obj.guid),
        safe(lambda: obj.start),
        safe(lambda: obj.end),
        safe(lambda: obj.genomic_start),
        safe(lambda: obj.genomic_end),
        safe(lambda: obj.bin),
        safe(lambda: obj.chunk_relative_location),
        safe(lambda: obj.chromosome_location),
        safe(lambda: obj.to_dict()),
        safe(lambda: obj.to_dict(chromosome_relative_coordinates=False)),
        safe(lambda: sorted((str(k), str(v)) for k, v in obj.guid_map.items())),
        safe(lambda: [str(k) for k in obj.guid_map]),
        safe(lambda: sorted(str(g) for g in obj.children_guids)),
        safe(lambda: obj.is_coding),
        safe(lambda: str(obj.primary_transcript)),
        safe(lambda: str(obj.primary_feature)),
        safe(lambda: sorted(obj.feature_types)),
        safe(lambda: sorted(obj.variant_types)),
        safe(lambda: [str(v) for v in obj.variant_intervals]),
        safe(lambda: str(obj.sequence)),
        safe(lambda: obj.is_empty),
        safe(lambda: obj.completely_within),
        safe(lambda: obj.alternative_haplotype_mapping and sorted(map(str, obj.alternative_haplotype_mapping))),
        safe(lambda: str(obj.get_reference_sequence())),
        sorted(k for k in vars(obj) if not k.startswith("__")),
    ]
    return d


def outcome(fn, *args, **kwargs):
    try:
        return ["OK"] + describe(fn(*args, **kwargs))
    except BaseException as e:  # noqa
        return ["EXC", type(e).__module__ + "." + type(e).__name__, str(e)]


def main():
    results = {}
    parents = {
        "none": None,
        "chrom": seq_to_parent(GENOME),
        "noseq": Parent(id="chr1", sequence_type=SequenceType.CHROMOSOME),
        "chunk_10_60": seq_chunk_to_parent(GENOME[10:60], "chr1", 10, 60),
        "chunk_0_30": seq_chunk_to_parent(GENOME[0:30], "chr1", 0, 30),
        "chunk_62_70": seq_chunk_to_parent(GENOME[62:70], "chr1", 62, 70),
    }

    for pk, p in parents.items():
        # ------------------------------------------------------------- children
        def tx(es, ee, strand, cs=None, ce=None, cf=None, **kw):
            return TranscriptInterval(
                es, ee, strand, cds_starts=cs, cds_ends=ce, cds_frames=cf, parent_or_seq_chunk_parent=p, **kw
            )

        def feat(ss, ee, strand, **kw):
            return FeatureInterval(ss, ee, strand, parent_or_seq_chunk_parent=p, **kw)

        def var(s, e, seq, vtype, **kw):
            return VariantInterval(s, e, seq, vtype, parent_or_seq_chunk_parent=p, **kw)

        F = CDSFrame
        t_plus = tx([5, 25, 42], [22, 40, 65], Strand.PLUS, [12, 28, 45], [20, 40, 58], [F.ZERO, F.TWO, F.TWO])
        t_plus_short = tx([12], [40], Strand.PLUS, [12], [21], [F.ZERO], transcript_id="short")
        t_minus = tx([5, 25, 42], [22, 40, 65], Strand.MINUS, [12, 28, 45], [20, 40, 58], [F.TWO, F.TWO, F.ZERO])
        t_nc = tx([2, 30], [10, 68], Strand.MINUS, transcript_id="nc", transcript_type=Biotype.lncRNA)
        t_primary = tx([12], [40], Strand.PLUS, is_primary_tx=True, transcript_id="prim")
        t_primary2 = tx([14], [44], Strand.MINUS, is_primary_tx=True, transcript_id="prim2")
        t_plus_copy = tx([5, 25, 42], [22, 40, 65], Strand.PLUS, [12, 28, 45], [20, 40, 58], [F.ZERO, F.TWO, F.TWO])
        t_guid_a = tx([12], [40], Strand.PLUS, guid=GUID_A)
        t_guid_a2 = tx([13], [41], Strand.MINUS, guid=GUID_A)

        tx_lists = {
            "empty": [],
            "none": None,
            "one_plus": [t_plus],
            "one_minus": [t_minus],
            "one_nc": [t_nc],
            "plus_and_short": [t_plus, t_plus_short],
            "short_and_plus": [t_plus_short, t_plus],
            "mixed_strands": [t_plus, t_minus, t_nc],
            "with_primary": [t_plus, t_primary, t_nc],
            "two_primaries": [t_primary, t_plus, t_primary2],
            "same_object_twice": [t_plus, t_plus],
            "equal_objects": [t_plus, t_nc, t_plus_copy],
            "same_explicit_guid": [t_guid_a, t_plus, t_guid_a2],
            "tuple": (t_plus, t_minus),
        }
        for lk, txs in tx_lists.items():
            for guid in (None, GUID_B):
                results[f"gene:{pk}:{lk}:{guid}"] = outcome(
                    GeneInterval, txs, guid=guid, parent_or_seq_chunk_parent=p
                )
        results[f"gene_meta:{pk}"] = outcome(
            GeneInterval,
            [t_plus, t_nc],
            GUID_A,
            "gene1",
            "sym1",
            Biotype.protein_coding,
            "locus1",
            {"a": ["b"], "c": [1, 2]},
            "chr1",
            GUID_B,
            p,
        )
        results[f"gene_meta_noguid:{pk}"] = outcome(
            GeneInterval,
            [t_minus, t_plus_short],
            gene_id="gene1",
            gene_symbol="sym1",
            gene_type=Biotype.protein_coding,
            locus_tag="locus1",
            qualifiers={"a": ["b"], "c": [1, 2]},
            sequence_name="chr1",
            parent_or_seq_chunk_parent=p,
        )

        f_plus = feat([5, 25], [22, 40], Strand.PLUS, feature_types=["promoter", "tfbs"], feature_name="f1")
        f_minus = feat([12], [33], Strand.MINUS, feature_types=["tfbs"], feature_id="f2")
        f_unstranded = feat([2, 50], [8, 68], Strand.UNSTRANDED)
        f_primary = feat([14], [20], Strand.PLUS, is_primary_feature=True, feature_types=["x"])
        f_primary2 = feat([15], [21], Strand.PLUS, is_primary_feature=True)
        f_plus_copy = feat([5, 25], [22, 40], Strand.PLUS, feature_types=["promoter", "tfbs"], feature_name="f1")
        f_guid_a = feat([12], [40], Strand.PLUS, guid=GUID_A)
        f_guid_a2 = feat([13], [41], Strand.MINUS, guid=GUID_A)
        feat_lists = {
            "empty": [],
            "none": None,
            "one_plus": [f_plus],
            "one_minus": [f_minus],
            "notypes": [f_unstranded],
            "three": [f_plus, f_minus, f_unstranded],
            "three_reordered": [f_unstranded, f_minus, f_plus],
            "with_primary": [f_minus, f_primary],
            "two_primaries": [f_primary, f_primary2],
            "same_object_twice": [f_minus, f_minus],
            "equal_objects": [f_plus, f_minus, f_plus_copy],
            "same_explicit_guid": [f_guid_a, f_guid_a2],
            "tuple": (f_plus, f_minus),
        }
        for lk, feats in feat_lists.items():
            for guid in (None, GUID_B):
                results[f"fc:{pk}:{lk}:{guid}"] = outcome(
                    FeatureIntervalCollection, feats, guid=guid, parent_or_seq_chunk_parent=p
                )
        results[f"fc_meta:{pk}"] = outcome(
            FeatureIntervalCollection,
            [f_plus, f_unstranded],
            "fcname",
            "fcid",
            "fctype",
            "locus2",
            "chr1",
            GUID_A,
            None,
            {"q": ["1"]},
            p,
        )

        # ------------------------------------------------------------- variants
        var_args = {
            "snv": (15, 16, "G", "SNV"),
            "insertion": (25, 26, "GGC", "insertion"),
            "deletion": (30, 34, "C", "deletion"),
            "zero_length": (15, 15, "G", "SNV"),
            "backwards": (16, 15, "G", "SNV"),
            "negative": (-2, 3, "G", "SNV"),
            "bad_alphabet": (15, 16, "Z!", "SNV"),
            "beyond_sequence": (68, 73, "A", "deletion"),
            "in_chunk_62_70": (64, 65, "T", "SNV"),
        }
        for vk, (s, e, sq, vt) in var_args.items():
            for guid in (None, GUID_B):
                results[f"var:{pk}:{vk}:{guid}"] = outcome(
                    VariantInterval, s, e, sq, vt, guid=guid, parent_or_seq_chunk_parent=p
                )
        results[f"var_meta:{pk}"] = outcome(
            VariantInterval, 15, 16, "G", "SNV", 1, None, GUID_A, "vname", "vid", {"k": ["v"]}, p
        )

        def try_var(*a, **kw):
            try:
                return var(*a, **kw)
            except BaseException:  # noqa
                return None

        v_snv = try_var(15, 16, "G", "SNV")
        v_ins = try_var(25, 26, "GGC", "insertion")
        v_del = try_var(30, 34, "C", "deletion")
        v_del_overlap = try_var(33, 36, "C", "deletion")
        v_snv_same_pos = try_var(15, 16, "T", "SNV")
        v_adjacent = try_var(16, 17, "T", "SNV")
        v_snv_copy = try_var(15, 16, "G", "SNV")
        v_guid_a = try_var(40, 41, "A", "SNV", guid=GUID_A)
        v_guid_a2 = try_var(44, 45, "A", "SNV", guid=GUID_A)
        v_big = try_var(12, 38, "A", "deletion")
        var_lists = {
            "empty": [],
            "none": None,
            "one": [v_snv],
            "three_sorted": [v_snv, v_ins, v_del],
            "three_unsorted": [v_del, v_snv, v_ins],
            "overlap_adjacent_in_order": [v_snv, v_del, v_del_overlap],
            "overlap_unsorted": [v_del_overlap, v_snv, v_del],
            "same_position": [v_snv, v_snv_same_pos],
            "adjacent_no_overlap": [v_adjacent, v_snv],
            "same_object_twice": [v_snv, v_snv],
            "equal_objects": [v_snv, v_ins, v_snv_copy],
            "same_explicit_guid": [v_guid_a, v_ins, v_guid_a2],
            "containing": [v_big, v_snv, v_ins],
            "end_not_in_last": [v_big, v_ins, v_del][::-1],
            "tuple": (v_ins, v_snv),
        }
        vcs = {}
        for lk, vs in var_lists.items():
            if vs and any(v is None for v in vs):
                continue
            for guid in (None, GUID_B):
                results[f"vc:{pk}:{lk}:{guid}"] = outcome(
                    VariantIntervalCollection, vs, guid=guid, parent_or_seq_chunk_parent=p
                )
            try:
                vcs[lk] = VariantIntervalCollection(vs, parent_or_seq_chunk_parent=p)
            except BaseException:  # noqa
                pass
        if v_snv is not None:
            results[f"vc_meta:{pk}"] = outcome(
                VariantIntervalCollection, [v_ins, v_snv], "vcname", "vcid", "chr1", GUID_A, None, {"z": ["y"]}, p
            )

        # ------------------------------------------------------------- AnnotationCollection
        def try_build(cls, *a, **kw):
            try:
                return cls(*a, parent_or_seq_chunk_parent=p, **kw)
            except BaseException:  # noqa
                return None

        g1 = try_build(GeneInterval, [t_plus, t_nc], gene_id="g1")
        g2 = try_build(GeneInterval, [t_minus], gene_id="g2")
        g3 = try_build(GeneInterval, [t_plus_short], gene_id="g3")
        fc1 = try_build(FeatureIntervalCollection, [f_plus, f_minus], feature_collection_id="fc1")
        fc2 = try_build(FeatureIntervalCollection, [f_unstranded], feature_collection_id="fc2")
        child_sets = {
            "nothing": dict(),
            "empty_lists": dict(feature_collections=[], genes=[], variant_collections=[]),
            "genes": dict(genes=[g1, g2]),
            "one_gene": dict(genes=[g3]),
            "features": dict(feature_collections=[fc1, fc2]),
            "both": dict(genes=[g3, g1], feature_collections=[fc1]),
            "duplicate_gene": dict(genes=[g1, g1]),
        }
        if "three_sorted" in vcs:
            child_sets["variants_only"] = dict(variant_collections=[vcs["three_sorted"]])
            child_sets["all_three"] = dict(
                genes=[g1, g2], feature_collections=[fc1], variant_collections=[vcs["three_sorted"]]
            )
            child_sets["all_three_one_var"] = dict(
                genes=[g3], feature_collections=[fc2], variant_collections=[vcs["one"]]
            )
        bounds = [
            (None, None),
            (0, None),
            (None, 70),
            (0, 70),
            (10, 60),
            (20, 30),
            (0, 0),
            (30, 20),
            (-5, 10),
            (0, 100),
            (None, 0),
            (0, None),
        ]
        for (ck, children), (s, e), cw in itertools.product(child_sets.items(), bounds, (None, True)):
            if any(c is None for v in children.values() for c in v):
                continue
            results[f"ac:{pk}:{ck}:{s}:{e}:{cw}"] = outcome(
                AnnotationCollection,
                **children,
                start=s,
                end=e,
                completely_within=cw,
                name="ac",
                sequence_name="chr1",
                qualifiers={"q": ["v"]},
                parent_or_seq_chunk_parent=p,
            )

    # parents for which the chromosome ancestor has / has not a location, and odd parents
    odd_parents = {
        "chrom_with_location": Parent(
            id="chr1", sequence_type=SequenceType.CHROMOSOME, location=SingleInterval(3, 50, Strand.PLUS)
        ),
        "chrom_with_empty_location": Parent(
            id="chr1", sequence_type=SequenceType.CHROMOSOME, location=SingleInterval(4, 4, Strand.PLUS)
        ),
        "not_a_chromosome": Parent(id="x", sequence_type="other"),
        "empty_sequence": Parent(
            id="chr1", sequence=Sequence("", Alphabet.NT_EXTENDED_GAPPED, id="chr1", type=SequenceType.CHROMOSOME)
        ),
    }
    plain_gene = GeneInterval([TranscriptInterval([5, 25], [22, 40], Strand.PLUS)])
    for (pk, p), genes, (s, e) in itertools.product(
        odd_parents.items(), (None, [plain_gene]), [(None, None), (1, 45), (None, 5), (5, None)]
    ):
        results[f"ac_odd:{pk}:{bool(genes)}:{s}:{e}"] = outcome(
            AnnotationCollection, genes=genes, start=s, end=e, parent_or_seq_chunk_parent=p
        )

    mode, path = sys.argv[1], sys.argv[2]
    if mode == "save":
        with open(path, "w") as fh:
            json.dump(results, fh, indent=1, sort_keys=True)
        print(f"saved {len(results)} results")
    else:
        with open(path) as fh:
            expected = json.load(fh)
        got = json.loads(json.dumps(results))
        bad = [k for k in sorted(set(expected) | set(got)) if expected.get(k) != got.get(k)]
        for k in bad[:20]:
            print("DIFF", k, "\n   expected:", expected.get(k), "\n   got:     ", got.get(k))
        n_exc = sum(1 for v in got.values() if v[0] == "EXC")
        print(f"compared {len(got)} results ({n_exc} raising): {len(bad)} differences")
        sys.exit(1 if bad else 0)


if __name__ == "__main__":
    main()
