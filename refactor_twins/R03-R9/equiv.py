"""Equivalence harness for the C03 refactorings (sequence extraction / coordinate map bookkeeping).

Usage (from the worktree root):
    /venv/bin/python _refactor/R2/equiv.py save /tmp/c03_pristine.json      # on the pristine tree
    git apply _refactor/R2/patch.diff
    /venv/bin/python _refactor/R2/equiv.py compare /tmp/c03_pristine.json   # on the refactored tree

Every observation is a string (str / repr of the result, or "EXC:<type>:<message>"); the two runs must
produce identical dictionaries.
"""
import itertools
import json
import os
import random
import sys

sys.path.insert(0, os.getcwd())  # run from the worktree root
if os.environ.get("PYTHONHASHSEED") != "0":  # some error messages print sets: pin their iteration order
    os.environ["PYTHONHASHSEED"] = "0"
    os.execv(sys.executable, [sys.executable] + sys.argv)

import inscripta.biocantor.location  # noqa: F401  (must be first: circular import otherwise)
from inscripta.biocantor.location.location_impl import SingleInterval, CompoundInterval, EmptyLocation
from inscripta.biocantor.location.strand import Strand
from inscripta.biocantor.parent import Parent, SequenceType
from inscripta.biocantor.sequence import Sequence
from inscripta.biocantor.sequence.alphabet import Alphabet, ALPHABET_TO_NUCLEOTIDE_COMPLEMENT

RESULTS = {}
STRANDS = [Strand.PLUS, Strand.MINUS, Strand.UNSTRANDED]


def obs(key, fn):
    assert key not in RESULTS, key
    try:
        val = fn()
    except Exception as e:  # noqa
        RESULTS[key] = "EXC:{}:{}".format(type(e).__name__, e)
    else:
        RESULTS[key] = val if isinstance(val, str) else repr(val)


def seq_desc(s):
    """Everything observable about a Sequence"""
    return "|".join(
        [
            str(s),
            repr(s),
            repr(s.parent),
            repr(s.location_on_parent),
            repr(s.parent_strand),
            repr(s.parent_id),
            repr(s.parent_type),
            repr(s.id),
            repr(s.sequence_type),
            repr(s.alphabet),
            repr(len(s)),
            repr(s.is_empty),
        ]
    )


def loc_desc(loc):
    if loc is EmptyLocation():
        return "EmptyLocation"
    return "|".join(
        [
            type(loc).__name__,
            str(loc),
            repr(loc),
            repr(loc.parent),
            repr(loc.start),
            repr(loc.end),
            repr(loc.strand),
            repr(len(loc)),
            repr(loc.num_blocks),
            repr([str(b) for b in loc.blocks]),
        ]
    )


# --------------------------------------------------------------------------------------------------
# parents
# --------------------------------------------------------------------------------------------------
def seq_to_parent(seq, alphabet=Alphabet.NT_EXTENDED_GAPPED, seq_id=None, seq_type=SequenceType.CHROMOSOME):
    return Parent(
        sequence=Sequence(seq, alphabet, type=seq_type, id=seq_id), location=SingleInterval(0, len(seq), Strand.PLUS)
    )


def seq_chunk_to_parent(seq, sequence_name, start, end, strand=Strand.PLUS, alphabet=Alphabet.NT_EXTENDED_GAPPED):
    chunk_id = f"{sequence_name}:{start}-{end}"
    return Parent(
        id=chunk_id,
        sequence=Sequence(
            seq,
            alphabet,
            id=chunk_id,
            type=SequenceType.SEQUENCE_CHUNK,
            parent=Parent(
                location=SingleInterval(
                    start,
                    end,
                    strand,
                    parent=Parent(id=sequence_name, sequence_type=SequenceType.CHROMOSOME),
                )
            ),
        ),
    )


def rand_seq(rng, alphabet, n, lower=True):
    letters = alphabet.value
    if lower:
        letters = letters + letters.lower()
    return "".join(rng.choice(letters) for _ in range(n))


NT_ALPHABETS = [
    Alphabet.NT_STRICT,
    Alphabet.NT_EXTENDED,
    Alphabet.NT_STRICT_GAPPED,
    Alphabet.NT_EXTENDED_GAPPED,
    Alphabet.NT_STRICT_UNKNOWN,
]


# --------------------------------------------------------------------------------------------------
# 1. alphabet tables
# --------------------------------------------------------------------------------------------------
def check_alphabet():
    for name, member in Alphabet.__members__.items():
        obs(f"alpha/is_nt/{name}", member.is_nucleotide_alphabet)
        obs(f"alpha/value/{name}", lambda: member.value)
    obs("alpha/keys", lambda: [a.name for a in ALPHABET_TO_NUCLEOTIDE_COMPLEMENT])
    obs("alpha/type", lambda: type(ALPHABET_TO_NUCLEOTIDE_COMPLEMENT).__name__)
    for a, table in ALPHABET_TO_NUCLEOTIDE_COMPLEMENT.items():
        obs(f"alpha/table/{a.name}", lambda: list(table.items()))
        obs(f"alpha/tabletype/{a.name}", lambda: type(table).__name__)
    for a in Alphabet:
        obs(f"alpha/has/{a.name}", lambda: a in ALPHABET_TO_NUCLEOTIDE_COMPLEMENT)


# --------------------------------------------------------------------------------------------------
# 2. Sequence: reverse_complement, __getitem__, append, eq/hash, summary, fasta
# --------------------------------------------------------------------------------------------------
def parent_variants(n):
    """Parents (or parent inputs) for a sequence of length n"""
    chrom = Sequence("ACGT" * 30, Alphabet.NT_STRICT, id="chr", type="chromosome")
    out = {
        "none": None,
        "id_only": Parent(id="p"),
        "str": "pstr",
        "strand_plus": Parent(id="p", strand=Strand.PLUS),
        "strand_minus": Parent(id="p", strand=Strand.MINUS),
        "strand_uns": Parent(id="p", strand=Strand.UNSTRANDED),
        "single_plus": Parent(id="p", location=SingleInterval(7, 7 + n, Strand.PLUS)),
        "single_minus": Parent(id="p", location=SingleInterval(7, 7 + n, Strand.MINUS)),
        "single_uns": Parent(id="p", location=SingleInterval(7, 7 + n, Strand.UNSTRANDED)),
        "single_plus_seq": Parent(sequence=chrom, location=SingleInterval(3, 3 + n, Strand.PLUS)),
        "single_minus_seq": Parent(sequence=chrom, location=SingleInterval(3, 3 + n, Strand.MINUS)),
        "typed": Parent(id="p", sequence_type="chromosome", location=SingleInterval(0, n, Strand.PLUS)),
    }
    if n >= 3:
        a, b = n // 3, n - n // 3 - (n - 2 * (n // 3))
        c = n - a - b
        starts = (2, 2 + a + 4, 2 + a + 4 + b + 5)
        ends = (2 + a, 2 + a + 4 + b, 2 + a + 4 + b + 5 + c)
        for s in STRANDS:
            out[f"compound_{s.name}"] = Parent(id="p", location=CompoundInterval(starts, ends, s))
            out[f"compound_seq_{s.name}"] = Parent(sequence=chrom, location=CompoundInterval(starts, ends, s))
        # adjacent blocks and an overlapping pair
        out["compound_adjacent"] = Parent(
            id="p", location=CompoundInterval((5, 5 + a), (5 + a, 5 + n), Strand.MINUS)
        )
        out["compound_overlap"] = Parent(
            id="p", location=CompoundInterval((5, 5 + a - 1), (5 + a, 5 + n - 1), Strand.PLUS)
        )
        out["grandparent"] = Parent(
            id="p",
            location=SingleInterval(1, 1 + n, Strand.MINUS),
            parent=Parent(id="gp", location=SingleInterval(10, 100, Strand.MINUS)),
        )
    return out


def check_sequence(rng):
    # reverse complement over all alphabets, full letter coverage
    for a in Alphabet:
        full = a.value + a.value.lower()
        obs(f"seq/rc/full/{a.name}", lambda: seq_desc(Sequence(full, a).reverse_complement()))
        obs(
            f"seq/rc/full_ids/{a.name}",
            lambda: seq_desc(Sequence(full, a, id="x", type="t").reverse_complement(new_id="n", new_type="nt")),
        )
        obs(f"seq/rc/empty/{a.name}", lambda: seq_desc(Sequence("", a).reverse_complement()))
    for a in NT_ALPHABETS:
        for i in range(6):
            s = rand_seq(rng, a, rng.randint(1, 40))
            obs(f"seq/rc/rand/{a.name}/{i}", lambda: s + ">" + str(Sequence(s, a).reverse_complement()))
            obs(
                f"seq/rc/rand2/{a.name}/{i}",
                lambda: seq_desc(Sequence(s, a).reverse_complement().reverse_complement()),
            )
    # characters outside the complement table
    for bad in ["ACGTX", "XACGT", "ACXGTZ", "AC'GT", 'AC"GT', "AC GT", "ACGU", "acgn", "AC-GT", "é", "AC\\GT"]:
        for a in NT_ALPHABETS:
            obs(
                f"seq/rc/bad/{a.name}/{bad!r}",
                lambda: seq_desc(Sequence(bad, a, validate_alphabet=False).reverse_complement()),
            )
    # reverse complement with parents
    for n in (1, 6, 9):
        data = rand_seq(rng, Alphabet.NT_EXTENDED_GAPPED, n)
        for pname, parent in parent_variants(n).items():
            obs(
                f"seq/rc/parent/{n}/{pname}",
                lambda: seq_desc(Sequence(data, Alphabet.NT_EXTENDED_GAPPED, id="s", type="st", parent=parent)
                                 .reverse_complement()),
            )
            obs(
                f"seq/rc/parent_id/{n}/{pname}",
                lambda: seq_desc(Sequence(data, Alphabet.NT_EXTENDED_GAPPED, parent=parent)
                                 .reverse_complement(new_id="nid", new_type="ntype")),
            )

    # __getitem__
    keys = []
    for n in (0, 1, 6, 9):
        bounds = [None] + list(range(-n - 2, n + 3))
        keys_n = [slice(a, b, st) for a in bounds for b in bounds for st in (None, 1)]
        keys_n += [slice(a, b, st) for a in (None, 0, 2, -1, -3, n) for b in (None, 0, 3, -1, n + 1) for st in (2, -1, -2, 3)]
        keys_n += list(range(-n - 2, n + 3))
        keys_n += [True, False, "a", 1.0, None, slice(None, None, 0), (1, 2)]
        keys_n = list({repr(k) + type(k).__name__: k for k in keys_n}.values())
        data = rand_seq(rng, Alphabet.NT_EXTENDED_GAPPED, n)
        pv = parent_variants(n) if n else {"none": None, "id_only": Parent(id="p"),
                                           "single_plus": Parent(id="p", location=SingleInterval(7, 7, Strand.PLUS))}
        for pname, parent in pv.items():
            try:
                s = Sequence(data, Alphabet.NT_EXTENDED_GAPPED, id="s", type="st", parent=parent)
            except Exception as e:  # noqa
                obs(f"seq/getitem/ctor/{n}/{pname}", lambda: "EXC:" + type(e).__name__ + str(e))
                continue
            for k in keys_n:
                obs(f"seq/getitem/{n}/{pname}/{type(k).__name__}{k!r}", lambda: seq_desc(s[k]))
        keys.append(len(keys_n))
    # numpy integer key if numpy is around
    try:
        import numpy as np

        s = Sequence("ACGTACGT", Alphabet.NT_STRICT, parent=Parent(id="p", location=SingleInterval(2, 10, Strand.MINUS)))
        for k in (np.int64(3), np.int64(-2), np.int32(0)):
            obs(f"seq/getitem/np/{k!r}", lambda: seq_desc(s[k]))
    except ImportError:
        pass
    # slices of slices, slices of reverse complements
    s = Sequence(
        "AACCGGTTAC",
        Alphabet.NT_STRICT,
        parent=Parent(id="p", location=CompoundInterval((0, 10, 20), (3, 14, 23), Strand.MINUS)),
    )
    for a, b in itertools.combinations(range(0, 11), 2):
        obs(f"seq/getitem/chain/{a}/{b}", lambda: seq_desc(s[a:b][1:]) + "##" + seq_desc(s[a:b].reverse_complement()[:-1]))

    # append
    def mk(data, alphabet=Alphabet.NT_STRICT, type=None, parent=None, id=None):
        return Sequence(data, alphabet, id=id, type=type, parent=parent)

    chrom = Sequence("ACGT" * 10, Alphabet.NT_STRICT, id="chr")
    pool = {
        "plain": mk("AAC"),
        "plain2": mk("GT", id="x"),
        "ext": mk("GT", Alphabet.NT_EXTENDED),
        "typed": mk("GT", type="t"),
        "typed2": mk("CC", type="t2"),
        "p_id": mk("GT", parent="p"),
        "p_id2": mk("GT", parent="q"),
        "p_plus": mk("GT", parent=Parent(id="p", strand=Strand.PLUS)),
        "p_minus": mk("GT", parent=Parent(id="p", strand=Strand.MINUS)),
        "p_uns": mk("GT", parent=Parent(id="p", strand=Strand.UNSTRANDED)),
        "l_plus_0": mk("GT", parent=Parent(id="p", location=SingleInterval(0, 2, Strand.PLUS))),
        "l_plus_2": mk("AC", parent=Parent(id="p", location=SingleInterval(2, 4, Strand.PLUS))),
        "l_plus_1": mk("AC", parent=Parent(id="p", location=SingleInterval(1, 3, Strand.PLUS))),
        "l_plus_9": mk("ACG", parent=Parent(id="p", location=SingleInterval(9, 12, Strand.PLUS))),
        "l_minus_0": mk("GT", parent=Parent(id="p", location=SingleInterval(0, 2, Strand.MINUS))),
        "l_minus_2": mk("AC", parent=Parent(id="p", location=SingleInterval(2, 4, Strand.MINUS))),
        "l_minus_1": mk("AC", parent=Parent(id="p", location=SingleInterval(1, 3, Strand.MINUS))),
        "l_minus_9": mk("ACG", parent=Parent(id="p", location=SingleInterval(9, 12, Strand.MINUS))),
        "l_uns_0": mk("GT", parent=Parent(id="p", location=SingleInterval(0, 2, Strand.UNSTRANDED))),
        "l_uns_5": mk("GT", parent=Parent(id="p", location=SingleInterval(5, 7, Strand.UNSTRANDED))),
        "c_plus": mk("GTAC", parent=Parent(id="p", location=CompoundInterval((20, 30), (22, 32), Strand.PLUS))),
        "c_minus": mk("GTAC", parent=Parent(id="p", location=CompoundInterval((20, 30), (22, 32), Strand.MINUS))),
        "c_plus_mid": mk("GTAC", parent=Parent(id="p", location=CompoundInterval((24, 34), (26, 36), Strand.PLUS))),
        "ls_plus_0": mk("AC", parent=Parent(sequence=chrom, location=SingleInterval(0, 2, Strand.PLUS))),
        "ls_plus_4": mk("ACG", parent=Parent(sequence=chrom, location=SingleInterval(4, 7, Strand.PLUS))),
        "ls_minus_4": mk("CGT", parent=Parent(sequence=chrom, location=SingleInterval(4, 7, Strand.MINUS))),
        "ls_minus_0": mk("GT", parent=Parent(sequence=chrom, location=SingleInterval(0, 2, Strand.MINUS))),
        "empty": mk(""),
        "aa": mk("MKL", Alphabet.AA),
    }
    for (n1, s1), (n2, s2) in itertools.product(pool.items(), repeat=2):
        obs(f"seq/append/{n1}/{n2}", lambda: seq_desc(s1.append(s2)))
        obs(f"seq/append_id/{n1}/{n2}", lambda: seq_desc(s1.append(s2, new_id="N")))
        obs(f"seq/append_data/{n1}/{n2}", lambda: seq_desc(s1.append(s2, new_id="D", data_only=True)))
        obs(f"seq/eq/{n1}/{n2}", lambda: (s1 == s2, s1 != s2, hash(s1) == hash(s2)))
    for n1, s1 in pool.items():
        clone = Sequence(str(s1), s1.alphabet, id=s1.id, type=s1.sequence_type, parent=s1.parent)
        obs(f"seq/eqclone/{n1}", lambda: (s1 == clone, hash(s1) == hash(clone), s1 == str(s1), s1 == None))  # noqa
        obs(f"seq/summary/{n1}", s1.summary)
        obs(f"seq/repr/{n1}", lambda: repr(s1))
        for nc in (60, 1, 2, 3, 7, 0, None, -1):
            obs(f"seq/fasta/{n1}/{nc}", lambda: s1.to_fasta(nc))
        obs(f"seq/fasta/{n1}/default", s1.to_fasta)
        for t in ("t", "chromosome", None):
            for inc in (True, False):
                obs(f"seq/anc/{n1}/{t}/{inc}", lambda: repr(s1.first_ancestor_of_type(t, inc)))
                obs(f"seq/hasanc/{n1}/{t}/{inc}", lambda: s1.has_ancestor_of_type(t, inc))
    long = Sequence(rand_seq(rng, Alphabet.NT_EXTENDED, 173), Alphabet.NT_EXTENDED, id="long")
    for nc in (60, 50, 173, 172, 174, 1000, 1):
        obs(f"seq/fasta/long/{nc}", lambda: long.to_fasta(nc))
    obs("seq/fasta/long/default", long.to_fasta)
    obs("seq/summary/long", long.summary)
    obs("seq/summary/20", Sequence("A" * 20, Alphabet.NT_STRICT).summary)
    obs("seq/summary/21", Sequence("A" * 21, Alphabet.NT_STRICT).summary)
    # constructor validation
    obs("seq/ctor/badalpha", lambda: seq_desc(Sequence("ACGU", Alphabet.NT_STRICT)))
    obs("seq/ctor/lower", lambda: seq_desc(Sequence("acgt", Alphabet.NT_STRICT)))
    obs("seq/ctor/badparent", lambda: seq_desc(
        Sequence("ACGT", Alphabet.NT_STRICT, parent=Parent(location=SingleInterval(0, 3, Strand.PLUS)))))
    obs("seq/ctor/badparent_noval", lambda: seq_desc(
        Sequence("ACGT", Alphabet.NT_STRICT, parent=Parent(location=SingleInterval(0, 3, Strand.PLUS)),
                 validate_parent=False)))
    for a in Alphabet:
        obs(f"seq/validate/{a.name}", lambda: Sequence.validate_alphabet("ACGTNX-*.", a))
        obs(f"seq/validate2/{a.name}", lambda: Sequence.validate_alphabet("acgt", a))


# --------------------------------------------------------------------------------------------------
# 3. Locations
# --------------------------------------------------------------------------------------------------
def location_parents(rng, n=40):
    data = rand_seq(rng, Alphabet.NT_EXTENDED_GAPPED, n)
    strict = rand_seq(rng, Alphabet.NT_STRICT, n, lower=False)
    return {
        "none": None,
        "id": Parent(id="chrN"),
        "noseq_typed": Parent(id="chrN", sequence_type="chromosome"),
        "seq": Sequence(data, Alphabet.NT_EXTENDED_GAPPED, id="s1"),
        "seqparent": seq_to_parent(data, seq_id="chr1"),
        "strict": seq_to_parent(strict, alphabet=Alphabet.NT_STRICT, seq_id="chr2"),
        "aa": Parent(sequence=Sequence("MKLV" * 10, Alphabet.AA, id="prot")),
        "chunk_plus": seq_chunk_to_parent(data, "chrC", 100, 100 + n),
        "chunk_minus": seq_chunk_to_parent(data, "chrC", 100, 100 + n, strand=Strand.MINUS),
    }


def check_single(rng):
    parents = location_parents(rng)
    coords = [(0, 0), (0, 1), (0, 40), (3, 9), (5, 5), (39, 40), (40, 40), (12, 30), (0, 41), (3, 2), (-1, 4)]
    for pname, parent in parents.items():
        for (a, b), strand in itertools.product(coords, STRANDS):
            tag = f"single/{pname}/{a}-{b}{strand.name}"
            try:
                loc = SingleInterval(a, b, strand, parent=parent)
            except Exception as e:  # noqa
                obs(f"{tag}/ctor", lambda: "EXC:{}:{}".format(type(e).__name__, e))
                continue
            obs(f"{tag}/desc", lambda: loc_desc(loc))
            obs(f"{tag}/extract", lambda: seq_desc(loc.extract_sequence()))
            obs(f"{tag}/extract_cached", lambda: loc.extract_sequence() is loc.extract_sequence())
            obs(f"{tag}/extract_rev", lambda: seq_desc(loc.reverse_strand().extract_sequence()))
            obs(f"{tag}/p2r", lambda: [_try(loc.parent_to_relative_pos, p) for p in range(a - 2, b + 3)])
            obs(f"{tag}/r2p", lambda: [_try(loc.relative_to_parent_pos, p) for p in range(-2, b - a + 3)])
            obs(f"{tag}/scan", lambda: [str(x) for x in loc.scan_blocks()])
            if pname in ("none", "seqparent", "chunk_minus") and (b - a) <= 8:
                for rs, re_, rstrand in itertools.product(range(-1, b - a + 2), range(-1, b - a + 2), STRANDS):
                    obs(
                        f"{tag}/ri2p/{rs}/{re_}/{rstrand.name}",
                        lambda: loc_desc(loc.relative_interval_to_parent_location(rs, re_, rstrand)),
                    )
            if b - a > 2:
                obs(
                    f"{tag}/ri2p_seq",
                    lambda: seq_desc(loc.relative_interval_to_parent_location(1, b - a - 1, Strand.PLUS).extract_sequence()),
                )
                obs(
                    f"{tag}/ri2p_seq_minus",
                    lambda: seq_desc(loc.relative_interval_to_parent_location(1, b - a - 1, Strand.MINUS).extract_sequence()),
                )
                obs(f"{tag}/slice", lambda: seq_desc(loc.extract_sequence()[1:-1]))


def _try(fn, *args):
    try:
        return repr(fn(*args))
    except Exception as e:  # noqa
        return "EXC:{}:{}".format(type(e).__name__, e)


def random_blocks(rng, maxpos, nblocks, allow_overlap, allow_empty):
    starts, ends = [], []
    if allow_overlap:
        for _ in range(nblocks):
            a = rng.randint(0, maxpos - 1)
            b = rng.randint(a if allow_empty else a + 1, min(maxpos, a + 9))
            starts.append(a)
            ends.append(b)
    else:
        cuts = sorted(rng.sample(range(0, maxpos + 1), 2 * nblocks))
        for i in range(nblocks):
            a, b = cuts[2 * i], cuts[2 * i + 1]
            if allow_empty and rng.random() < 0.25:
                b = a
            starts.append(a)
            ends.append(b)
    order = list(range(nblocks))
    rng.shuffle(order)
    return tuple(starts[i] for i in order), [ends[i] for i in order]


def check_compound(rng):
    parents = location_parents(rng)
    block_sets = [
        ((0,), (5,)),
        ((3,), (3,)),
        ((0, 10), (5, 15)),
        ((0, 5), (5, 15)),  # adjacent
        ((0, 3), (5, 15)),  # overlapping
        ((2, 2, 9), (2, 7, 12)),  # empty block sharing a start
        ((2, 7, 7, 20), (7, 7, 12, 20)),  # empty blocks between adjacent blocks and at the end
        ((0, 0), (10, 4)),  # nested, same start
        ((10, 0, 30), (20, 5, 40)),  # unsorted
        ((0, 36), (3, 40)),
        ((0, 36), (3, 41)),  # exceeds parents of length 40
        ((-1, 5), (3, 8)),
        ((4, 5), (3, 8)),
        ((4, -5), (3, 8)),
        ((1, 2), (3,)),
        ((), ()),
    ]
    for nblocks in (2, 3, 4, 6):
        for overlap, empty in ((False, False), (False, True), (True, False), (True, True)):
            block_sets.append(random_blocks(rng, 40, nblocks, overlap, empty))
    for bi, (starts, ends) in enumerate(block_sets):
        for pname, parent in parents.items():
            if bi >= 16 and pname in ("id", "noseq_typed", "aa", "seq"):
                continue
            for strand in STRANDS:
                tag = f"compound/{bi}/{pname}/{strand.name}"
                try:
                    loc = CompoundInterval(starts, ends, strand, parent=parent)
                except Exception as e:  # noqa
                    obs(f"{tag}/ctor", lambda: "EXC:{}:{}".format(type(e).__name__, e))
                    continue
                obs(f"{tag}/basic", lambda: (loc.start, loc.end, len(loc), loc.num_blocks, loc._starts, loc._ends,
                                             loc.is_contiguous, loc.is_overlapping))
                obs(f"{tag}/desc", lambda: loc_desc(loc))
                obs(f"{tag}/eq", lambda: (loc == CompoundInterval(starts, ends, strand, parent=parent),
                                          hash(loc) == hash(CompoundInterval(starts, ends, strand, parent=parent)),
                                          loc.is_empty))
                obs(f"{tag}/scan", lambda: [str(x) for x in loc.scan_blocks()])
                obs(f"{tag}/extract", lambda: seq_desc(loc.extract_sequence()))
                obs(f"{tag}/extract_rev", lambda: seq_desc(loc.reverse_strand().extract_sequence()))
                obs(f"{tag}/extract_opt", lambda: seq_desc(loc.optimize_blocks().extract_sequence()))
                lo = min(starts) if starts else 0
                hi = max(ends) if ends else 0
                obs(f"{tag}/p2r", lambda: [_try(loc.parent_to_relative_pos, p) for p in range(lo - 2, hi + 3)])
                n = len(loc)
                obs(f"{tag}/r2p", lambda: [_try(loc.relative_to_parent_pos, p) for p in range(-2, n + 3)])
                obs(f"{tag}/reverse", lambda: loc_desc(loc.reverse()))
                obs(f"{tag}/optimize", lambda: loc_desc(loc.optimize_blocks()))
                obs(f"{tag}/combine", lambda: loc_desc(loc.optimize_and_combine_blocks()))
                obs(f"{tag}/gaps", lambda: [str(g) for g in loc.gap_list()])
                obs(f"{tag}/shift", lambda: loc_desc(loc.shift_position(1)))
                obs(f"{tag}/biopython", lambda: repr(loc.to_biopython()))
                if pname in ("none", "seqparent", "chunk_minus"):
                    rel = range(-1, n + 2) if n <= 14 else sorted(set(rng.sample(range(-1, n + 2), 12)) | {0, n})
                    rstrands = STRANDS if n <= 14 else [Strand.PLUS, Strand.MINUS]
                    for rs, re_, rstrand in itertools.product(rel, rel, rstrands):
                        obs(
                            f"{tag}/ri2p/{rs}/{re_}/{rstrand.name}",
                            lambda: loc_desc(loc.relative_interval_to_parent_location(rs, re_, rstrand)),
                        )
                if pname in ("seqparent", "strict", "chunk_plus") and n > 2:
                    for rs, re_ in sorted({(0, n), (1, n - 1), (0, 1), (n - 1, n), (n // 2, n // 2 + 1), (1, n // 2 + 1)}):
                        for rstrand in (Strand.PLUS, Strand.MINUS):
                            obs(
                                f"{tag}/ri2p_seq/{rs}/{re_}/{rstrand.name}",
                                lambda: seq_desc(
                                    loc.relative_interval_to_parent_location(rs, re_, rstrand).extract_sequence()
                                ),
                            )
                        obs(f"{tag}/slice/{rs}/{re_}", lambda: seq_desc(loc.extract_sequence()[rs:re_]))
                    obs(f"{tag}/slice_neg", lambda: seq_desc(loc.extract_sequence()[-3:]))
                    obs(f"{tag}/slice_rc", lambda: seq_desc(loc.extract_sequence()[1:].reverse_complement()))
                # a Sequence whose parent location is this compound interval: slicing keeps the bookkeeping
                if pname == "id" or (bi >= 16 and pname == "none"):
                    try:
                        s = Sequence("A" * n, Alphabet.NT_STRICT, parent=Parent(id="chrN", location=loc))
                    except Exception as e:  # noqa
                        obs(f"{tag}/seq_on_loc", lambda: "EXC:{}:{}".format(type(e).__name__, e))
                    else:
                        for a, b in sorted({(0, n), (1, n), (0, n - 1), (2, 5), (n // 2, n), (n, n), (0, 0), (3, 1)}):
                            obs(f"{tag}/seq_on_loc/{a}/{b}", lambda: seq_desc(s[a:b]))
                        obs(f"{tag}/seq_on_loc/int", lambda: [seq_desc(s[i]) if -n <= i < n else None for i in (0, -1, n // 2)])
                        obs(f"{tag}/seq_on_loc/rc", lambda: seq_desc(s.reverse_complement()))

    # from_single_intervals / helpers that feed the above
    blocks = [SingleInterval(0, 3, Strand.MINUS), SingleInterval(10, 12, Strand.MINUS)]
    obs("compound/from_single", lambda: loc_desc(CompoundInterval.from_single_intervals(blocks)))
    obs("compound/from_single_mixed", lambda: loc_desc(
        CompoundInterval.from_single_intervals(blocks + [SingleInterval(20, 22, Strand.PLUS)])))
    obs("compound/from_single_empty", lambda: loc_desc(CompoundInterval.from_single_intervals([])))

    # parent_to_relative_location / location_relative_to round trips
    p = seq_to_parent("ACGTTGCAAGGCTTAACCGGTTAACCGGTTAAGGCCTTAA", seq_id="chrR")
    outer = CompoundInterval((2, 12, 25), (8, 20, 33), Strand.MINUS, parent=p)
    for a, b in itertools.combinations(range(0, 40, 3), 2):
        for strand in (Strand.PLUS, Strand.MINUS):
            inner = SingleInterval(a, b, strand, parent=p)
            obs(f"rel/p2rl/{a}/{b}/{strand.name}", lambda: loc_desc(outer.parent_to_relative_location(inner)))
            obs(f"rel/lrt/{a}/{b}/{strand.name}", lambda: loc_desc(inner.location_relative_to(outer)))
            obs(f"rel/intersect/{a}/{b}/{strand.name}", lambda: _try(
                lambda: seq_desc(outer.intersection(inner, match_strand=False).extract_sequence())))


def check_ordering():
    """SingleInterval.compare / rich comparisons / sorting, and the unions that sort blocks"""
    chrom = Sequence("ACGT" * 10, Alphabet.NT_STRICT, id="chrA")
    parents = {"none": None, "a": Parent(id="a"), "b": "b", "seq": chrom, "noid": Parent(sequence_type="x")}
    locs = {}
    for pname, parent in parents.items():
        for a, b in ((0, 5), (0, 7), (2, 5), (2, 2)):
            for strand in STRANDS:
                locs[f"{pname}:{a}-{b}{strand.name}"] = SingleInterval(a, b, strand, parent=parent)
    others = dict(locs)
    others["empty"] = EmptyLocation()
    others["compound"] = CompoundInterval((0, 6), (5, 9), Strand.PLUS)
    others["compound_a"] = CompoundInterval((0, 6), (5, 9), Strand.MINUS, parent=Parent(id="a"))
    for (n1, l1), (n2, l2) in itertools.product(locs.items(), others.items()):
        obs(f"order/compare/{n1}/{n2}", lambda: l1.compare(l2))
        obs(f"order/lt/{n1}/{n2}", lambda: (l1 < l2, l1 <= l2, l1 > l2, l1 >= l2, l1 == l2))
    for pname in ("none", "a", "seq"):
        group = [loc for name, loc in locs.items() if name.startswith(pname + ":")]
        obs(f"order/sorted/{pname}", lambda: [str(x) for x in sorted(group)])
        obs(f"order/sorted_rev/{pname}", lambda: [str(x) for x in sorted(reversed(group))])
    for strand in STRANDS:
        c1 = CompoundInterval((0, 20, 8), (5, 25, 12), strand, parent=chrom)
        c2 = CompoundInterval((3, 30, 12), (9, 35, 14), strand, parent=chrom)
        obs(f"order/union/{strand.name}", lambda: loc_desc(c1.union(c2)))
        obs(f"order/union_seq/{strand.name}", lambda: seq_desc(c1.union(c2).extract_sequence()))
        obs(f"order/union_po/{strand.name}", lambda: loc_desc(c1.union_preserve_overlaps(c2)))
        obs(f"order/merge/{strand.name}", lambda: loc_desc(c1.union_preserve_overlaps(c2).merge_overlapping()))
        obs(f"order/minus/{strand.name}", lambda: loc_desc(c1.minus(c2)))
        obs(f"order/intersection/{strand.name}", lambda: loc_desc(c1.intersection(c2)))


def main():
    mode, path = sys.argv[1], sys.argv[2]
    rng = random.Random(int(os.environ.get("EQUIV_SEED", "20261003")))  # other seeds: more random inputs
    check_alphabet()
    check_sequence(rng)
    check_single(rng)
    check_compound(rng)
    check_ordering()
    n_exc = sum(1 for v in RESULTS.values() if v.startswith("EXC:"))
    print(f"{len(RESULTS)} observations ({n_exc} exceptions)")
    if mode == "save":
        with open(path, "w") as fh:
            json.dump(RESULTS, fh, indent=0, sort_keys=True)
        print("saved", path)
        return 0
    with open(path) as fh:
        expected = json.load(fh)
    bad = [k for k in sorted(set(expected) | set(RESULTS)) if expected.get(k) != RESULTS.get(k)]
    for k in bad[:25]:
        print("DIFF", k, "\n   pristine:", expected.get(k), "\n   patched: ", RESULTS.get(k))
    print("IDENTICAL" if not bad else f"{len(bad)} DIFFERENCES")
    return 1 if bad else 0


if __name__ == "__main__":
    sys.exit(main())
