"""
Equivalence harness for behaviour-preserving refactorings of the chunk-relative machinery
(gene/interval.py, gene/cds.py, gene/transcript.py, gene/feature.py).

Usage (from the worktree root):

    /venv/bin/python _refactor/RN/equiv.py dump /tmp/before.json      # on pristine code
    (apply patch)
    /venv/bin/python _refactor/RN/equiv.py dump /tmp/after.json
    /venv/bin/python _refactor/RN/equiv.py compare /tmp/before.json /tmp/after.json

Every probe records either ``repr`` of the result or the exception type + message.
"""
import hashlib
import json
import os
import sys
import warnings

sys.path.insert(0, os.getcwd())  # run from the worktree root

import inscripta.biocantor.location  # noqa: F401  (must come first; circular import otherwise)
from inscripta.biocantor.gene.cds import CDSInterval
from inscripta.biocantor.gene.cds_frame import CDSFrame
from inscripta.biocantor.gene.feature import FeatureInterval
from inscripta.biocantor.gene.interval import AbstractInterval
from inscripta.biocantor.gene.transcript import TranscriptInterval
from inscripta.biocantor.location.location_impl import SingleInterval, CompoundInterval, EmptyLocation
from inscripta.biocantor.location.strand import Strand
from inscripta.biocantor.parent import Parent, SequenceType
from inscripta.biocantor.sequence.alphabet import Alphabet
from inscripta.biocantor.sequence.sequence import Sequence

warnings.simplefilter("ignore")

FOCUS = "R2"

GENOME = (
    "ATGGCATTTAGCCGTAAGCTTGACCGATCGATTACGGCTAGCTAGGATCCATGCATGCCGTTAGACTGATCGTAGCTAGCTAACGGATTACGCTAGGTAA"
    "CCGATATGCGCGATATTAGC"
)
assert len(GENOME) == 120


def revcomp(s):
    return s[::-1].translate(str.maketrans("ACGT", "TGCA"))


# --- copied from inscripta.biocantor.io.parser (cannot be imported in this environment) -------------------
def seq_to_parent(seq, alphabet=Alphabet.NT_EXTENDED_GAPPED, seq_id=None, seq_type=SequenceType.CHROMOSOME):
    return Parent(
        sequence=Sequence(seq, alphabet, type=seq_type, id=seq_id), location=SingleInterval(0, len(seq), Strand.PLUS)
    )


def seq_chunk_to_parent(seq, sequence_name, start, end, strand=Strand.PLUS, alphabet=Alphabet.NT_EXTENDED_GAPPED):
    chunk_id = f"{sequence_name}:{start}-{end}"
    return Parent(
        id=chunk_id,
        sequence=Sequence(
            seq,
            alphabet,
            id=chunk_id,
            type=SequenceType.SEQUENCE_CHUNK,
            parent=Parent(
                location=SingleInterval(
                    start,
                    end,
                    strand,
                    parent=Parent(id=sequence_name, sequence_type=SequenceType.CHROMOSOME),
                )
            ),
        ),
    )


# -----------------------------------------------------------------------------------------------------------


def safe(fn):
    try:
        res = fn()
        if hasattr(res, "__next__"):
            res = list(res)
        return _compact(_norm(res))
    except Exception as e:  # noqa
        return f"EXC {type(e).__name__}: {e}"


def _compact(v):
    """Keep the dump small: long values are replaced by a digest (plus a readable prefix)."""
    txt = json.dumps(v, sort_keys=True)
    if len(txt) <= 300:
        return v
    return {"_digest": hashlib.sha1(txt.encode()).hexdigest(), "_len": len(txt), "_head": txt[:160]}


def _norm(x):
    if isinstance(x, dict):
        return {str(k): _norm(v) for k, v in x.items()}
    if isinstance(x, (list, tuple)):
        return [_norm(v) for v in x]
    if isinstance(x, (set, frozenset)):
        return sorted(_norm(v) for v in x)
    if isinstance(x, (int, float, bool, str)) or x is None:
        return x
    if isinstance(x, Sequence):
        return f"Seq({x})"
    return repr(x)


def parents():
    """name -> Parent factories (fresh object on each call)."""
    out = {
        "none": lambda: None,
        "chrom": lambda: seq_to_parent(GENOME, seq_id="chr1"),
        "chrom_noseq": lambda: Parent(id="chr1", sequence_type=SequenceType.CHROMOSOME),
        "bare": lambda: Parent(),
    }
    windows = [
        (0, 120),
        (0, 30),
        (3, 40),
        (4, 50),
        (5, 47),
        (10, 20),
        (13, 33),
        (14, 70),
        (22, 90),
        (25, 26),
        (31, 100),
        (36, 80),
        (44, 119),
        (58, 120),
        (75, 110),
        (100, 120),
    ]
    for s, e in windows:
        out[f"chunk+{s}-{e}"] = lambda s=s, e=e: seq_chunk_to_parent(GENOME[s:e], "chr1", s, e)
    for s, e in [(0, 120), (5, 47), (14, 70), (22, 90), (36, 80), (58, 120)]:
        out[f"chunk-{s}-{e}"] = lambda s=s, e=e: seq_chunk_to_parent(
            revcomp(GENOME[s:e]), "chr1", s, e, strand=Strand.MINUS
        )
    return out


STRUCTURES = [
    ([6], [45]),
    ([12], [27]),
    ([3, 20], [15, 41]),
    ([5, 25, 50], [18, 40, 77]),
    ([8, 16, 60], [16, 33, 95]),  # adjacent blocks
    ([2, 30, 52, 88], [11, 47, 70, 101]),
    ([40, 66], [43, 68]),  # tiny exons
]


def frame_sets(starts, ends, strand):
    loc = (
        SingleInterval(starts[0], ends[0], strand) if len(starts) == 1 else CompoundInterval(starts, ends, strand)
    )
    sets = []
    for f in (CDSFrame.ZERO, CDSFrame.ONE, CDSFrame.TWO):
        sets.append(CDSInterval.construct_frames_from_location(loc, f))
    if len(starts) > 1:
        # a programmed frameshift: all exons claim frame ZERO / all ONE
        sets.append([CDSFrame.ZERO] * len(starts))
        sets.append([CDSFrame.ONE] * len(starts))
    return sets


def probe_interval_common(obj):
    d = {}
    d["str"] = safe(lambda: str(obj))
    d["len"] = safe(lambda: len(obj))
    d["chromosome_location"] = safe(lambda: obj.chromosome_location)
    d["chunk_relative_location"] = safe(lambda: obj.chunk_relative_location)
    d["bounded"] = safe(lambda: obj._chunk_relative_bounded_chromosome_location)
    d["lifted"] = safe(lambda: obj.lift_over_to_first_ancestor_of_type(SequenceType.CHROMOSOME))
    d["blocks"] = safe(lambda: obj.blocks)
    d["chunk_relative_blocks"] = safe(lambda: obj.chunk_relative_blocks)
    d["strand"] = safe(lambda: obj.strand)
    d["chunk_relative_strand"] = safe(lambda: obj.chunk_relative_strand)
    d["is_chunk_relative"] = safe(lambda: obj.is_chunk_relative)
    d["has_sequence"] = safe(lambda: obj.has_sequence)
    d["chromosome_span"] = safe(lambda: obj.chromosome_span)
    d["chunk_relative_span"] = safe(lambda: obj.chunk_relative_span)
    d["chromosome_gaps_location"] = safe(lambda: obj.chromosome_gaps_location)
    d["chunk_relative_gaps_location"] = safe(lambda: obj.chunk_relative_gaps_location)
    d["to_dict"] = safe(lambda: obj.to_dict())
    d["to_dict_chunk"] = safe(lambda: obj.to_dict(chromosome_relative_coordinates=False))
    d["guid"] = safe(lambda: str(obj.guid))
    d["vars"] = safe(lambda: sorted(k for k in vars(obj)))
    return d


def probe_cds(cds):
    d = probe_interval_common(cds)
    d["frames"] = safe(lambda: cds.frames)
    d["chunk_relative_frames"] = safe(lambda: cds.chunk_relative_frames)
    d["frame_iter_T"] = safe(lambda: cds._frame_iter(True))
    d["frame_iter_F"] = safe(lambda: cds._frame_iter(False))
    d["num_codons"] = safe(lambda: cds.num_codons)
    d["num_chunk_relative_codons"] = safe(lambda: cds.num_chunk_relative_codons)
    d["chromosome_codon_locations"] = safe(lambda: cds.chromosome_codon_locations)
    d["chunk_relative_codon_locations"] = safe(lambda: cds.chunk_relative_codon_locations)
    d["chunk_codons_lifted"] = safe(
        lambda: [
            x.lift_over_to_first_ancestor_of_type(SequenceType.CHROMOSOME) for x in cds.chunk_relative_codon_locations
        ]
    )
    d["extract_sequence"] = safe(lambda: cds.extract_sequence())
    d["translate"] = safe(lambda: cds.translate())
    d["translate_nonstrict"] = safe(lambda: cds.translate(strict=False, truncate_at_in_frame_stop=True))
    d["scan_codons"] = safe(lambda: [str(c) for c in cds.scan_codons()])
    d["scan_codon_locations_deprecated"] = safe(lambda: cds.scan_codon_locations())
    # windows (chromosome coordinates)
    for ws, we, expand in [
        (None, None, False),
        (0, 10, False),
        (7, 31, False),
        (7, 31, True),
        (20, 60, False),
        (20, 60, True),
        (33, None, False),
        (None, 52, True),
        (46, 46, False),
        (90, 200, False),
        (26, 29, True),
    ]:
        key = f"{ws}-{we}-{int(expand)}"
        d[f"scan_chrom[{key}]"] = safe(lambda: cds.scan_chromosome_codon_locations(ws, we, expand))
        d[f"scan_chunk[{key}]"] = safe(lambda: cds.scan_chunk_relative_codon_locations(ws, we, expand))
        win = safe(lambda: cds._convert_chromosome_start_end_to_relative_window(ws, we, expand))
        d[f"window[{key}]"] = win

        def _prep(fn_name, crc):
            w = cds._convert_chromosome_start_end_to_relative_window(ws, we, expand)
            return getattr(cds, fn_name)(w, crc)

        for crc in (True, False):
            d[f"prep_single[{key},{crc}]"] = safe(
                lambda: _prep("_prepare_single_exon_window_for_scan_codon_locations", crc)
            )
            d[f"prep_multi[{key},{crc}]"] = safe(
                lambda: _prep("_prepare_multi_exon_window_for_scan_codon_locations", crc)
            )
    # direct _calculate_frame_offset probes
    chrom_loc = cds.chromosome_location
    for s, e in [(0, 200), (7, 31), (20, 60), (26, 90), (41, 44), (70, 120)]:
        def _cfo():
            sub = chrom_loc.intersection(SingleInterval(s, e, Strand.PLUS, parent=chrom_loc.parent), match_strand=False)
            return cds._calculate_frame_offset(chrom_loc, sub)

        d[f"calc_frame_offset[{s}-{e}]"] = safe(_cfo)
    # coordinate conversions
    d["cds_pos_to_chunk_relative"] = safe(lambda: [safe(lambda: cds.cds_pos_to_chunk_relative(p)) for p in range(0, 40, 3)])
    d["chunk_relative_pos_to_cds"] = safe(lambda: [safe(lambda: cds.chunk_relative_pos_to_cds(p)) for p in range(0, 40, 3)])
    d["optimize_blocks"] = safe(lambda: str(cds.optimize_blocks()))
    d["optimize_and_combine_blocks"] = safe(lambda: str(cds.optimize_and_combine_blocks()))
    d["gff"] = safe(lambda: [str(r) for r in cds.to_gff()])
    d["gff_chunk"] = safe(lambda: [str(r) for r in cds.to_gff(chromosome_relative_coordinates=False)])
    d["bed"] = safe(lambda: str(cds.to_bed12()))
    return d


def probe_tx(tx):
    d = probe_interval_common(tx)
    d["cds_is_none"] = safe(lambda: tx.cds is None)
    d["is_coding"] = safe(lambda: tx.is_coding)
    d["cds_location"] = safe(lambda: tx.cds_location)
    d["cds_chunk_relative_location"] = safe(lambda: tx.cds_chunk_relative_location)
    d["cds_str"] = safe(lambda: str(tx.cds))
    d["cds_guid"] = safe(lambda: str(tx.cds.guid))
    d["_cds_frames"] = safe(lambda: tx._cds_frames)
    d["spliced"] = safe(lambda: tx.get_spliced_sequence())
    d["genomic"] = safe(lambda: tx.get_reference_sequence())
    d["protein"] = safe(lambda: tx.get_protein_sequence())
    d["cds_seq"] = safe(lambda: tx.get_cds_sequence())
    d["codons"] = safe(lambda: tx.cds.chunk_relative_codon_locations)
    d["chrom_codons"] = safe(lambda: tx.cds.chromosome_codon_locations)
    d["cds_chunk_frames"] = safe(lambda: tx.cds.chunk_relative_frames)
    d["5utr"] = safe(lambda: tx.get_5p_interval())
    d["3utr"] = safe(lambda: tx.get_3p_interval())
    d["gff"] = safe(lambda: [str(r) for r in tx.to_gff()])
    d["gff_chunk"] = safe(lambda: [str(r) for r in tx.to_gff(chromosome_relative_coordinates=False)])
    d["bed"] = safe(lambda: str(tx.to_bed12()))
    return d


def probe_feat(feat):
    d = probe_interval_common(feat)
    d["spliced"] = safe(lambda: feat.get_spliced_sequence())
    d["genomic"] = safe(lambda: feat.get_reference_sequence())
    d["gff"] = safe(lambda: [str(r) for r in feat.to_gff()])
    d["gff_chunk"] = safe(lambda: [str(r) for r in feat.to_gff(chromosome_relative_coordinates=False)])
    d["bed"] = safe(lambda: str(feat.to_bed12()))
    return d


def relift(obj, par_factories, probe):
    """liftover_to_parent_or_seq_chunk_parent onto a handful of other parents."""
    d = {}
    for pname in ("chrom", "chrom_noseq", "bare", "chunk+13-33", "chunk+22-90", "chunk-14-70", "chunk+100-120"):
        def _go():
            new = obj.liftover_to_parent_or_seq_chunk_parent(par_factories[pname]())
            return {
                "str": str(new),
                "loc": repr(new.chunk_relative_location),
                "chrom": repr(new.chromosome_location),
                "dict": new.to_dict(),
                "guid": str(new.guid),
            }

        d[pname] = safe(_go)
    return d


def static_liftover_probes(par_factories):
    """Direct calls of the static helpers with hand-made locations and parents, including error paths."""
    d = {}
    locs = {
        "single+": lambda: SingleInterval(6, 45, Strand.PLUS),
        "single-": lambda: SingleInterval(6, 45, Strand.MINUS),
        "compound+": lambda: CompoundInterval([5, 25, 50], [18, 40, 77], Strand.PLUS),
        "compound-": lambda: CompoundInterval([5, 25, 50], [18, 40, 77], Strand.MINUS),
        "adjacent": lambda: CompoundInterval([8, 16, 60], [16, 33, 95], Strand.PLUS),
        "empty": lambda: EmptyLocation(),
        "with_chrom_parent": lambda: SingleInterval(6, 45, Strand.PLUS, parent=par_factories["chrom"]()),
        "with_other_chrom": lambda: SingleInterval(
            6, 45, Strand.PLUS, parent=Parent(id="chr2", sequence_type=SequenceType.CHROMOSOME)
        ),
        # already chunk relative
        "on_chunk+": lambda: SingleInterval(2, 20, Strand.PLUS, parent=par_factories["chunk+14-70"]()),
        "on_chunk-": lambda: SingleInterval(2, 20, Strand.MINUS, parent=par_factories["chunk-14-70"]()),
        "compound_on_chunk": lambda: CompoundInterval(
            [1, 12, 30], [8, 25, 41], Strand.PLUS, parent=par_factories["chunk+22-90"]()
        ),
        # chunk with no chromosome above it
        "orphan_chunk": lambda: SingleInterval(
            2,
            20,
            Strand.PLUS,
            parent=Parent(sequence=Sequence(GENOME[:30], Alphabet.NT_EXTENDED_GAPPED, type=SequenceType.SEQUENCE_CHUNK)),
        ),
        # chunk on a different chromosome
        "other_chunk": lambda: SingleInterval(
            2, 20, Strand.PLUS, parent=seq_chunk_to_parent(GENOME[14:70], "chr2", 14, 70)
        ),
    }
    extra_parents = dict(par_factories)
    extra_parents["orphan_chunk_parent"] = lambda: Parent(
        sequence=Sequence(GENOME[:30], Alphabet.NT_EXTENDED_GAPPED, type=SequenceType.SEQUENCE_CHUNK)
    )
    extra_parents["chunk_no_seq"] = lambda: Parent(
        id="x",
        sequence_type=SequenceType.SEQUENCE_CHUNK,
        parent=Parent(
            location=SingleInterval(
                5, 50, Strand.PLUS, parent=Parent(id="chr1", sequence_type=SequenceType.CHROMOSOME)
            )
        ),
    )
    extra_parents["nonstandard"] = lambda: Parent(sequence_type="nonstandard")
    extra_parents["chrom_seq_typed"] = lambda: Parent(
        id="chr1", sequence=Sequence(GENOME, Alphabet.NT_EXTENDED_GAPPED, type=SequenceType.CHROMOSOME)
    )
    extra_parents["chunk_with_chrom_seq"] = lambda: Parent(
        id="chr1:0-60",
        sequence=Sequence(
            GENOME[:60],
            Alphabet.NT_EXTENDED_GAPPED,
            id="chr1:0-60",
            type=SequenceType.SEQUENCE_CHUNK,
            parent=Parent(
                location=SingleInterval(
                    0,
                    60,
                    Strand.PLUS,
                    parent=Parent(
                        id="chr1",
                        sequence=Sequence(GENOME, Alphabet.NT_EXTENDED_GAPPED, type=SequenceType.CHROMOSOME, id="chr1"),
                    ),
                )
            ),
        ),
    )
    for lname, lf in locs.items():
        for pname, pf in extra_parents.items():
            def _go():
                res = AbstractInterval.liftover_location_to_seq_chunk_parent(lf(), pf())
                out = {"repr": repr(res), "parent": repr(res.parent), "type": type(res).__name__}
                if res.parent is not None and res.has_ancestor_of_type(SequenceType.CHROMOSOME):
                    out["lifted"] = repr(res.lift_over_to_first_ancestor_of_type(SequenceType.CHROMOSOME))
                try:
                    out["seq"] = str(res.extract_sequence())
                except Exception as e:  # noqa
                    out["seq"] = f"EXC {type(e).__name__}: {e}"
                return out

            d[f"liftover[{lname}|{pname}]"] = safe(_go)
    init_args = [
        ([1], [5], Strand.PLUS),
        ([1], [5], Strand.MINUS),
        ([1, 9], [5, 22], Strand.PLUS),
        ([1, 5], [5, 22], Strand.MINUS),
        ([1, 9], [5], Strand.PLUS),
        ([], [], Strand.PLUS),
        ([1], [], Strand.PLUS),
        ([10], [5], Strand.PLUS),
        ([30, 1], [40, 5], Strand.PLUS),
        ([1, 9, 50], [5, 22, 110], Strand.UNSTRANDED),
    ]
    for starts, ends, strand in init_args:
        for pname in ("none", "chrom", "bare", "chunk+3-40", "chunk-5-47", "chunk+100-120", "chunk_no_seq", "orphan_chunk_parent"):
            def _go():
                res = AbstractInterval.initialize_location(starts, ends, strand, extra_parents[pname]())
                return {"repr": repr(res), "parent": repr(res.parent), "type": type(res).__name__}

            d[f"init[{starts}|{ends}|{strand.name}|{pname}]"] = safe(_go)
            d[f"init_kw[{starts}|{ends}|{strand.name}|{pname}]"] = safe(
                lambda: repr(
                    TranscriptInterval.initialize_location(
                        starts, ends, strand, parent_or_seq_chunk_parent=extra_parents[pname]()
                    )
                )
            )
    return d


def transcript_validation_probes():
    """Constructor argument validation of TranscriptInterval (messages + order of checks)."""
    d = {}
    F = CDSFrame
    cases = {
        "starts_only": dict(cds_starts=[3]),
        "ends_only": dict(cds_ends=[9]),
        "len_mismatch": dict(cds_starts=[3, 12], cds_ends=[9], cds_frames=[F.ZERO]),
        "start_lt_exon": dict(cds_starts=[0], cds_ends=[9], cds_frames=[F.ZERO]),
        "end_gt_exon": dict(cds_starts=[3], cds_ends=[99], cds_frames=[F.ZERO]),
        "no_frames": dict(cds_starts=[3], cds_ends=[9]),
        "frames_len": dict(cds_starts=[3], cds_ends=[9], cds_frames=[F.ZERO, F.ONE]),
        "start_lt_and_no_frames": dict(cds_starts=[0], cds_ends=[9]),
        "empty_cds": dict(cds_starts=[5], cds_ends=[5], cds_frames=[F.ZERO]),
        "empty_lists": dict(cds_starts=[], cds_ends=[], cds_frames=[]),
        "ok": dict(cds_starts=[3], cds_ends=[9], cds_frames=[F.ZERO]),
        "noncoding": dict(),
        "frames_only": dict(cds_frames=[F.ZERO]),
    }
    for name, kw in cases.items():
        def _go():
            tx = TranscriptInterval([2, 20], [12, 30], Strand.PLUS, **kw)
            return {"str": str(tx), "vars": sorted(vars(tx)), "guid": str(tx.guid), "cds_frames": repr(tx._cds_frames)}

        d[name] = safe(_go)
    return d


def main_dump(path):
    pf = parents()
    results = {}
    results["static"] = static_liftover_probes(pf)
    results["tx_validation"] = transcript_validation_probes()
    n = 0
    for starts, ends in STRUCTURES:
        for strand in (Strand.PLUS, Strand.MINUS):
            fsets = frame_sets(starts, ends, strand)
            for pname, pfac in pf.items():
                for fi, frames in enumerate(fsets):
                    key = f"{starts}|{ends}|{strand.name}|{pname}|f{fi}"
                    # CDS on its own
                    try:
                        cds = CDSInterval(
                            starts, ends, strand, frames, protein_id="p", product="prod", parent_or_seq_chunk_parent=pfac()
                        )
                    except Exception as e:  # noqa
                        results[f"cds|{key}"] = f"CTOR EXC {type(e).__name__}: {e}"
                    else:
                        results[f"cds|{key}"] = probe_cds(cds)
                        if fi == 1:
                            results[f"cds_relift|{key}"] = relift(cds, pf, probe_cds)
                    n += 1
                    # transcript: exons extend the CDS by a UTR on each side (within the genome)
                    exon_starts = [max(0, starts[0] - 2)] + list(starts[1:])
                    exon_ends = list(ends[:-1]) + [min(len(GENOME), ends[-1] + 4)]
                    try:
                        tx = TranscriptInterval(
                            exon_starts,
                            exon_ends,
                            strand,
                            cds_starts=starts,
                            cds_ends=ends,
                            cds_frames=frames,
                            transcript_id="tx1",
                            sequence_name="chr1",
                            transcript_symbol="sym",
                            protein_id="p",
                            product="prod",
                            qualifiers={"note": ["a", "b"]},
                            parent_or_seq_chunk_parent=pfac(),
                        )
                    except Exception as e:  # noqa
                        results[f"tx|{key}"] = f"CTOR EXC {type(e).__name__}: {e}"
                    else:
                        results[f"tx|{key}"] = probe_tx(tx)
                        if fi == 0:
                            results[f"tx_relift|{key}"] = relift(tx, pf, probe_tx)
                    n += 1
                # noncoding transcript + feature (no frames)
                key = f"{starts}|{ends}|{strand.name}|{pname}"
                try:
                    tx = TranscriptInterval(starts, ends, strand, transcript_id="nc", sequence_name="chr1", parent_or_seq_chunk_parent=pfac())
                except Exception as e:  # noqa
                    results[f"nctx|{key}"] = f"CTOR EXC {type(e).__name__}: {e}"
                else:
                    results[f"nctx|{key}"] = probe_tx(tx)
                try:
                    feat = FeatureInterval(
                        starts,
                        ends,
                        strand,
                        feature_types=["promoter"],
                        feature_id="f1",
                        sequence_name="chr1",
                        feature_name="feat",
                        parent_or_seq_chunk_parent=pfac(),
                    )
                except Exception as e:  # noqa
                    results[f"feat|{key}"] = f"CTOR EXC {type(e).__name__}: {e}"
                else:
                    results[f"feat|{key}"] = probe_feat(feat)
                    results[f"feat_relift|{key}"] = relift(feat, pf, probe_feat)
                n += 2
    with open(path, "w") as fh:
        json.dump(results, fh, indent=0, sort_keys=True)
    print(f"{FOCUS}: dumped {len(results)} top-level records ({n} objects built) to {path}")


def main_compare(a, b):
    with open(a) as fh:
        ra = json.load(fh)
    with open(b) as fh:
        rb = json.load(fh)
    bad = 0
    total = 0
    if set(ra) != set(rb):
        print("KEY SETS DIFFER", sorted(set(ra) ^ set(rb))[:10])
        bad += 1
    for k in sorted(set(ra) & set(rb)):
        va, vb = ra[k], rb[k]
        if isinstance(va, dict) and isinstance(vb, dict):
            for kk in sorted(set(va) | set(vb)):
                total += 1
                if va.get(kk) != vb.get(kk):
                    bad += 1
                    if bad < 30:
                        print(f"DIFF {k} :: {kk}\n   before: {va.get(kk)}\n   after : {vb.get(kk)}")
        else:
            total += 1
            if va != vb:
                bad += 1
                if bad < 30:
                    print(f"DIFF {k}\n   before: {va}\n   after : {vb}")
    print(f"{FOCUS}: compared {total} probe values, {bad} differences")
    return 1 if bad else 0


if __name__ == "__main__":
    if sys.argv[1] == "dump":
        main_dump(sys.argv[2])
    else:
        sys.exit(main_compare(sys.argv[2], sys.argv[3]))
