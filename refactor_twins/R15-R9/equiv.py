"""Equivalence script for property C15 (finite tables / enumerated algebras).

Usage (from the worktree root):
    /venv/bin/python _refactor/R2/equiv.py dump /tmp/c15_pristine.json     # on the pristine tree
    git apply _refactor/R2/patch.diff
    /venv/bin/python _refactor/R2/equiv.py dump /tmp/c15_patched.json
    /venv/bin/python _refactor/R2/equiv.py compare /tmp/c15_pristine.json /tmp/c15_patched.json

Everything observable about the touched code is enumerated completely (the domains are finite) and
serialised to JSON: table contents *including iteration order*, every IUPAC triplet through every Codon
method, every frame/phase through every conversion and shifts in [-30, 30], all strand pairs (plus
non-Strand operands), biotype members/aliases, and reverse complements of sequences with parents.
"""
import os
import sys
import json
import itertools

sys.path.insert(0, os.getcwd())  # run from the worktree root

import inscripta.biocantor.location  # noqa: F401  (must come first: circular import otherwise)
from inscripta.biocantor import constants
from inscripta.biocantor.gene import codon as codon_mod
from inscripta.biocantor.gene.codon import Codon, TranslationTable, START_CODONS_BY_TRANSLATION_TABLE
from inscripta.biocantor.gene.cds_frame import CDSFrame, CDSPhase
from inscripta.biocantor.gene.biotype import Biotype, UNKNOWN_BIOTYPE
from inscripta.biocantor.sequence.alphabet import Alphabet, ALPHABET_TO_NUCLEOTIDE_COMPLEMENT
from inscripta.biocantor.sequence.sequence import Sequence
from inscripta.biocantor.location.strand import Strand
from inscripta.biocantor.location.location_impl import SingleInterval, CompoundInterval
from inscripta.biocantor.parent import Parent
from inscripta.biocantor.util.enum import HasMemberMixin


def attempt(fn, *args, **kwargs):
    """Result of a call, or the exception type and message."""
    try:
        return ["ok", norm(fn(*args, **kwargs))]
    except Exception as e:  # noqa
        return ["exc", type(e).__name__, str(e)]


def norm(x):
    if isinstance(x, (Codon,)):
        return ["Codon", repr(x)]
    if isinstance(x, (Strand, CDSFrame, CDSPhase, Alphabet, TranslationTable, Biotype)):
        return [type(x).__name__, x.name, x.value]
    if isinstance(x, (list, tuple)):
        return [norm(i) for i in x]
    if isinstance(x, (set, frozenset)):
        return ["set", sorted(repr(i) for i in x)]
    if isinstance(x, dict):
        return [[norm(k), norm(v)] for k, v in x.items()]
    if isinstance(x, (str, int, float, bool)) or x is None:
        return x
    return repr(x)


def dump_constants(out):
    out["gencode"] = norm(constants.gencode)
    out["extended_gencode"] = norm(constants.extended_gencode)
    out["aacodons"] = norm(constants.aacodons)
    out["aacodons_types"] = [type(constants.aacodons).__name__] + [type(v).__name__ for v in constants.aacodons.values()]
    out["aacodons_distinct_lists"] = len({id(v) for v in constants.aacodons.values()}) == len(constants.aacodons)
    out["constants_public_names"] = sorted(n for n in vars(constants) if not n.startswith("_"))


def dump_codons(out):
    iupac = "ATUCGNWSMKRYBDHV"
    res = {}
    triplets = ["".join(t) for t in itertools.product(iupac, repeat=3)]
    # a few mixed / lower case spellings as well
    extra = ["atg", "aTg", "ctn", "Ctn", "tga", "nnn", "uuu", "taa", "tAg", "gcN"]
    for t in triplets + extra:
        c = Codon(t)
        rec = {
            "repr": repr(c),
            "str": str(c),
            "value": c.value,
            "name": c.name,
            "hash_ok": hash(c) == hash(t.upper()),
            "same_singleton": Codon(t.lower()) is c and Codon(t.upper()) is c,
            "eq_self": c == Codon(t),
            "eq_str": c == t.upper(),
            "tr_default": c.translate(),
            "tr_strict": c.translate(strict=True),
            "tr_loose": c.translate(strict=False),
            "tr_pos": c.translate(False),
            "tr_truthy": [c.translate(0), c.translate(1), c.translate(None), c.translate("")],
            "syn": [str(x) for x in c.synonymous_codons()],
            "syn_self": [str(x) for x in c.synonymous_codons(include_self=True)],
            "syn_truthy": [str(x) for x in c.synonymous_codons(1)],
            "syn_types": sorted({type(x).__name__ for x in c.synonymous_codons(True)}),
            "syn_singletons": all(Codon(str(x)) is x for x in c.synonymous_codons(True)),
            "is_stop": c.is_stop_codon,
            "is_strict": c.is_strict_codon,
            "is_atg": c.is_canonical_start_codon,
            "start_default_arg": c.is_start_codon_in_specific_translation_table(),
            "start": [[tt.name, c.is_start_codon_in_specific_translation_table(tt)] for tt in TranslationTable],
            "start_kw": c.is_start_codon_in_specific_translation_table(translation_table=TranslationTable.PROKARYOTE),
            "start_int": attempt(c.is_start_codon_in_specific_translation_table, 11),
        }
        res[t] = rec
    out["codons"] = res
    out["codon_from_sequence"] = [
        repr(Codon(Sequence("atg", Alphabet.NT_STRICT))),
        repr(Codon(Sequence("CTN", Alphabet.NT_EXTENDED))),
        Codon(Sequence("atg", Alphabet.NT_STRICT)) is Codon("ATG"),
    ]
    bad = ["", "A", "AT", "ATGA", "ATGATG", "AXG", "A-G", "XYZ", "at ", "ZZ", 123, 12, None]
    out["codon_invalid"] = [[repr(b), attempt(Codon, b), attempt(Codon, b)] for b in bad]
    out["codon_bad_start_table"] = [
        attempt(Codon("ATG").is_start_codon_in_specific_translation_table, 5),
        attempt(Codon("ATG").is_start_codon_in_specific_translation_table, None),
    ]
    out["start_tables"] = [
        [norm(k), type(v).__name__, sorted(str(c) for c in v)] for k, v in START_CODONS_BY_TRANSLATION_TABLE.items()
    ]
    out["start_tables_members_are_singletons"] = all(
        Codon(str(c)) is c for v in START_CODONS_BY_TRANSLATION_TABLE.values() for c in v
    )
    out["translation_table"] = [[m.name, m.value, int(m)] for m in TranslationTable]
    out["translation_table_members"] = sorted(TranslationTable.__members__)
    out["codon_slots"] = list(Codon.__slots__)
    out["codon_mod_public"] = [
        [n, hasattr(codon_mod, n)]
        for n in ("Codon", "TranslationTable", "START_CODONS_BY_TRANSLATION_TABLE", "gencode", "extended_gencode", "aacodons")
    ]
    out["codon_class_attrs"] = sorted(n for n in vars(Codon) if not n.startswith("__"))
    out["codon_property_types"] = [
        type(vars(Codon)[n]).__name__
        for n in ("value", "name", "is_stop_codon", "is_strict_codon", "is_canonical_start_codon")
    ]


def dump_frames(out):
    res = {}
    shifts = list(range(-30, 31)) + [-3000001, 3000001, 10**20, -(10**20), True, False]
    for cls in (CDSFrame, CDSPhase):
        res[cls.__name__ + ".members"] = [[n, m.value] for n, m in cls.__members__.items()]
        res[cls.__name__ + ".from_int"] = [attempt(cls.from_int, i) for i in [-3, -2, -1, 0, 1, 2, 3, 4, "0", None, 1.0, 0.5]]
        res[cls.__name__ + ".from_int_on_instance"] = [attempt(m.from_int, 2) for m in cls]
    for f in CDSFrame:
        res["frame.%s.to_phase" % f.name] = norm(f.to_phase())
        res["frame.%s.roundtrip" % f.name] = norm(f.to_phase().to_frame())
        res["frame.%s.shift" % f.name] = [norm(f.shift(s)) for s in shifts]
        res["frame.%s.shift_kw" % f.name] = [norm(f.shift(shift=s)) for s in range(-4, 5)]
        res["frame.%s.shift_float" % f.name] = [attempt(f.shift, s) for s in [1.0, -1.0, 2.0, -2.0, 0.0, 0.5, -0.5, 1.5, -1.5, -2.5]]
        res["frame.%s.shift_bad" % f.name] = [attempt(f.shift, s) for s in ["1", None]]
    for p in CDSPhase:
        res["phase.%s.to_frame" % p.name] = norm(p.to_frame())
        res["phase.%s.roundtrip" % p.name] = norm(p.to_frame().to_phase())
        res["phase.%s.to_gff" % p.name] = [p.to_gff(), type(p.to_gff()).__name__]
    out["frames"] = res


class Weird:
    """Hashable non-strand operand."""

    def __repr__(self):
        return "Weird()"


def dump_strand(out):
    res = {}
    res["members"] = [[n, m.value] for n, m in Strand.__members__.items()]
    for s in Strand:
        res["%s.str" % s.name] = [str(s), s.to_symbol(), type(str(s)).__name__, "{}".format(s), repr(s)]
        res["%s.reverse" % s.name] = norm(s.reverse())
        res["%s.reverse2" % s.name] = norm(s.reverse().reverse())
        res["%s.assert_directional" % s.name] = attempt(s.assert_directional)
        res["%s.from_symbol_roundtrip" % s.name] = norm(Strand.from_symbol(s.to_symbol()))
        res["%s.from_int_roundtrip" % s.name] = norm(Strand.from_int(s.value))
        for o in list(Strand) + [None, "+", "-", ".", 1, -1, 0, 1.0, Weird(), [], {}, (Strand.PLUS,)]:
            key = "%s|%r" % (s.name, o)
            res[key + ".relative_to"] = attempt(s.relative_to, o)
            res[key + ".lt"] = attempt(lambda a, b: a < b, s, o)
            res[key + ".le"] = attempt(lambda a, b: a <= b, s, o)
            res[key + ".gt"] = attempt(lambda a, b: a > b, s, o)
            res[key + ".ge"] = attempt(lambda a, b: a >= b, s, o)
            res[key + ".eq"] = attempt(lambda a, b: a == b, s, o)
    res["relative_to_kw"] = norm(Strand.PLUS.relative_to(other=Strand.MINUS))
    res["sorted"] = norm(sorted([Strand.UNSTRANDED, Strand.MINUS, Strand.PLUS, Strand.MINUS]))
    res["sorted_perms"] = [norm(sorted(p)) for p in itertools.permutations(Strand)]
    res["min_max"] = [norm(min(Strand)), norm(max(Strand))]
    for v in ["+", "-", ".", "", "x", "++", "+ ", None, 1, -1, 0, b"+", [], {}, Strand.PLUS, Weird()]:
        res["from_symbol(%r)" % (v,)] = attempt(Strand.from_symbol, v)
    res["from_symbol_kw"] = attempt(Strand.from_symbol, value="-")
    res["from_symbol_on_instance"] = attempt(Strand.MINUS.from_symbol, "+")
    for v in [1, -1, 0, 2, -2, 1.0, -1.0, 0.0, True, False, "1", "+", None]:
        res["from_int(%r)" % (v,)] = attempt(Strand.from_int, v)
    res["from_int_on_instance"] = attempt(Strand.MINUS.from_int, 1)
    out["strand"] = res


def dump_alphabet(out):
    res = {}
    res["members"] = [[n, m.name, m.value] for n, m in Alphabet.__members__.items()]
    res["is_nt"] = [[n, attempt(m.is_nucleotide_alphabet)] for n, m in Alphabet.__members__.items()]
    res["complement_keys"] = [norm(k) for k in ALPHABET_TO_NUCLEOTIDE_COMPLEMENT]
    res["complement_tables"] = [[norm(k), list(v.items())] for k, v in ALPHABET_TO_NUCLEOTIDE_COMPLEMENT.items()]
    res["complement_types"] = [type(v).__name__ for v in ALPHABET_TO_NUCLEOTIDE_COMPLEMENT.values()]
    res["complement_tables_distinct_objects"] = len({id(v) for v in ALPHABET_TO_NUCLEOTIDE_COMPLEMENT.values()}) == len(
        ALPHABET_TO_NUCLEOTIDE_COMPLEMENT
    )
    out["alphabet"] = res


def seq_record(s):
    return {
        "str": str(s),
        "repr": repr(s),
        "alphabet": s.alphabet.name,
        "id": s.id,
        "type": repr(s.sequence_type),
        "parent": repr(s.parent),
        "parent_strand": repr(s.parent_strand) if s.parent else None,
        "loc": repr(s.location_on_parent),
    }


def dump_revcomp(out):
    res = {}
    datas = {
        Alphabet.NT_STRICT: ["", "A", "ACGT", "acgtACGT", "AAACCCGGGTTTacgtgca"],
        Alphabet.NT_EXTENDED: ["ATUCGNWSMKRYBDHV", "atucgnwsmkrybdhv", "AaTtNnRyKm", ""],
        Alphabet.NT_STRICT_GAPPED: ["AC-GT", "--", "a-c-g-t"],
        Alphabet.NT_EXTENDED_GAPPED: ["ATUCGNWSMKRYBDHV-", "atucgnwsmkrybdhv-", "N-n"],
        Alphabet.NT_STRICT_UNKNOWN: ["ATGCN", "atgcn", "NNNN"],
    }
    for alph, ds in datas.items():
        for d in ds:
            s = Sequence(d, alph)
            res["%s|%s" % (alph.name, d)] = seq_record(s.reverse_complement())
            res["%s|%s|rcrc" % (alph.name, d)] = seq_record(s.reverse_complement().reverse_complement())
            res["%s|%s|ids" % (alph.name, d)] = seq_record(s.reverse_complement(new_id="rc", new_type="t"))
            res["%s|%s|pos" % (alph.name, d)] = seq_record(s.reverse_complement("rc2", "t2"))
    # with parents: strands, locations (single / multi-block), chunk-like sequence parent
    chrom = Sequence("A" * 40 + "CCCGGGTTTAAACGCGTTTT", Alphabet.NT_STRICT, id="chr", type="chromosome")
    parents = {
        "plus_strand_only": Parent(strand=Strand.PLUS),
        "minus_strand_only": Parent(strand=Strand.MINUS),
        "unstranded_only": Parent(strand=Strand.UNSTRANDED),
        "id_only": Parent(id="p", sequence_type="chromosome"),
        "single_plus": Parent(id="p", location=SingleInterval(3, 11, Strand.PLUS)),
        "single_minus": Parent(id="p", location=SingleInterval(3, 11, Strand.MINUS)),
        "single_unstranded": Parent(id="p", location=SingleInterval(3, 11, Strand.UNSTRANDED)),
        "compound_plus": Parent(id="p", location=CompoundInterval([2, 8, 20], [5, 11, 22], Strand.PLUS)),
        "compound_minus": Parent(id="p", location=CompoundInterval([2, 8, 20], [5, 11, 22], Strand.MINUS)),
        "seq_parent_plus": Parent(sequence=chrom, location=SingleInterval(40, 48, Strand.PLUS)),
        "seq_parent_minus": Parent(sequence=chrom, location=SingleInterval(40, 48, Strand.MINUS)),
        "seq_parent_compound": Parent(sequence=chrom, location=CompoundInterval([40, 50], [44, 54], Strand.MINUS)),
    }
    for name, parent in parents.items():
        r = attempt(lambda p: seq_record(Sequence("ACGTTGCA", Alphabet.NT_STRICT, id="s", parent=p).reverse_complement()), parent)
        res["parent|" + name] = r
        r2 = attempt(
            lambda p: seq_record(
                Sequence("ACGTTGCA", Alphabet.NT_STRICT, id="s", parent=p).reverse_complement().reverse_complement(new_id="b")
            ),
            parent,
        )
        res["parent|" + name + "|rcrc"] = r2
    # failure modes
    for alph in Alphabet:
        if not alph.is_nucleotide_alphabet():
            res["nonnt|" + alph.name] = attempt(lambda a: Sequence("ACD", a).reverse_complement(), alph)
    for alph, d in [
        (Alphabet.NT_STRICT, "ACGTNX"),
        (Alphabet.NT_STRICT, "XACGTN"),
        (Alphabet.NT_STRICT, "AC-GT"),
        (Alphabet.NT_STRICT_GAPPED, "ACNGT"),
        (Alphabet.NT_STRICT_UNKNOWN, "AC-GTR"),
        (Alphabet.NT_EXTENDED, "AC-GT"),
        (Alphabet.NT_EXTENDED_GAPPED, "AC.GT'\"Z"),
    ]:
        res["badchar|%s|%s" % (alph.name, d)] = attempt(
            lambda a, x: seq_record(Sequence(x, a, validate_alphabet=False).reverse_complement()), alph, d
        )
    out["revcomp"] = res


def dump_biotype(out):
    res = {}
    res["members"] = [[n, m.name, m.value] for n, m in Biotype.__members__.items()]
    res["iter"] = [[m.name, m.value] for m in Biotype]
    res["class"] = [Biotype.__name__, [c.__name__ for c in Biotype.__mro__]]
    res["unknown"] = UNKNOWN_BIOTYPE
    names = list(Biotype.__members__) + ["unspecified", "", "MRNA", "protein coding", None, 3]
    res["has_name"] = [[repr(n), attempt(Biotype.has_name, n)] for n in names]
    res["has_value"] = [[repr(v), attempt(Biotype.has_value, v)] for v in list(range(-2, 40)) + ["mRNA", None, 1.0, []]]
    res["getitem"] = [[repr(n), attempt(lambda k: Biotype[k], n)] for n in names]
    res["call"] = [[v, attempt(Biotype, v)] for v in range(-1, 37)]
    res["alias_identity"] = [
        Biotype["protein-coding"] is Biotype.protein_coding,
        Biotype.mRNA is Biotype.protein_coding,
        Biotype.miscRNA is Biotype.misc_RNA,
        Biotype.pseudo is Biotype.pseudogene,
        Biotype.lnc_RNA is Biotype.lncRNA,
    ]
    res["mixin"] = [HasMemberMixin.__name__, sorted(n for n in vars(HasMemberMixin) if not n.startswith("_"))]
    out["biotype"] = res


def dump(path):
    out = {}
    dump_constants(out)
    dump_codons(out)
    dump_frames(out)
    dump_strand(out)
    dump_alphabet(out)
    dump_revcomp(out)
    dump_biotype(out)
    # state of the codon singleton registry after everything above ran
    out["codon_singletons"] = sorted(Codon._singletons_) if hasattr(Codon, "_singletons_") else None
    with open(path, "w") as fh:
        json.dump(out, fh, indent=1, sort_keys=True)
    n = sum(len(v) if isinstance(v, (dict, list)) else 1 for v in out.values())
    print("wrote %s (%d top-level sections, %d records)" % (path, len(out), n))


def compare(a, b):
    with open(a) as fa, open(b) as fb:
        da, db = json.load(fa), json.load(fb)
    bad = 0
    for key in sorted(set(da) | set(db)):
        va, vb = da.get(key), db.get(key)
        if va == vb:
            continue
        if isinstance(va, dict) and isinstance(vb, dict):
            for k in sorted(set(va) | set(vb)):
                if va.get(k) != vb.get(k):
                    bad += 1
                    print("DIFF %s[%s]:\n   %r\n   %r" % (key, k, va.get(k), vb.get(k)))
        else:
            bad += 1
            print("DIFF %s:\n   %r\n   %r" % (key, va, vb))
    print("IDENTICAL" if not bad else "%d differences" % bad)
    return 1 if bad else 0


if __name__ == "__main__":
    if sys.argv[1] == "dump":
        dump(sys.argv[2])
    else:
        sys.exit(compare(sys.argv[2], sys.argv[3]))
