"""Equivalence script for R2 (location/location_impl.py).

Usage (from the worktree root):
    /venv/bin/python _refactor/R2/equiv.py dump /tmp/r2_pristine.json      # on the pristine checkout
    git apply _refactor/R2/patch.diff
    /venv/bin/python _refactor/R2/equiv.py dump /tmp/r2_patched.json
    /venv/bin/python _refactor/R2/equiv.py compare /tmp/r2_pristine.json /tmp/r2_patched.json
"""
import itertools
import json
import os
import sys

if os.environ.get("PYTHONHASHSEED") != "0":
    os.environ["PYTHONHASHSEED"] = "0"
    os.execv(sys.executable, [sys.executable] + sys.argv)

sys.path.insert(0, os.getcwd())

import inscripta.biocantor.location  # noqa: E402,F401  (must be first: circular import otherwise)
from inscripta.biocantor.location.location_impl import SingleInterval, CompoundInterval, EmptyLocation  # noqa: E402
from inscripta.biocantor.location.strand import Strand  # noqa: E402
from inscripta.biocantor.parent import Parent, SequenceType  # noqa: E402
from inscripta.biocantor.sequence.alphabet import Alphabet  # noqa: E402
from inscripta.biocantor.sequence.sequence import Sequence  # noqa: E402

GENOME = "ACGTTGCAAGGCTTAACCGGATATCGCGTATTAGCCATGGTACCTTGAAACCCGGGTTTACGTAGCTAGCTAGGATCCAA"


def attempt(fn):
    try:
        val = fn()
    except Exception as e:  # noqa
        return {"exc": type(e).__name__, "msg": str(e)}
    return {"type": type(val).__name__, "repr": repr(val), "str": str(val)}


def seq_to_parent(seq, alphabet=Alphabet.NT_EXTENDED_GAPPED, seq_id=None, seq_type=SequenceType.CHROMOSOME):
    return Parent(
        sequence=Sequence(seq, alphabet, type=seq_type, id=seq_id), location=SingleInterval(0, len(seq), Strand.PLUS)
    )


def seq_chunk_to_parent(seq, sequence_name, start, end, strand=Strand.PLUS, alphabet=Alphabet.NT_EXTENDED_GAPPED):
    chunk_id = f"{sequence_name}:{start}-{end}"
    return Parent(
        id=chunk_id,
        sequence=Sequence(
            seq,
            alphabet,
            id=chunk_id,
            type=SequenceType.SEQUENCE_CHUNK,
            parent=Parent(
                location=SingleInterval(
                    start, end, strand, parent=Parent(id=sequence_name, sequence_type=SequenceType.CHROMOSOME)
                )
            ),
        ),
    )


def parent_factories():
    return {
        "none": lambda: None,
        "str": lambda: "chr1",
        "id_only": lambda: Parent(id="chr1", sequence_type=SequenceType.CHROMOSOME),
        "chrom_seq": lambda: seq_to_parent(GENOME, seq_id="chr1"),
        "chrom_seq_strict": lambda: Parent(id="chr1", sequence=Sequence(GENOME, Alphabet.NT_STRICT)),
        "protein_seq": lambda: Parent(id="prot", sequence=Sequence("MKV" * 25, Alphabet.AA)),
        "short_seq": lambda: Parent(id="chr1", sequence=Sequence(GENOME[:20], Alphabet.NT_STRICT)),
        "chunk_plus": lambda: seq_chunk_to_parent(GENOME[10:70], "chr1", 10, 70),
        "chunk_minus": lambda: seq_chunk_to_parent(GENOME[10:70], "chr1", 10, 70, strand=Strand.MINUS),
        "sequence": lambda: Sequence(GENOME, Alphabet.NT_STRICT, id="chr1", type="chromosome"),
        "with_location": lambda: Parent(
            id="chr1", sequence=Sequence(GENOME, Alphabet.NT_STRICT), location=SingleInterval(3, 9, Strand.MINUS)
        ),
    }


BLOCKS = [
    ([0], [5]),
    ([3], [3]),
    ([5], [30]),
    ([0, 10], [5, 15]),
    ([10, 0], [15, 5]),
    ([0, 5], [5, 15]),
    ([0, 4], [6, 15]),
    ([0, 0], [6, 4]),
    ([0, 0, 0], [6, 4, 9]),
    ([2, 8, 20, 41], [5, 17, 33, 60]),
    ([41, 20, 8, 2], [60, 33, 17, 5]),
    ([2, 8, 20, 41], [8, 20, 41, 60]),
    ([2, 8, 20], [9, 25, 41]),
    ([0, 30], [10, 79]),
    ([0, 30], [10, 80]),
    ([0, 30], [10, 81]),
    ([-1, 30], [10, 40]),
    ([12, 30], [10, 40]),
    ([], []),
    ([1, 2], [3]),
    ((1, 6, 11), (4, 9, 14)),
]
STRANDS = [Strand.PLUS, Strand.MINUS, Strand.UNSTRANDED]


def describe(loc):
    rec = {}
    rec["slots"] = [s for s in getattr(type(loc), "__slots__", [])]
    rec["repr"] = attempt(lambda: loc)
    rec["hash"] = attempt(lambda: hash(loc))
    rec["len"] = attempt(lambda: len(loc))
    rec["start_end"] = [loc.start, loc.end]
    rec["parent"] = repr(loc.parent)
    if isinstance(loc, CompoundInterval):
        rec["_starts"] = repr(loc._starts)
        rec["_ends"] = repr(loc._ends)
        rec["store_before"] = repr(loc._single_interval_store)
        rec["ovl_before"] = repr(loc._is_overlapping)
        rec["is_overlapping"] = attempt(lambda: loc.is_overlapping)
        rec["ovl_after"] = repr(loc._is_overlapping)
        rec["is_overlapping2"] = attempt(lambda: loc.is_overlapping)
        rec["blocks_stable"] = loc.blocks is loc.blocks and loc._single_intervals is loc._single_interval_store
    rec["is_overlapping"] = attempt(lambda: loc.is_overlapping)
    rec["is_contiguous"] = attempt(lambda: loc.is_contiguous)
    rec["num_blocks"] = loc.num_blocks
    rec["blocks"] = attempt(lambda: loc.blocks)
    rec["scan_blocks"] = attempt(lambda: list(loc.scan_blocks()))
    rec["seq_cache_before"] = repr(getattr(loc, "_sequence", "n/a"))
    first = attempt(lambda: loc.extract_sequence())
    rec["extract_sequence"] = first
    rec["seq_cache_after"] = repr(getattr(loc, "_sequence", "n/a"))
    if "exc" not in first:
        s1 = loc.extract_sequence()
        s2 = loc.extract_sequence()
        rec["extract_same_object"] = s1 is s2
        rec["extract_alphabet"] = repr(s1.alphabet)
        rec["extract_meta"] = [repr(s1.id), repr(s1.sequence_type), repr(s1.parent)]
    rec["extract_sequence_again"] = attempt(lambda: loc.extract_sequence())
    rec["block_seqs"] = [attempt(lambda: b.extract_sequence()) for b in loc.blocks]
    rec["full_span"] = attempt(lambda: loc._full_span_interval)
    rec["optimize"] = attempt(lambda: loc.optimize_blocks())
    rec["gaps"] = attempt(lambda: loc.gaps_location())
    rec["is_empty"] = attempt(lambda: loc.is_empty)
    rec["rel_to_parent"] = [attempt(lambda: loc.relative_to_parent_pos(i)) for i in (0, 1, 4, len(loc) - 1, len(loc))]
    rec["parent_to_rel"] = [attempt(lambda: loc.parent_to_relative_pos(i)) for i in (0, 3, 9, 12, 30, 59)]
    rec["rel_interval"] = [
        attempt(lambda: loc.relative_interval_to_parent_location(a, b, st))
        for a, b in ((0, 1), (1, 4), (2, 2), (0, len(loc)), (3, len(loc) + 1))
        for st in (Strand.PLUS, Strand.MINUS)
    ]
    rec["reverse"] = attempt(lambda: loc.reverse_strand())
    rec["reset_parent"] = attempt(lambda: loc.reset_parent(None))
    # history independence of the lazily filled members: str/eq first on a twin, then the flags
    return rec


def main_dump(path):
    facs = parent_factories()
    results = []
    built = []
    for (starts, ends), strand, pname in itertools.product(BLOCKS, STRANDS, facs):
        rec = {"case": [repr(starts), repr(ends), str(strand), pname]}
        try:
            loc = CompoundInterval(starts, ends, strand, facs[pname]())
        except Exception as e:  # noqa
            rec["compound_ctor"] = {"exc": type(e).__name__, "msg": str(e)}
        else:
            rec["compound"] = describe(loc)
            built.append(loc)
            # a twin queried in another order
            twin = CompoundInterval(starts, ends, strand, facs[pname]())
            rec["twin"] = [
                attempt(lambda: twin.extract_sequence()),
                str(twin),
                twin == loc,
                loc == twin,
                hash(twin) == hash(loc),
                attempt(lambda: twin.is_contiguous),
                attempt(lambda: twin.is_overlapping),
                repr(twin._is_overlapping),
            ]
            rec["from_single"] = attempt(lambda: CompoundInterval.from_single_intervals(loc.blocks))
        if len(starts) == 1:
            try:
                sloc = SingleInterval(starts[0], ends[0], strand, facs[pname]())
            except Exception as e:  # noqa
                rec["single_ctor"] = {"exc": type(e).__name__, "msg": str(e)}
            else:
                rec["single"] = describe(sloc)
                built.append(sloc)
        results.append(rec)

    sort_cases = []
    for (starts, ends), strand in itertools.product(BLOCKS, STRANDS):
        sort_cases.append(attempt(lambda: CompoundInterval._sort_starts_ends(starts, ends, strand)))

    sample = built[::4] + [EmptyLocation()]
    others = ["x", None, 3]
    pairs = []
    for a in sample:
        row = []
        for b in sample:
            v = a == b
            row.append([v, type(v).__name__, a != b])
        for o in others:
            v = a == o
            row.append([v, type(v).__name__])
        pairs.append(row)

    out = {"results": results, "sort": sort_cases, "pairs": pairs, "n_built": len(built), "n_sample": len(sample)}
    with open(path, "w") as fh:
        json.dump(out, fh, indent=1, sort_keys=True, default=repr)
    print(f"dumped {len(results)} cases, {len(built)} locations built, {len(sample)}^2 equality pairs")


def main_compare(a, b):
    with open(a) as fh:
        ja = json.load(fh)
    with open(b) as fh:
        jb = json.load(fh)
    if ja == jb:
        print(f"IDENTICAL ({len(ja['results'])} cases, {ja['n_built']} locations built)")
        return 0
    for key in ja:
        if ja[key] != jb.get(key):
            print("DIFFERENCE in", key)
            if isinstance(ja[key], list):
                for x, y in zip(ja[key], jb[key]):
                    if x != y:
                        print(json.dumps(x)[:3000])
                        print(json.dumps(y)[:3000])
                        break
    return 1


if __name__ == "__main__":
    if sys.argv[1] == "dump":
        main_dump(sys.argv[2])
    else:
        sys.exit(main_compare(sys.argv[2], sys.argv[3]))
