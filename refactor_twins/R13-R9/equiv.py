"""
Equivalence harness for the variant / haplotype code (property C13).

Usage (from the worktree root):

    /venv/bin/python _refactor/R2/equiv.py save /tmp/before.json      # on the pristine tree
    git apply _refactor/R2/patch.diff
    /venv/bin/python _refactor/R2/equiv.py compare /tmp/before.json   # on the refactored tree

Every case is recorded as a string (repr / str / to_dict, or ``EXC:<type>:<message>``); ``compare`` exits non-zero
on the first difference and prints all differing keys.
"""
import itertools
import json
import os
import random
import sys
import types
import warnings
from collections import namedtuple
from uuid import UUID

if os.environ.get("PYTHONHASHSEED") != "0":
    # reprs of sets of strings (identifiers, qualifiers) must be reproducible between the two runs
    os.execve(sys.executable, [sys.executable] + sys.argv, dict(os.environ, PYTHONHASHSEED="0"))

sys.path.insert(0, os.getcwd())  # run from the worktree root

import inscripta.biocantor.location  # noqa: F401,E402  (must come first: circular import otherwise)
from inscripta.biocantor.location import SingleInterval, CompoundInterval, EmptyLocation, Strand
from inscripta.biocantor.parent import Parent, SequenceType
from inscripta.biocantor.sequence.alphabet import Alphabet
from inscripta.biocantor.sequence.sequence import Sequence


# ---------------------------------------------------------------------------------------------------------------------
# inscripta.biocantor.io.parser cannot be imported here: provide the two helpers that variants.py imports lazily.
# ---------------------------------------------------------------------------------------------------------------------
def seq_to_parent(seq, alphabet=Alphabet.NT_EXTENDED_GAPPED, seq_id=None, seq_type=SequenceType.CHROMOSOME):
    return Parent(
        sequence=Sequence(seq, alphabet, type=seq_type, id=seq_id), location=SingleInterval(0, len(seq), Strand.PLUS)
    )


def seq_chunk_to_parent(seq, sequence_name, start, end, strand=Strand.PLUS, alphabet=Alphabet.NT_EXTENDED_GAPPED):
    chunk_id = f"{sequence_name}:{start}-{end}"
    return Parent(
        id=chunk_id,
        sequence=Sequence(
            seq,
            alphabet,
            id=chunk_id,
            type=SequenceType.SEQUENCE_CHUNK,
            parent=Parent(
                location=SingleInterval(
                    start,
                    end,
                    strand,
                    parent=Parent(id=sequence_name, sequence_type=SequenceType.CHROMOSOME),
                )
            ),
        ),
    )


_parser_stub = types.ModuleType("inscripta.biocantor.io.parser")
_parser_stub.seq_to_parent = seq_to_parent
_parser_stub.seq_chunk_to_parent = seq_chunk_to_parent
sys.modules["inscripta.biocantor.io.parser"] = _parser_stub

from inscripta.biocantor.gene.variants import VariantInterval, VariantIntervalCollection  # noqa: E402
from inscripta.biocantor.gene.feature import FeatureInterval, FeatureIntervalCollection  # noqa: E402
from inscripta.biocantor.gene.cds import CDSInterval  # noqa: E402
from inscripta.biocantor.gene.cds_frame import CDSFrame  # noqa: E402
from inscripta.biocantor.gene.transcript import TranscriptInterval  # noqa: E402
from inscripta.biocantor.gene.biotype import Biotype  # noqa: E402
from inscripta.biocantor.gene.gene import GeneInterval  # noqa: E402
import inscripta.biocantor.gene.collections as collections_mod  # noqa: E402
from inscripta.biocantor.gene.collections import AnnotationCollection  # noqa: E402


RESULTS = {}


def record(key, fn):
    assert key not in RESULTS, key
    try:
        with warnings.catch_warnings(record=True) as w:
            warnings.simplefilter("always")
            val = fn()
        out = val if isinstance(val, str) else repr(val)
        if w:
            out += " WARN:" + "|".join(f"{x.category.__name__}:{x.message}" for x in w)
        RESULTS[key] = out
    except Exception as e:  # noqa
        RESULTS[key] = f"EXC:{type(e).__name__}:{e}"


def describe_location(loc):
    """repr + parent chain + sequence, as far as available"""
    out = [repr(loc), str(type(loc).__name__)]
    try:
        if loc.parent is not None and loc.parent.sequence is not None and not loc.is_empty:
            out.append(str(loc.extract_sequence()))
    except Exception as e:  # noqa
        out.append(f"EXC:{type(e).__name__}:{e}")
    return " / ".join(out)


def describe_interval(obj):
    out = [repr(obj), repr(obj.to_dict()), repr(obj.chunk_relative_location), repr(obj.chromosome_location)]
    for attr in ("get_spliced_sequence", "get_genomic_sequence", "extract_sequence", "get_reference_sequence"):
        if hasattr(obj, attr):
            try:
                out.append(f"{attr}={getattr(obj, attr)()}")
            except Exception as e:  # noqa
                out.append(f"{attr}=EXC:{type(e).__name__}:{e}")
    if hasattr(obj, "to_dict"):
        try:
            out.append(repr(obj.to_dict(chromosome_relative_coordinates=False)))
        except Exception as e:  # noqa
            out.append(f"rel=EXC:{type(e).__name__}:{e}")
    if hasattr(obj, "iter_children"):
        try:
            for child in obj.iter_children():
                out.append(describe_interval(child))
        except Exception as e:  # noqa
            out.append(f"children=EXC:{type(e).__name__}:{e}")
    elif isinstance(obj, TranscriptInterval) and obj.is_coding:
        out.append(describe_interval(obj.cds))
    return " || ".join(out)


# ---------------------------------------------------------------------------------------------------------------------
# inputs
# ---------------------------------------------------------------------------------------------------------------------
rng = random.Random(1313)
REF_LEN = 48
REF = "".join(rng.choice("ACGT") for _ in range(REF_LEN))
CHUNK_START, CHUNK_END = 6, 44  # the chunk covers chromosome [6, 44)
OFFSET = 0


def chrom_parent():
    return Parent(id="chr", sequence=Sequence(REF, Alphabet.NT_EXTENDED_GAPPED, id="chr", type=SequenceType.CHROMOSOME))


def plain_parent():
    # what the bundled tests use: a typeless sequence
    return Parent(sequence=Sequence(REF, Alphabet.NT_EXTENDED_GAPPED))


def chunk_parent():
    return seq_chunk_to_parent(REF[CHUNK_START:CHUNK_END], "chr", CHUNK_START, CHUNK_END)


PARENTS = {"none": lambda: None, "plain": plain_parent, "chrom": chrom_parent, "chunk": chunk_parent}

# (start, end, alt, type) in chromosome coordinates; all lie inside the chunk
VARIANT_SPECS = {
    "snv": (12, 13, "G", "SNV"),
    "mnv": (20, 23, "TTG", "MNV"),
    "ins_pad": (15, 16, "CGGA", "insertion"),
    "ins_big": (25, 27, "ACGTACGT", "insertion"),
    "del_pad": (18, 23, "A", "deletion"),
    "del_nopad": (28, 31, "", "deletion"),
    "del_long": (10, 30, "TT", "deletion"),
    "delins": (30, 36, "CCA", "delins"),
    "first": (6, 8, "T", "deletion"),
    "last": (42, 44, "GGGG", "insertion"),
}

COLLECTION_SPECS = {
    "c1_snv": ["snv"],
    "c1_del": ["del_pad"],
    "c2_snv_ins": ["snv", "ins_pad"],
    "c2_ins_del": ["ins_pad", "del_pad"],
    "c2_del_ins": ["del_pad", "ins_big"],
    "c3_mixed": ["snv", "ins_pad", "del_pad"],
    "c3_unsorted": ["delins", "snv", "ins_big"],
    "c4_abutting": ["snv", "ins_pad", "del_pad", "del_nopad"],
    "c4_all": ["first", "ins_pad", "mnv", "last"],
    "c3_dels": ["first", "del_pad", "del_nopad"],
}


def make_variant(name, parent_key, **kw):
    start, end, alt, vtype = VARIANT_SPECS[name]
    return VariantInterval(
        start=start,
        end=end,
        sequence=alt,
        variant_type=vtype,
        variant_name=name,
        parent_or_seq_chunk_parent=PARENTS[parent_key](),
        **kw,
    )


def make_collection(cname, parent_key, **kw):
    return VariantIntervalCollection(
        [make_variant(n, parent_key) for n in COLLECTION_SPECS[cname]],
        variant_collection_name=cname,
        parent_or_seq_chunk_parent=PARENTS[parent_key](),
        **kw,
    )


def single_locations():
    pts = [6, 9, 10, 12, 13, 15, 16, 18, 19, 20, 23, 24, 27, 28, 30, 31, 36, 40, 44]
    for s, e in itertools.combinations(pts, 2):
        yield s, e


BLOCK_SETS = [
    [(6, 10), (14, 20), (26, 40)],
    [(8, 12), (13, 15), (16, 18), (23, 30)],
    [(7, 9), (19, 22), (29, 31), (41, 44)],
    [(10, 13), (20, 23)],
    [(12, 16), (18, 19), (22, 44)],
    [(6, 19), (21, 29), (31, 32)],
    [(19, 20), (21, 22)],
    [(28, 29), (30, 31)],
    [(11, 14), (15, 29), (33, 35), (37, 44)],
    [(6, 7), (43, 44)],
]


def location_with_parent(loc_builder, parent_key):
    """loc_builder(parent, offset) -> Location; chunk-relative coordinates when the parent is a chunk"""
    parent = PARENTS[parent_key]()
    offset = CHUNK_START if parent_key == "chunk" else 0
    return loc_builder(parent, offset)


def build_single(s, e, strand):
    return lambda parent, offset: SingleInterval(s - offset, e - offset, strand, parent=parent)


def build_compound(blocks, strand):
    return lambda parent, offset: CompoundInterval(
        [b[0] - offset for b in blocks], [b[1] - offset for b in blocks], strand, parent=parent
    )


# ---------------------------------------------------------------------------------------------------------------------
# 1. VariantInterval basics
# ---------------------------------------------------------------------------------------------------------------------
def run_variant_basics():
    for pk in PARENTS:
        for name in VARIANT_SPECS:
            key = f"variant/{pk}/{name}"
            record(key + "/str", lambda: str(make_variant(name, pk)))
            record(key + "/repr", lambda: repr(make_variant(name, pk)))
            record(key + "/to_dict", lambda: make_variant(name, pk).to_dict())
            record(key + "/to_dict_rel", lambda: make_variant(name, pk).to_dict(chromosome_relative_coordinates=False))
            record(
                key + "/roundtrip",
                lambda: VariantInterval.from_dict(make_variant(name, pk).to_dict(), PARENTS[pk]()).to_dict(),
            )
            record(key + "/len_diff", lambda: make_variant(name, pk).length_difference)
            record(key + "/id_name", lambda: (make_variant(name, pk).id, make_variant(name, pk).name))
            record(key + "/quals", lambda: make_variant(name, pk).export_qualifiers({"a": {"b"}}))

            def alt():
                v = make_variant(name, pk)
                s = v.alternative_genomic_sequence
                # second access returns the cached object
                return f"{s}|{s.sequence_type}|{s.alphabet}|{s.id}|{s is v.alternative_genomic_sequence}"

            record(key + "/alt_seq", alt)

            def alt_parent():
                v = make_variant(name, pk)
                p = v.parent_with_alternative_sequence
                return f"{p!r}|{p.sequence}|{p.sequence.sequence_type}|{p is v.parent_with_alternative_sequence}"

            record(key + "/alt_parent", alt_parent)
    record("variant/empty", lambda: VariantInterval(3, 3, "A", "SNV"))
    record(
        "variant/guid_given",
        lambda: VariantInterval(3, 4, "A", "SNV", guid=UUID(int=7), variant_guid=UUID(int=8), variant_id="x").to_dict(),
    )
    record(
        "variant/qualifiers",
        lambda: VariantInterval(3, 4, "A", "SNV", phase_block=4, qualifiers={"k": ["v", "w"]}).to_dict(),
    )
    for meth in ("to_bed12", "to_vcf"):
        record(f"variant/{meth}", lambda: getattr(VariantInterval(3, 4, "A", "SNV"), meth)())
    record("variant/to_gff", lambda: list(VariantInterval(3, 4, "A", "SNV").to_gff()))


# ---------------------------------------------------------------------------------------------------------------------
# 2. VariantInterval.lift_over_location and the private lift helpers
# ---------------------------------------------------------------------------------------------------------------------
def run_variant_liftover():
    for name in VARIANT_SPECS:
        # the private helpers (sequence-less, chromosome coordinates), every single interval
        v = make_variant(name, "none")
        for s, e in single_locations():
            for strand in (Strand.PLUS, Strand.MINUS):
                record(
                    f"lift1/{name}/{s}-{e}{strand.name}",
                    lambda: v._lift_over_chromosome_location_single_interval(SingleInterval(s, e, strand)),
                )
        for i, blocks in enumerate(BLOCK_SETS):
            for strand in (Strand.PLUS, Strand.MINUS):
                loc = CompoundInterval([b[0] for b in blocks], [b[1] for b in blocks], strand)
                record(
                    f"liftN/{name}/{i}{strand.name}",
                    lambda: v._lift_over_chromosome_location_compound_interval(loc),
                )
        # the public method with every combination of variant parent and location parent
        for vpk in PARENTS:
            var = make_variant(name, vpk)
            for lpk in PARENTS:
                if "chunk" in (vpk, lpk) and "plain" in (vpk, lpk):
                    continue
                for s, e in list(single_locations())[::7]:
                    for strand in (Strand.PLUS, Strand.MINUS):
                        record(
                            f"lift/{name}/{vpk}/{lpk}/{s}-{e}{strand.name}",
                            lambda: describe_location(
                                var.lift_over_location(location_with_parent(build_single(s, e, strand), lpk))
                            ),
                        )
                for i, blocks in enumerate(BLOCK_SETS):
                    for strand in (Strand.PLUS, Strand.MINUS):
                        record(
                            f"lift/{name}/{vpk}/{lpk}/blocks{i}{strand.name}",
                            lambda: describe_location(
                                var.lift_over_location(location_with_parent(build_compound(blocks, strand), lpk))
                            ),
                        )
            record(f"lift/{name}/{vpk}/empty", lambda: var.lift_over_location(EmptyLocation()))
            record(f"lift/{name}/{vpk}/badtype", lambda: var.lift_over_location(_OddLocation(30, 40, Strand.PLUS)))


class _OddLocation(SingleInterval):
    """a Location subclass: exact-type checks and isinstance checks treat it differently"""


# ---------------------------------------------------------------------------------------------------------------------
# 3. VariantIntervalCollection
# ---------------------------------------------------------------------------------------------------------------------
def run_collections():
    for pk in PARENTS:
        for cname in COLLECTION_SPECS:
            key = f"coll/{pk}/{cname}"
            record(key + "/repr", lambda: repr(make_collection(cname, pk)))
            record(key + "/to_dict", lambda: make_collection(cname, pk).to_dict())
            record(key + "/to_dict_rel", lambda: make_collection(cname, pk).to_dict(False))
            record(
                key + "/roundtrip",
                lambda: VariantIntervalCollection.from_dict(make_collection(cname, pk).to_dict(), PARENTS[pk]()),
            )
            record(
                key + "/attrs",
                lambda: (lambda c: (c.start, c.end, sorted(c.variant_types), c.id, c.name, c.is_coding, c.guid))(
                    make_collection(cname, pk)
                ),
            )
            record(key + "/order", lambda: [v.variant_name for v in make_collection(cname, pk).iter_children()])
            record(key + "/guids", lambda: sorted(map(str, make_collection(cname, pk).children_guids)))
            record(key + "/guid_map", lambda: list(make_collection(cname, pk).guid_map.items()))

            def alt():
                c = make_collection(cname, pk)
                s = c.alternative_genomic_sequence
                return f"{s}|{s.sequence_type}|{s.alphabet}|{s.id}|{s is c.alternative_genomic_sequence}"

            record(key + "/alt_seq", alt)

            def alt_parent():
                c = make_collection(cname, pk)
                p = c.parent_with_alternative_sequence
                return f"{p!r}|{p.sequence}|{p.sequence.sequence_type}|{p is c.parent_with_alternative_sequence}"

            record(key + "/alt_parent", alt_parent)

            def query():
                c = make_collection(cname, pk)
                guids = [v.guid for v in c.variant_intervals]
                return (
                    repr(c.query_by_guids(guids[0])),
                    repr(c.query_by_guids(guids[::-1])),
                    repr(c.query_by_guids([UUID(int=1)])),
                    repr(c.query_by_guids([])),
                )

            record(key + "/query", query)
            record(key + "/to_gff", lambda: list(make_collection(cname, pk).to_gff()))

            coll = make_collection(cname, pk)
            for lpk in PARENTS:
                if "chunk" in (pk, lpk) and "plain" in (pk, lpk):
                    continue
                for s, e in list(single_locations())[::5]:
                    for strand in (Strand.PLUS, Strand.MINUS):
                        record(
                            f"{key}/lift/{lpk}/{s}-{e}{strand.name}",
                            lambda: describe_location(
                                coll.lift_over_location(location_with_parent(build_single(s, e, strand), lpk))
                            ),
                        )
                for i, blocks in enumerate(BLOCK_SETS):
                    for strand in (Strand.PLUS, Strand.MINUS):
                        record(
                            f"{key}/lift/{lpk}/blocks{i}{strand.name}",
                            lambda: describe_location(
                                coll.lift_over_location(location_with_parent(build_compound(blocks, strand), lpk))
                            ),
                        )
            record(f"{key}/lift/empty", lambda: coll.lift_over_location(EmptyLocation()))
            record(f"{key}/lift/odd", lambda: coll.lift_over_location(_OddLocation(30, 40, Strand.PLUS)))
            record(f"{key}/lift/notloc", lambda: coll.lift_over_location("30-40"))

    record("coll/none_given", lambda: VariantIntervalCollection([]))
    record(
        "coll/overlap",
        lambda: VariantIntervalCollection([make_variant("del_pad", "chrom"), make_variant("mnv", "chrom")]),
    )
    record(
        "coll/overlap_late",
        lambda: VariantIntervalCollection(
            [make_variant("snv", "none"), make_variant("ins_big", "none"), make_variant("del_long", "none")]
        ),
    )
    record(
        "coll/duplicate",
        lambda: VariantIntervalCollection(
            [
                VariantInterval(3, 4, "A", "SNV", guid=UUID(int=5)),
                VariantInterval(8, 9, "A", "SNV", guid=UUID(int=5)),
            ]
        ),
    )
    record(
        "coll/guid_given",
        lambda: VariantIntervalCollection(
            [make_variant("snv", "none")],
            variant_collection_id="id1",
            sequence_name="chr",
            sequence_guid=UUID(int=3),
            guid=UUID(int=9),
            qualifiers={"q": ["1", "2"]},
        ).to_dict(),
    )


# ---------------------------------------------------------------------------------------------------------------------
# 4. incorporate_variants on Feature / CDS / Transcript / Gene / collections, alternative_haplotype_mapping
# ---------------------------------------------------------------------------------------------------------------------
TX_BLOCKS = [
    ([(6, 44)], None),
    ([(8, 14), (17, 26), (33, 44)], (9, 40)),
    ([(7, 12), (14, 17), (24, 29), (32, 41)], (10, 35)),
    ([(13, 16), (19, 22)], (13, 22)),
    ([(6, 10), (38, 44)], None),
    ([(31, 44)], (32, 44)),
]


def starts_ends(blocks):
    return [b[0] for b in blocks], [b[1] for b in blocks]


def make_feature(blocks, strand, pk, **kw):
    s, e = starts_ends(blocks)
    return FeatureInterval(
        s,
        e,
        strand,
        feature_types=["b_type", "a_type"],
        feature_name="feat",
        feature_id="fid",
        qualifiers={"note": ["x"]},
        sequence_name="chr",
        parent_or_seq_chunk_parent=PARENTS[pk](),
        **kw,
    )


def make_cds(blocks, strand, pk):
    s, e = starts_ends(blocks)
    return CDSInterval(
        s,
        e,
        strand,
        CDSInterval.construct_frames_from_location(
            SingleInterval(s[0], e[0], strand) if len(s) == 1 else CompoundInterval(s, e, strand), CDSFrame.TWO
        ),
        protein_id="prot",
        product="prod",
        qualifiers={"q": ["1"]},
        sequence_name="chr",
        parent_or_seq_chunk_parent=PARENTS[pk](),
    )


def make_tx(blocks, cds_range, strand, pk, primary=False):
    s, e = starts_ends(blocks)
    kw = {}
    if cds_range is not None:
        # intersect the exons with the CDS range
        cs, ce, frames = [], [], []
        for bs, be in blocks:
            lo, hi = max(bs, cds_range[0]), min(be, cds_range[1])
            if lo < hi:
                cs.append(lo)
                ce.append(hi)
        frames = CDSInterval.construct_frames_from_location(
            SingleInterval(cs[0], ce[0], strand) if len(cs) == 1 else CompoundInterval(cs, ce, strand), CDSFrame.ONE
        )
        kw = dict(cds_starts=cs, cds_ends=ce, cds_frames=frames)
    return TranscriptInterval(
        s,
        e,
        strand,
        transcript_id="tid",
        transcript_symbol="tsym",
        transcript_type=Biotype.protein_coding if cds_range else Biotype.ncRNA,
        protein_id="prot",
        product="prod",
        qualifiers={"tq": ["z"]},
        sequence_name="chr",
        is_primary_tx=primary,
        parent_or_seq_chunk_parent=PARENTS[pk](),
        **kw,
    )


def make_gene(pk, strand, subset=slice(None)):
    return GeneInterval(
        [make_tx(b, c, strand, pk, primary=(i == 0)) for i, (b, c) in enumerate(TX_BLOCKS[subset])],
        gene_id="gid",
        gene_symbol="gsym",
        gene_type=Biotype.protein_coding,
        locus_tag="lt",
        qualifiers={"gq": ["g"]},
        sequence_name="chr",
        parent_or_seq_chunk_parent=PARENTS[pk](),
    )


def make_feature_collection(pk, strand, subset=slice(None)):
    return FeatureIntervalCollection(
        [make_feature(b, strand, pk) for b, _ in TX_BLOCKS[subset]],
        feature_collection_name="fc",
        feature_collection_id="fcid",
        feature_collection_type="fctype",
        locus_tag="flt",
        sequence_name="chr",
        qualifiers={"fq": ["f"]},
        parent_or_seq_chunk_parent=PARENTS[pk](),
    )


def all_variant_objects(pk):
    for name in VARIANT_SPECS:
        yield name, (lambda name=name: make_variant(name, pk))
    for cname in COLLECTION_SPECS:
        yield cname, (lambda cname=cname: make_collection(cname, pk))


def run_incorporate():
    for pk in ("none", "plain", "chrom", "chunk"):
        for vname, vfn in all_variant_objects(pk):
            for strand in (Strand.PLUS, Strand.MINUS):
                for i, (blocks, cds_range) in enumerate(TX_BLOCKS):
                    key = f"inc/{pk}/{vname}/{strand.name}/{i}"
                    record(
                        key + "/feature",
                        lambda: describe_interval(make_feature(blocks, strand, pk).incorporate_variants(vfn())),
                    )
                    record(
                        key + "/tx",
                        lambda: describe_interval(make_tx(blocks, cds_range, strand, pk, i % 2 == 0).incorporate_variants(vfn())),
                    )
                    record(
                        key + "/cds",
                        lambda: describe_interval(make_cds(blocks, strand, pk).incorporate_variants(vfn())),
                    )
                key = f"inc/{pk}/{vname}/{strand.name}"
                record(key + "/gene", lambda: describe_interval(make_gene(pk, strand).incorporate_variants(vfn())))
                record(
                    key + "/gene_sub",
                    lambda: describe_interval(make_gene(pk, strand, slice(1, 3)).incorporate_variants(vfn())),
                )
                record(
                    key + "/fcoll",
                    lambda: describe_interval(make_feature_collection(pk, strand).incorporate_variants(vfn())),
                )

                def annot():
                    ac = AnnotationCollection(
                        [make_feature_collection(pk, strand, slice(0, 2))],
                        [make_gene(pk, strand, slice(1, 4)), make_gene(pk, strand, slice(0, 1))],
                        name="ac",
                        id="acid",
                        sequence_name="chr",
                        qualifiers={"aq": ["a"]},
                        parent_or_seq_chunk_parent=PARENTS[pk](),
                    )
                    new = ac.incorporate_variants(vfn())
                    return describe_interval(new) + f" map={new.alternative_haplotype_mapping}"

                record(key + "/annot", annot)
    # mixed chunk-ness: chromosome-relative variants applied to chunk-relative intervals and vice versa
    for vpk, ipk in (("chrom", "chunk"), ("chunk", "chrom"), ("none", "chunk"), ("chunk", "none")):
        for vname, vfn in all_variant_objects(vpk):
            record(
                f"incmix/{vpk}/{ipk}/{vname}/tx",
                lambda: describe_interval(
                    make_tx(TX_BLOCKS[1][0], TX_BLOCKS[1][1], Strand.MINUS, ipk).incorporate_variants(vfn())
                ),
            )
            record(
                f"incmix/{vpk}/{ipk}/{vname}/gene",
                lambda: describe_interval(make_gene(ipk, Strand.PLUS, slice(1, 3)).incorporate_variants(vfn())),
            )


class _FakeCgranges:
    """minimal stand-in for the optional cgranges package (linear scan), so that both code paths are exercised"""

    class cgranges:  # noqa: N801
        def __init__(self):
            self._ivs = []

        def add(self, name, start, end, label):
            self._ivs.append((name, start, end, label))

        def index(self):
            self._ivs.sort(key=lambda x: (x[1], x[2]))

        def overlap(self, name, start, end):
            for n, s, e, label in self._ivs:
                if n == name and s < end and start < e:
                    yield s, e, label


def run_haplotype_mapping():
    def build(pk, strand, collections, with_genes=True):
        ac = AnnotationCollection(
            [make_feature_collection(pk, strand, slice(0, 2)), make_feature_collection(pk, strand, slice(3, 4))],
            [make_gene(pk, strand, slice(1, 4)), make_gene(pk, strand, slice(4, 5)), make_gene(pk, strand, slice(5, 6))]
            if with_genes
            else None,
            [make_collection(c, pk, variant_collection_id=c) for c in collections] if collections else None,
            name="ac",
            sequence_name="chr",
            parent_or_seq_chunk_parent=PARENTS[pk](),
        )
        m = ac.alternative_haplotype_mapping
        if m is None:
            return "None"
        return f"{type(m).__name__} " + " ;; ".join(
            f"{k} -> [{' , '.join(describe_interval(x) for x in v)}]" for k, v in m.items()
        )

    collection_sets = [
        [],
        ["c1_snv"],
        ["c2_ins_del", "c3_unsorted"],
        ["c3_dels", "c1_snv", "c4_all"],
        ["c1_del", "c2_del_ins", "c4_abutting"],
        ["c3_unsorted", "c3_mixed"],
    ]
    for mode in ("nocgranges", "cgranges"):
        if mode == "cgranges":
            collections_mod.HAS_CGRANGES = True
            collections_mod.cgranges = _FakeCgranges
        try:
            for pk in ("none", "chrom", "chunk"):
                for strand in (Strand.PLUS, Strand.MINUS):
                    for i, cs in enumerate(collection_sets):
                        record(f"hapmap/{mode}/{pk}/{strand.name}/{i}", lambda: build(pk, strand, cs))
                    record(
                        f"hapmap/{mode}/{pk}/{strand.name}/nogenes", lambda: build(pk, strand, ["c3_mixed"], False)
                    )
        finally:
            if mode == "cgranges":
                collections_mod.HAS_CGRANGES = False
                del collections_mod.cgranges


# ---------------------------------------------------------------------------------------------------------------------
# 5. io/vcf/parser.convert_vcf_records_to_model with stand-ins for PyVCF and io.models
# ---------------------------------------------------------------------------------------------------------------------
def run_vcf():
    class _Schema:
        def load(self, d):
            return ("VariantIntervalCollectionModel", list(d.items()))

    class VariantIntervalCollectionModel:
        Schema = _Schema

    saved = {k: sys.modules.get(k) for k in ("vcf", "vcf.model", "inscripta.biocantor.io.models")}
    vcf_stub = types.ModuleType("vcf")
    vcf_model_stub = types.ModuleType("vcf.model")
    vcf_model_stub._Record = object
    vcf_stub.model = vcf_model_stub
    vcf_stub.Reader = lambda *a, **k: iter(())
    models_stub = types.ModuleType("inscripta.biocantor.io.models")
    models_stub.VariantIntervalCollectionModel = VariantIntervalCollectionModel
    sys.modules["vcf"] = vcf_stub
    sys.modules["vcf.model"] = vcf_model_stub
    sys.modules["inscripta.biocantor.io.models"] = models_stub
    try:
        from inscripta.biocantor.io.vcf.parser import convert_vcf_records_to_model
    finally:
        for k, v in saved.items():
            if v is None:
                sys.modules.pop(k, None)
            else:
                sys.modules[k] = v

    Phased = namedtuple("CallData", ["GT", "PS"])
    Unphased = namedtuple("CallData", ["GT"])
    Alt = namedtuple("Alt", ["sequence", "type"])

    def rec(chrom, pos, ref, alts, ps=None, n_samples=1, types_=None):
        data = Unphased("0/1") if ps is None else Phased("0|1", ps)
        sample = types.SimpleNamespace(data=data)
        # PyVCF: affected_start/end trim the padding base of indels
        if all(len(a) == len(ref) for a in alts):
            a_start, a_end = pos - 1, pos - 1 + len(ref)
        elif len(ref) == 1:
            a_start = a_end = pos  # pure insertion: empty affected interval
        else:
            a_start, a_end = pos, pos - 1 + len(ref)
        return types.SimpleNamespace(
            CHROM=chrom,
            POS=pos,
            samples=[sample] * n_samples,
            affected_start=a_start,
            affected_end=a_end,
            ALT=[Alt(a, (types_ or {}).get(a, "SNV" if len(a) == len(ref) else "indel")) for a in alts],
        )

    record_sets = {
        "empty": [],
        "one_snv": [rec("chr1", 5, "A", ["G"])],
        "multi_alt": [rec("chr1", 5, "A", ["G", "T", "AT"])],
        "phased": [
            rec("chr1", 5, "A", ["G"], ps=7),
            rec("chr1", 9, "AT", ["A"], ps=7),
            rec("chr1", 20, "C", ["CGG"], ps=3),
            rec("chr1", 30, "C", ["T"]),
            rec("chr1", 40, "CAAA", ["C", "CA"], ps=3),
        ],
        "two_chroms_interleaved": [
            rec("chr2", 5, "A", ["G"], ps=2),
            rec("chr1", 9, "AT", ["A"]),
            rec("chr2", 20, "C", ["CGG"], ps=1),
            rec("chr1", 30, "C", ["T"], ps=2),
            rec("chr2", 40, "C", ["T"]),
            rec("chr1", 44, "C", ["T"], ps=2),
            rec("chr3", 1, "G", ["GA"]),
        ],
        "multi_sample": [rec("chr1", 5, "A", ["G"], n_samples=3), rec("chr1", 6, "A", ["G"], ps=1, n_samples=2)],
        "unphased_only": [rec("chrX", p, "A", ["C"]) for p in (9, 3, 7, 3)],
        "phase_zero": [rec("chr1", 5, "A", ["G"], ps=0), rec("chr1", 8, "A", ["G"]), rec("chr1", 9, "A", ["C"], ps=0)],
    }
    for name, recs in record_sets.items():
        record(f"vcf/{name}", lambda: list(convert_vcf_records_to_model(recs).items()))
    record("vcf/no_samples", lambda: convert_vcf_records_to_model([rec("chr1", 5, "A", ["G"], n_samples=0)]))
    record("vcf/no_alt", lambda: convert_vcf_records_to_model([rec("chr1", 5, "A", [])]))


def main():
    mode, path = sys.argv[1], sys.argv[2]
    run_variant_basics()
    run_variant_liftover()
    run_collections()
    run_incorporate()
    run_haplotype_mapping()
    run_vcf()
    n_exc = sum(1 for v in RESULTS.values() if v.startswith("EXC:"))
    print(f"{len(RESULTS)} cases, {n_exc} of them raise")
    if mode == "save":
        with open(path, "w") as fh:
            json.dump(RESULTS, fh, indent=0, sort_keys=True)
        return 0
    with open(path) as fh:
        before = json.load(fh)
    bad = [k for k in sorted(set(before) | set(RESULTS)) if before.get(k) != RESULTS.get(k)]
    for k in bad[:40]:
        print("DIFF", k)
        print("   before:", str(before.get(k))[:600])
        print("   after :", str(RESULTS.get(k))[:600])
    print(f"compared {len(before)} cases: {len(bad)} differences")
    return 1 if bad else 0


if __name__ == "__main__":
    sys.exit(main())
