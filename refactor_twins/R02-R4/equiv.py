"""Equivalence harness for the location set algebra (property C02).

Usage (from the worktree root):

    /venv/bin/python _refactor/R4/equiv.py dump /tmp/pristine.json     # on the pristine checkout
    git apply _refactor/R4/patch.diff
    /venv/bin/python _refactor/R4/equiv.py dump /tmp/patched.json      # on the refactored checkout
    /venv/bin/python _refactor/R4/equiv.py compare /tmp/pristine.json /tmp/patched.json
    /venv/bin/python _refactor/R4/equiv.py show "<key>"                 # full (undigested) results of one key

Every result (or the exception type + message) of every operation is rendered to a string that
contains type, strand, blocks, length and repr(parent); the strings of one operand pair are
digested so that the JSON stays small. ``show`` prints the undigested strings.
"""
import hashlib
import itertools
import json
import os
import sys

if os.environ.get("PYTHONHASHSEED") != "0":
    # some error messages print a set of enum members; pin the hash seed so that they are reproducible
    os.environ["PYTHONHASHSEED"] = "0"
    os.execv(sys.executable, [sys.executable] + sys.argv)

sys.path.insert(0, os.getcwd())  # run from the worktree root

import inscripta.biocantor.location  # noqa: F401  (must be first: circular import otherwise)
from inscripta.biocantor import DistanceType
from inscripta.biocantor.location.location_impl import (
    SingleInterval,
    CompoundInterval,
    EmptyLocation,
    _union_preserve_overlaps,
)
from inscripta.biocantor.location.strand import Strand
from inscripta.biocantor.parent import Parent, SequenceType
from inscripta.biocantor.sequence import Sequence
from inscripta.biocantor.sequence.alphabet import Alphabet
from inscripta.biocantor.util.object_validation import ObjectValidation

GENOME = "ACGTTGCAAGCTTAGG"  # 16 nt
CHUNK = GENOME[2:14]  # 12 nt


def describe(obj):
    """Full structural rendering of a result."""
    if isinstance(obj, (bool, int, str)) or obj is None:
        return repr(obj)
    if isinstance(obj, (list, tuple)):
        return "[" + "; ".join(describe(x) for x in obj) + "]"
    if obj is EmptyLocation():
        return "EmptyLocation"
    if isinstance(obj, (SingleInterval, CompoundInterval)):
        blocks = ",".join(f"{b.start}-{b.end}:{b.strand}:{type(b).__name__}" for b in obj.blocks)
        block_parents = "|".join(repr(b.parent) for b in obj.blocks)
        return (
            f"{type(obj).__name__}(start={obj.start},end={obj.end},strand={obj.strand!r},len={len(obj)},"
            f"nblocks={obj.num_blocks},blocks=[{blocks}],str={obj!s},repr={obj!r},parent={obj.parent!r},"
            f"block_parents={block_parents})"
        )
    return f"{type(obj).__name__}:{obj!r}"


def attempt(fn):
    try:
        return describe(fn())
    except Exception as e:  # noqa
        return f"RAISES {type(e).__name__}: {e}"


# ---------------------------------------------------------------------------------------------
# operands
# ---------------------------------------------------------------------------------------------
def parents():
    seq = Sequence(GENOME, Alphabet.NT_STRICT, id="chr1", type=SequenceType.CHROMOSOME)
    seq_other = Sequence(GENOME, Alphabet.NT_STRICT, id="chr2", type=SequenceType.CHROMOSOME)
    chunk_parent = Parent(
        id="chr1:2-14",
        sequence_type=SequenceType.SEQUENCE_CHUNK,
        sequence=Sequence(
            CHUNK,
            Alphabet.NT_STRICT,
            id="chr1:2-14",
            type=SequenceType.SEQUENCE_CHUNK,
            parent=Parent(
                id="chr1",
                sequence_type=SequenceType.CHROMOSOME,
                location=SingleInterval(2, 14, Strand.PLUS, parent=Parent(id="chr1", sequence_type="chromosome")),
            ),
        ),
    )
    return {
        "none": None,
        "seq": seq,
        "id": Parent(id="chr1"),
        "idtype": Parent(id="chr1", sequence_type=SequenceType.CHROMOSOME),
        "other": seq_other,
        "chunk": chunk_parent,
    }


# (starts, ends); single element => SingleInterval
SHAPES_FULL = [
    ((0,), (0,)),
    ((3,), (3,)),
    ((0,), (4,)),
    ((2,), (5,)),
    ((4,), (9,)),
    ((5,), (6,)),
    ((0,), (12,)),
    ((9,), (12,)),
    ((0, 4), (2, 6)),
    ((0, 5), (3, 9)),
    ((2, 6, 10), (4, 8, 12)),
    ((1, 4, 8), (3, 7, 11)),
    ((0, 3), (3, 6)),  # adjacent blocks
    ((0, 2), (5, 7)),  # overlapping blocks
    ((1, 2), (9, 4)),  # nested blocks
    ((2, 2, 6), (2, 5, 9)),  # contains an empty block
    ((3, 7), (3, 7)),  # only empty blocks
    ((5, 0, 9), (7, 3, 12)),  # unsorted input
    ((0, 2, 4, 6, 8), (1, 3, 5, 7, 9)),
    ((4,), (4,)),
    ((0, 0), (4, 8)),  # same start
    ((0, 6), (6, 12)),
    ((1, 5, 5), (4, 5, 10)),
    ((7,), (12,)),
    ((3, 8), (5, 10)),
]
SHAPES_PARENTED = [
    ((0,), (4,)),
    ((2,), (7,)),
    ((5,), (5,)),
    ((6,), (12,)),
    ((0, 5), (3, 9)),
    ((2, 6, 10), (4, 8, 12)),
    ((0, 3), (3, 6)),
    ((0, 2), (5, 7)),
    ((2, 2, 6), (2, 5, 9)),
    ((1, 8), (4, 11)),
]
STRANDS = [Strand.PLUS, Strand.MINUS, Strand.UNSTRANDED]


def make(shape, strand, parent):
    starts, ends = shape
    if len(starts) == 1:
        return SingleInterval(starts[0], ends[0], strand, parent)
    return CompoundInterval(list(starts), list(ends), strand, parent)


def operands():
    ps = parents()
    ops = {}
    for shape in SHAPES_FULL:
        for strand in STRANDS:
            ops[f"{shape}|{strand.name}|none"] = make(shape, strand, None)
    for pname in ("seq", "id", "idtype", "other", "chunk"):
        for shape in SHAPES_PARENTED:
            for strand in (Strand.PLUS, Strand.MINUS):
                ops[f"{shape}|{strand.name}|{pname}"] = make(shape, strand, ps[pname])
    ops["EMPTY"] = EmptyLocation()
    return ops


# ---------------------------------------------------------------------------------------------
# operations
# ---------------------------------------------------------------------------------------------
BOOLS = (False, True)


def unary_results(a):
    res = {}
    for name in (
        "optimize_blocks",
        "optimize_and_combine_blocks",
        "gap_list",
        "gaps_location",
        "merge_overlapping",
        "reverse",
        "reverse_strand",
    ):
        if hasattr(a, name):
            res[name] = attempt(lambda: getattr(a, name)())
    for name in ("is_overlapping", "is_contiguous", "is_empty", "num_blocks", "_full_span_interval", "blocks"):
        res[name] = attempt(lambda: getattr(a, name))
    if hasattr(a, "_combine_blocks"):
        for flag in BOOLS:
            res[f"_combine_blocks({flag})"] = attempt(lambda: a._combine_blocks(flag))
    for ext in ((0, 0), (0, 3), (2, 0), (1, 2), (4, 4), (-1, 2), (2, -1), (20, 0), (0, 20)):
        res[f"extend_absolute{ext}"] = attempt(lambda: a.extend_absolute(*ext))
        res[f"extend_relative{ext}"] = attempt(lambda: a.extend_relative(*ext))
    res["scan_blocks"] = attempt(lambda: list(a.scan_blocks()))
    res["hash_eq_self"] = attempt(lambda: (a == a, hash(a) == hash(a)))
    return res


def binary_results(a, b):
    res = {}
    for ms, fs, sp in itertools.product(BOOLS, BOOLS, BOOLS):
        res[f"has_overlap({ms},{fs},{sp})"] = attempt(
            lambda: a.has_overlap(b, match_strand=ms, full_span=fs, strict_parent_compare=sp)
        )
        res[f"intersection({ms},{fs},{sp})"] = attempt(
            lambda: a.intersection(b, match_strand=ms, full_span=fs, strict_parent_compare=sp)
        )
        res[f"contains({ms},{fs},{sp})"] = attempt(
            lambda: a.contains(b, match_strand=ms, full_span=fs, strict_parent_compare=sp)
        )
    res["has_overlap(default)"] = attempt(lambda: a.has_overlap(b))
    res["intersection(default)"] = attempt(lambda: a.intersection(b))
    res["contains(default)"] = attempt(lambda: a.contains(b))
    res["minus(default)"] = attempt(lambda: a.minus(b))
    for ms, sp in itertools.product(BOOLS, BOOLS):
        res[f"minus({ms},{sp})"] = attempt(lambda: a.minus(b, match_strand=ms, strict_parent_compare=sp))
    res["union"] = attempt(lambda: a.union(b))
    res["union_preserve_overlaps"] = attempt(lambda: a.union_preserve_overlaps(b))
    res["_union_preserve_overlaps"] = attempt(lambda: _union_preserve_overlaps(a, b))
    res["distance_to(default)"] = attempt(lambda: a.distance_to(b))
    for dt in DistanceType:
        res[f"distance_to({dt.name})"] = attempt(lambda: a.distance_to(b, dt))
    res["distance_to(bogus)"] = attempt(lambda: a.distance_to(b, "inner"))
    res["eq"] = attempt(lambda: a == b)
    res["location_relative_to"] = attempt(lambda: a.location_relative_to(b))
    res["req_parents_equal"] = attempt(
        lambda: ObjectValidation.require_parents_equal_except_location(a.parent, b.parent)
    )
    res["req_overlap"] = attempt(lambda: ObjectValidation.require_locations_overlap(a, b, match_strand=True))
    res["req_no_overlap"] = attempt(lambda: ObjectValidation.require_locations_do_not_overlap(a, b))
    res["req_same_nonempty_parent"] = attempt(
        lambda: ObjectValidation.require_locations_have_same_nonempty_parent(a, b)
    )
    return res


def constructor_results():
    ps = parents()
    res = {}
    cases = [(-1, 3), (3, 2), (0, 16), (0, 17), (5, 13), (12, 12), (13, 13), (0, 0), (16, 16), (17, 17)]
    for (s, e), strand, pname in itertools.product(cases, STRANDS, ps):
        res[f"SingleInterval({s},{e},{strand.name},{pname})"] = attempt(
            lambda: SingleInterval(s, e, strand, ps[pname])
        )
    ccases = [
        ((), ()),
        ((1,), ()),
        ((1, 2), (3,)),
        ((-1, 4), (2, 6)),
        ((4, 1), (6, 0)),
        ((0, 5), (3, 17)),
        ((0, 5), (3, 16)),
        ((0, 5), (3, 13)),
        ((5, 0), (9, 3)),
        ((0, 0), (5, 3)),
        ((3,), (8,)),
        ((2, 2), (2, 2)),
        ((1, -1), (2, -3)),
    ]
    for (ss, ee), strand, pname in itertools.product(ccases, STRANDS, ps):
        for ctor in (list, tuple):
            res[f"CompoundInterval({ctor.__name__}{ss},{ee},{strand.name},{pname})"] = attempt(
                lambda: CompoundInterval(ctor(ss), ctor(ee), strand, ps[pname])
            )
            res[f"CompoundInterval({ctor.__name__}{ss},{ee},{strand.name},{pname}).blocks"] = attempt(
                lambda: CompoundInterval(ctor(ss), ctor(ee), strand, ps[pname]).blocks
            )
    res["from_single_intervals([])"] = attempt(lambda: CompoundInterval.from_single_intervals([]))
    res["from_single_intervals(mixed strand)"] = attempt(
        lambda: CompoundInterval.from_single_intervals(
            [SingleInterval(0, 2, Strand.PLUS), SingleInterval(3, 5, Strand.MINUS)]
        )
    )
    res["from_single_intervals(mixed parent)"] = attempt(
        lambda: CompoundInterval.from_single_intervals(
            [SingleInterval(0, 2, Strand.PLUS, ps["id"]), SingleInterval(3, 5, Strand.PLUS, ps["other"])]
        )
    )
    res["_merge_compound_blocks([])"] = attempt(lambda: CompoundInterval._merge_compound_blocks([]))
    res["_merge_compound_blocks(one)"] = attempt(
        lambda: CompoundInterval._merge_compound_blocks([SingleInterval(0, 2, Strand.PLUS)])
    )
    for name, fn in [
        ("nonempty0", lambda: ObjectValidation.require_location_nonempty(SingleInterval(2, 2, Strand.PLUS))),
        ("nonempty1", lambda: ObjectValidation.require_location_nonempty(SingleInterval(2, 3, Strand.PLUS))),
        ("has_parent", lambda: ObjectValidation.require_location_has_parent(SingleInterval(2, 3, Strand.PLUS))),
        (
            "has_parent_seq",
            lambda: ObjectValidation.require_location_has_parent_with_sequence(
                SingleInterval(2, 3, Strand.PLUS, ps["id"])
            ),
        ),
        ("parent_has_loc", lambda: ObjectValidation.require_parent_has_location(ps["id"])),
        ("parent_has_parent", lambda: ObjectValidation.require_parent_has_parent(ps["id"])),
        (
            "parent_has_parent_loc",
            lambda: ObjectValidation.require_parent_has_parent_with_location(ps["chunk"]),
        ),
        (
            "parents_eq_loc_seq",
            lambda: ObjectValidation.require_parents_equal_except_location_and_sequence(ps["id"], ps["other"]),
        ),
        ("type_ok", lambda: ObjectValidation.require_object_has_type(SingleInterval(0, 1, Strand.PLUS), SingleInterval)),
        ("type_bad", lambda: ObjectValidation.require_object_has_type(EmptyLocation(), SingleInterval)),
        ("type_bad2", lambda: ObjectValidation.require_object_has_type(True, int)),
    ]:
        res[f"ObjectValidation.{name}"] = attempt(fn)
    e = EmptyLocation()
    for name in (
        "length", "strand", "start", "end", "parent", "is_contiguous", "is_empty", "blocks", "num_blocks",
        "is_overlapping", "_full_span_interval",
    ):
        res[f"EMPTY.{name}"] = attempt(lambda: getattr(e, name))
    res["EMPTY singleton"] = attempt(lambda: (EmptyLocation() is EmptyLocation(), str(e), repr(e), hash(e) == hash(e)))
    return res


def r4_extra_results():
    """Extra cases for ObjectValidation (every function, passing and failing, messages compared), the
    EmptyLocation singleton and Location.contains with non-bool flags"""
    ps = parents()
    res = {}
    located = {name: SingleInterval(1, 6, Strand.MINUS, p).parent for name, p in ps.items() if p is not None}
    chunk_loc = SingleInterval(2, 5, Strand.PLUS, ps["chunk"])
    all_parents = dict(ps)
    all_parents.update({f"{k}+loc": v for k, v in located.items()})
    all_parents["chunk.seq.parent"] = ps["chunk"].sequence.parent
    all_parents["chunkloc.parent"] = chunk_loc.parent
    from inscripta.biocantor.parent import make_parent

    objs = {k: (make_parent(v) if v is not None else None) for k, v in all_parents.items()}
    for (k1, p1), (k2, p2) in itertools.product(objs.items(), objs.items()):
        res[f"parents_equal_except_location({k1},{k2})"] = attempt(
            lambda: ObjectValidation.require_parents_equal_except_location(p1, p2)
        )
        res[f"parents_equal_except_location_and_sequence({k1},{k2})"] = attempt(
            lambda: ObjectValidation.require_parents_equal_except_location_and_sequence(p1, p2)
        )
    for k, p in objs.items():
        if p is None:
            continue
        res[f"parent_has_location({k})"] = attempt(lambda: ObjectValidation.require_parent_has_location(p))
        res[f"parent_has_parent({k})"] = attempt(lambda: ObjectValidation.require_parent_has_parent(p))
        res[f"parent_has_parent_with_location({k})"] = attempt(
            lambda: ObjectValidation.require_parent_has_parent_with_location(p)
        )
    ops = operands()
    for k, loc in ops.items():
        res[f"location_nonempty({k})"] = attempt(lambda: ObjectValidation.require_location_nonempty(loc))
        res[f"location_has_parent({k})"] = attempt(lambda: ObjectValidation.require_location_has_parent(loc))
        res[f"location_has_parent_with_sequence({k})"] = attempt(
            lambda: ObjectValidation.require_location_has_parent_with_sequence(loc)
        )
        for required in (SingleInterval, CompoundInterval, int):
            res[f"object_has_type({k},{required.__name__})"] = attempt(
                lambda: ObjectValidation.require_object_has_type(loc, required)
            )
    # non-bool flag values take the same branches as before
    a = CompoundInterval([0, 6], [4, 10], Strand.PLUS)
    for b in (SingleInterval(1, 3, Strand.PLUS), SingleInterval(3, 7, Strand.MINUS), CompoundInterval([1, 7], [2, 9], Strand.PLUS)):
        for fs in (False, True, 0, 1, None):
            for ms in (False, True, 0, 1):
                res[f"contains({b!r},{ms!r},{fs!r})"] = attempt(lambda: a.contains(b, ms, fs))
                res[f"contains_rev({b!r},{ms!r},{fs!r})"] = attempt(lambda: b.contains(a, ms, fs))
    from inscripta.biocantor.location import location_impl

    saved_singleton = location_impl._EmptyLocation._instance
    location_impl._EmptyLocation._instance = None
    first = EmptyLocation()
    res["EmptyLocation() re-created lazily"] = attempt(
        lambda: (first is EmptyLocation(), location_impl._EmptyLocation._instance is first, type(first).__name__)
    )
    # put the original singleton back: the operands of the pair matrix hold a reference to it
    location_impl._EmptyLocation._instance = saved_singleton
    res["EmptyLocation() restored"] = attempt(lambda: EmptyLocation() is saved_singleton and ops["EMPTY"] is EmptyLocation())
    return res


def digest(res):
    h = hashlib.sha1()
    for k in sorted(res):
        h.update(f"{k} => {res[k]}\n".encode())
    return h.hexdigest()[:20]


def compute(only_key=None):
    ops = operands()
    out = {}

    def want(key):
        return only_key is None or key == only_key

    if want("CONSTRUCTORS"):
        out["CONSTRUCTORS"] = constructor_results()
    if want("R4EXTRA"):
        out["R4EXTRA"] = r4_extra_results()
    for ka, a in ops.items():
        key = f"UNARY::{ka}"
        if want(key):
            out[key] = unary_results(a)
    for (ka, a), (kb, b) in itertools.product(ops.items(), ops.items()):
        key = f"PAIR::{ka}::{kb}"
        if want(key):
            out[key] = binary_results(a, b)
    return out


def main():
    mode = sys.argv[1]
    if mode == "dump":
        full = compute()
        n_results = sum(len(v) for v in full.values())
        n_raises = sum(1 for v in full.values() for r in v.values() if r.startswith("RAISES"))
        with open(sys.argv[2], "w") as fh:
            json.dump({k: digest(v) for k, v in full.items()}, fh, indent=0, sort_keys=True)
        print(f"{len(full)} keys, {n_results} individual results ({n_raises} of them exceptions) -> {sys.argv[2]}")
    elif mode == "compare":
        a = json.load(open(sys.argv[2]))
        b = json.load(open(sys.argv[3]))
        bad = sorted(k for k in set(a) | set(b) if a.get(k) != b.get(k))
        print(f"{len(a)} vs {len(b)} keys; {len(bad)} differ")
        for k in bad[:20]:
            print("  DIFF", k)
        sys.exit(1 if bad else 0)
    elif mode == "show":
        for k, v in compute(sys.argv[2]).items():
            for kk in sorted(v):
                print(f"{kk} => {v[kk]}")
    else:
        raise SystemExit(__doc__)


if __name__ == "__main__":
    main()
