"""
Equivalence harness for property C20 (gene / collection aggregates).

Usage (from the worktree root, PYTHONHASHSEED fixed so raw set orders are comparable):

    PYTHONHASHSEED=0 /venv/bin/python _refactor/RX/equiv.py dump _refactor/tmp/pristine.json   # on pristine
    git apply _refactor/RX/patch.diff
    PYTHONHASHSEED=0 /venv/bin/python _refactor/RX/equiv.py dump _refactor/tmp/patched.json
    /venv/bin/python _refactor/RX/equiv.py compare _refactor/tmp/pristine.json _refactor/tmp/patched.json

The dump builds a few hundred genes, feature collections and annotation collections (both strands, multi block,
coding / non-coding mixes, none / one / several primary flags, ties in CDS and spliced length, no parent /
chromosome parent / sequence chunk parent) and records every observable named by the property.
"""
import os
import sys

sys.path.insert(0, os.getcwd())  # run from the worktree root

import inscripta.biocantor.location  # noqa: F401,E402  (must come first, circular import otherwise)

import json  # noqa: E402
import random  # noqa: E402
import types  # noqa: E402

from inscripta.biocantor.gene.cds_frame import CDSFrame
from inscripta.biocantor.gene.biotype import Biotype
from inscripta.biocantor.gene.collections import AnnotationCollection
from inscripta.biocantor.gene.feature import FeatureInterval, FeatureIntervalCollection
from inscripta.biocantor.gene.gene import GeneInterval
from inscripta.biocantor.gene.interval import AbstractFeatureIntervalCollection
from inscripta.biocantor.gene.transcript import TranscriptInterval
from inscripta.biocantor.gene.variants import VariantInterval, VariantIntervalCollection
from inscripta.biocantor.location import SingleInterval, Strand, CompoundInterval
from inscripta.biocantor.parent import Parent, SequenceType
from inscripta.biocantor.sequence import Sequence, Alphabet

GENOME_LEN = 240
_rng = random.Random(20)
GENOME = "".join(_rng.choice("ACGT") for _ in range(GENOME_LEN))


# --- copies of io.parser helpers (that module cannot be imported here) -------------------------------------------
def seq_to_parent(seq, alphabet=Alphabet.NT_EXTENDED_GAPPED, seq_id=None, seq_type=SequenceType.CHROMOSOME):
    return Parent(
        sequence=Sequence(seq, alphabet, type=seq_type, id=seq_id), location=SingleInterval(0, len(seq), Strand.PLUS)
    )


def seq_chunk_to_parent(seq, sequence_name, start, end, strand=Strand.PLUS, alphabet=Alphabet.NT_EXTENDED_GAPPED):
    chunk_id = f"{sequence_name}:{start}-{end}"
    return Parent(
        id=chunk_id,
        sequence=Sequence(
            seq,
            alphabet,
            id=chunk_id,
            type=SequenceType.SEQUENCE_CHUNK,
            parent=Parent(
                location=SingleInterval(
                    start,
                    end,
                    strand,
                    parent=Parent(id=sequence_name, sequence_type=SequenceType.CHROMOSOME),
                )
            ),
        ),
    )


def make_parent(kind):
    if kind == "none":
        return None
    if kind == "chrom":
        return seq_to_parent(GENOME, seq_id="chr1")
    if kind == "chunk_all":
        return seq_chunk_to_parent(GENOME, "chr1", 0, GENOME_LEN)
    if kind == "chunk_mid":
        return seq_chunk_to_parent(GENOME[40:200], "chr1", 40, 200)
    if kind == "chunk_small":
        return seq_chunk_to_parent(GENOME[90:150], "chr1", 90, 150)
    raise ValueError(kind)


PARENT_KINDS = ["none", "chrom", "chunk_all", "chunk_mid", "chunk_small"]


# --- observation helpers -----------------------------------------------------------------------------------------
def jsonable(x):
    return json.loads(json.dumps(x, default=str, sort_keys=True))


def attempt(fn):
    try:
        val = fn()
    except Exception as e:  # noqa: BLE001
        return {"exc": type(e).__name__, "msg": str(e)}
    if isinstance(val, types.GeneratorType):
        val = ["<generator>"] + [repr(v) for v in val]
    return {"ok": val}


def describe_interval(obj):
    """Observable description of a FeatureInterval/TranscriptInterval/CDSInterval/Sequence or None."""
    if obj is None:
        return None
    out = {"type": type(obj).__name__, "repr": repr(obj), "str": str(obj)}
    if hasattr(obj, "to_dict"):
        out["to_dict"] = attempt(lambda: jsonable(obj.to_dict()))
        out["to_dict_chunk"] = attempt(lambda: jsonable(obj.to_dict(chromosome_relative_coordinates=False)))
    if hasattr(obj, "chunk_relative_location"):
        out["chunk_loc"] = attempt(lambda: str(obj.chunk_relative_location))
        out["chrom_loc"] = attempt(lambda: str(obj.chromosome_location))
        out["blocks"] = attempt(lambda: [(b.start, b.end, str(b.strand)) for b in obj.chromosome_location.blocks])
    if hasattr(obj, "feature_types"):
        out["feature_types_sorted"] = sorted(obj.feature_types)
        out["feature_types_raw"] = list(obj.feature_types)
    if hasattr(obj, "guid"):
        out["guid"] = str(obj.guid)
    return out


def ident(children, member):
    for i, c in enumerate(children):
        if c is member:
            return i
    return None


# --- random model builders ---------------------------------------------------------------------------------------
def rand_blocks(rng, lo, hi, max_blocks=4, allow_zero=False):
    n = rng.randint(1, max_blocks)
    points = sorted(rng.sample(range(lo, hi), 2 * n))
    starts = points[0::2]
    ends = points[1::2]
    return starts, ends


def cds_from_exons(rng, starts, ends):
    """Pick a CDS sub-range of the exon blocks."""
    positions = []
    for s, e in zip(starts, ends):
        positions.extend(range(s, e))
    if len(positions) < 3:
        return None
    a = rng.randrange(0, len(positions) - 1)
    b = rng.randrange(a + 1, len(positions) + 1)
    lo, hi = positions[a], positions[b - 1] + 1
    cs, ce = [], []
    for s, e in zip(starts, ends):
        s2, e2 = max(s, lo), min(e, hi)
        if s2 < e2:
            cs.append(s2)
            ce.append(e2)
    return cs, ce


def rand_transcript(rng, idx, parent_kind, lo, hi, coding_p=0.6, primary=None, fixed=None, strands=None):
    if fixed is not None:
        starts, ends, strand, cds = fixed
    else:
        starts, ends = rand_blocks(rng, lo, hi)
        strand = rng.choice(strands or [Strand.PLUS, Strand.MINUS])
        cds = cds_from_exons(rng, starts, ends) if rng.random() < coding_p else None
    kwargs = {}
    if cds:
        cs, ce = cds
        kwargs = dict(
            cds_starts=cs,
            cds_ends=ce,
            cds_frames=[rng.choice([CDSFrame.ZERO, CDSFrame.ONE, CDSFrame.TWO]) for _ in cs],
        )
    return TranscriptInterval(
        exon_starts=starts,
        exon_ends=ends,
        strand=strand,
        is_primary_tx=primary,
        transcript_id=f"tx{idx}",
        transcript_symbol=f"sym{idx}",
        transcript_type=rng.choice([None, Biotype.protein_coding, Biotype.lncRNA]),
        qualifiers={"note": [f"n{idx}"]} if rng.random() < 0.5 else None,
        sequence_name="chr1",
        parent_or_seq_chunk_parent=make_parent(parent_kind),
        **kwargs,
    )


FTYPES = ["promoter", "enhancer", "tfbs", "repeat", "misc", "a", "b", "operator", "terminator", "CpG"]


def rand_feature(rng, idx, parent_kind, lo, hi, primary=None, fixed=None, strands=None):
    if fixed is not None:
        starts, ends, strand = fixed
    else:
        starts, ends = rand_blocks(rng, lo, hi)
        strand = rng.choice(strands or [Strand.PLUS, Strand.MINUS, Strand.UNSTRANDED])
    return FeatureInterval(
        interval_starts=starts,
        interval_ends=ends,
        strand=strand,
        is_primary_feature=primary,
        feature_id=f"f{idx}",
        feature_name=f"fn{idx}",
        feature_types=rng.sample(FTYPES, rng.randint(0, 4)) or None,
        qualifiers={"k": [f"v{idx}", "shared"]} if rng.random() < 0.5 else None,
        sequence_name="chr1",
        parent_or_seq_chunk_parent=make_parent(parent_kind),
    )


def primary_flags(rng, n):
    mode = rng.choice(["none", "none", "one", "one", "several", "false"])
    if mode == "none":
        return [None] * n
    if mode == "false":
        return [False] * n
    flags = [None] * n
    k = 1 if mode == "one" else min(n, rng.randint(2, 3))
    for i in rng.sample(range(n), k):
        flags[i] = True
    return flags


def region_for(parent_kind):
    return {"chunk_mid": (45, 195), "chunk_small": (92, 148)}.get(parent_kind, (2, GENOME_LEN - 2))


# --- observations on aggregates ----------------------------------------------------------------------------------
def observe_gene(gene):
    txs = gene.transcripts
    out = {
        "repr": repr(gene),
        "start": gene.start,
        "end": gene.end,
        "genomic_start": gene.genomic_start,
        "genomic_end": gene.genomic_end,
        "bin": gene.bin,
        "loc": str(gene.chunk_relative_location),
        "chrom_loc": attempt(lambda: str(gene.chromosome_location)),
        "is_coding": gene.is_coding,
        "guid": str(gene.guid),
        "guid_map_keys": [str(k) for k in gene.guid_map],
        "guid_map_vals": [ident(txs, v) for v in gene.guid_map.values()],
        "children_guids": sorted(str(g) for g in gene.children_guids),
        "iter": [ident(txs, t) for t in gene.iter_children()],
        "iter2": [ident(txs, t) for t in gene],
        "primary_idx": ident(txs, gene.primary_transcript),
        "get_primary_transcript": ident(txs, gene.get_primary_transcript()),
        "get_primary_feature": ident(txs, gene.get_primary_feature()),
        "to_dict": attempt(lambda: jsonable(gene.to_dict())),
        "to_dict_chunk": attempt(lambda: jsonable(gene.to_dict(chromosome_relative_coordinates=False))),
        "export_qualifiers": attempt(lambda: jsonable({k: sorted(v) for k, v in gene.export_qualifiers().items()})),
        "id_name": [gene.id, gene.name, str(gene.identifiers)],
    }
    for name in [
        "get_primary_cds",
        "get_primary_transcript_sequence",
        "get_primary_feature_sequence",
        "get_primary_cds_sequence",
        "get_primary_protein",
        "get_merged_feature",
        "get_merged_transcript",
        "get_merged_cds",
        "get_reference_sequence",
    ]:
        out[name] = attempt(lambda: describe_interval(getattr(gene, name)()))
    out["primary_cds_is"] = attempt(lambda: gene.get_primary_cds() is gene.primary_transcript.cds)
    return out


def observe_fcoll(fc):
    feats = fc.feature_intervals
    out = {
        "repr": repr(fc),
        "start": fc.start,
        "end": fc.end,
        "genomic_start": fc.genomic_start,
        "genomic_end": fc.genomic_end,
        "bin": fc.bin,
        "loc": str(fc.chunk_relative_location),
        "chrom_loc": attempt(lambda: str(fc.chromosome_location)),
        "is_coding": fc.is_coding,
        "guid": str(fc.guid),
        "feature_types_sorted": sorted(fc.feature_types),
        "feature_types_raw": list(fc.feature_types),
        "feature_types_type": type(fc.feature_types).__name__,
        "feature_types_alias": [fc.feature_types is f.feature_types for f in feats],
        "guid_map_keys": [str(k) for k in fc.guid_map],
        "guid_map_vals": [ident(feats, v) for v in fc.guid_map.values()],
        "children_guids": sorted(str(g) for g in fc.children_guids),
        "iter": [ident(feats, t) for t in fc.iter_children()],
        "primary_idx": ident(feats, fc.primary_feature),
        "get_primary_feature": ident(feats, fc.get_primary_feature()),
        "to_dict": attempt(lambda: jsonable(fc.to_dict())),
        "to_dict_chunk": attempt(lambda: jsonable(fc.to_dict(chromosome_relative_coordinates=False))),
        "export_qualifiers": attempt(lambda: jsonable({k: sorted(v) for k, v in fc.export_qualifiers().items()})),
        "id_name": [fc.id, fc.name, str(fc.identifiers)],
    }
    for name in ["get_primary_feature_sequence", "get_merged_feature", "get_reference_sequence"]:
        out[name] = attempt(lambda: describe_interval(getattr(fc, name)()))
    return out


def observe_acoll(ac, pool):
    out = {
        "repr": repr(ac),
        "has_start": hasattr(ac, "start"),
        "start": getattr(ac, "start", "<unset>"),
        "end": getattr(ac, "end", "<unset>"),
        "bin": getattr(ac, "bin", "<unset>"),
        "loc": str(ac._location),
        "loc_type": type(ac._location).__name__,
        "chunk_loc": attempt(lambda: str(ac.chunk_relative_location)),
        "chrom_loc": attempt(lambda: str(ac.chromosome_location)),
        "len": len(ac),
        "is_empty": ac.is_empty,
        "bool": bool(ac),
        "completely_within": ac.completely_within,
        "sequence": repr(ac.sequence),
        "guid": str(ac.guid),
        "guid_map_keys": [str(k) for k in ac.guid_map],
        "guid_map_vals": [ident(pool, v) for v in ac.guid_map.values()],
        "children_guids": sorted(str(g) for g in ac.children_guids),
        "children": [ident(pool, c) for c in ac.children],
        "children_cached": ac.children is ac.children,
        "children_type": type(ac.children).__name__,
        "non_variant_children": [ident(pool, c) for c in ac.non_variant_children],
        "nvc_cached": ac.non_variant_children is ac.non_variant_children,
        "iter_children": [ident(pool, c) for c in ac.iter_children()],
        "iter_children_type": type(ac.iter_children()).__name__,
        "iter": [ident(pool, c) for c in ac],
        "iter_non_variant": [ident(pool, c) for c in ac.iter_non_variant_children()],
        "starts": [c.start for c in ac],
        "hier": attempt(
            lambda: {str(k): sorted(str(x) for x in v) for k, v in ac.hierarchical_children_guids.items()}
        ),
        "to_dict": attempt(lambda: jsonable(ac.to_dict())),
        "alt_map": attempt(
            lambda: None
            if ac.alternative_haplotype_mapping is None
            else {str(k): [repr(x) for x in v] for k, v in ac.alternative_haplotype_mapping.items()}
        ),
        "id_name": [ac.id, ac.name],
    }
    return out


# --- the scenario list -------------------------------------------------------------------------------------------
def scenarios():
    results = {}
    rng = random.Random(2020)

    # 1. direct calls of the shared primary finder
    def direct_primary(label, build):
        def run():
            ivs = build()
            got = AbstractFeatureIntervalCollection._find_primary_feature(ivs)
            return ident(ivs, got)

        results[f"direct/{label}"] = attempt(run)

    direct_primary("empty", lambda: [])
    direct_primary("zero_len_flag_then_flag", lambda: [
        FeatureInterval([5], [5], Strand.PLUS, is_primary_feature=True),
        FeatureInterval([5], [9], Strand.PLUS, is_primary_feature=True),
    ])
    direct_primary("flag_then_zero_len_flag", lambda: [
        FeatureInterval([5], [9], Strand.PLUS, is_primary_feature=True),
        FeatureInterval([5], [5], Strand.PLUS, is_primary_feature=True),
    ])
    direct_primary("only_zero_len_flag", lambda: [
        FeatureInterval([1], [9], Strand.PLUS),
        FeatureInterval([5], [5], Strand.PLUS, is_primary_feature=True),
    ])
    direct_primary("zero_zero_real", lambda: [
        FeatureInterval([5], [5], Strand.PLUS, is_primary_feature=True),
        FeatureInterval([6], [6], Strand.MINUS, is_primary_feature=True),
        FeatureInterval([1], [9], Strand.PLUS, is_primary_feature=True),
        FeatureInterval([1], [19], Strand.PLUS),
    ])
    for k in range(40):
        def build(k=k):
            r = random.Random(1000 + k)
            n = r.randint(1, 6)
            flags = primary_flags(r, n)
            mixed = []
            for i in range(n):
                if r.random() < 0.5:
                    mixed.append(rand_feature(r, i, "none", 0, 60, primary=flags[i]))
                else:
                    mixed.append(rand_transcript(r, i, "none", 0, 60, primary=flags[i]))
            return mixed

        direct_primary(f"mixed{k}", build)

    # 2. genes
    def gene_case(label, build):
        def run():
            gene = build()
            return observe_gene(gene)

        results[f"gene/{label}"] = attempt(run)

    # hand-made ties
    tie_sets = {
        "cds_tie_len_diff": [
            ([10, 30], [20, 40], Strand.PLUS, ([12], [18])),
            ([5, 30], [20, 45], Strand.MINUS, ([12], [18])),
            ([10, 30], [20, 40], Strand.PLUS, ([31], [37])),
        ],
        "cds_tie_len_tie": [
            ([10, 30], [20, 40], Strand.PLUS, ([12], [18])),
            ([11, 31], [21, 41], Strand.MINUS, ([13], [19])),
            ([12, 32], [22, 42], Strand.PLUS, ([14], [20])),
        ],
        "noncoding_longer_than_coding": [
            ([0], [100], Strand.PLUS, None),
            ([10, 30], [20, 40], Strand.MINUS, ([12, 30], [20, 33])),
            ([0], [100], Strand.MINUS, None),
        ],
        "all_noncoding_tie": [
            ([10], [20], Strand.PLUS, None),
            ([30], [40], Strand.MINUS, None),
            ([5, 50], [10, 55], Strand.PLUS, None),
        ],
        "later_longer_cds": [
            ([10, 30], [20, 40], Strand.PLUS, ([12], [15])),
            ([10, 30], [20, 40], Strand.PLUS, ([12, 30], [20, 38])),
            ([10, 30], [20, 40], Strand.MINUS, ([12, 30], [20, 38])),
        ],
        "single": [([3, 9, 50], [6, 30, 70], Strand.MINUS, ([10, 50], [30, 61]))],
    }
    for tlabel, spec in tie_sets.items():
        for pk in PARENT_KINDS[:3]:
            for flagmode in ["none", "last", "two", "false"]:
                def build(spec=spec, pk=pk, flagmode=flagmode):
                    r = random.Random(7)
                    n = len(spec)
                    flags = {
                        "none": [None] * n,
                        "last": [None] * (n - 1) + [True],
                        "two": [True] * min(2, n) + [None] * max(0, n - 2),
                        "false": [False] * n,
                    }[flagmode]
                    txs = [rand_transcript(r, i, pk, 0, 0, primary=flags[i], fixed=s) for i, s in enumerate(spec)]
                    return GeneInterval(
                        txs,
                        gene_id="g",
                        gene_symbol="gs",
                        gene_type=Biotype.protein_coding,
                        locus_tag="lt",
                        qualifiers={"q": ["1", "2"]},
                        sequence_name="chr1",
                        parent_or_seq_chunk_parent=make_parent(pk),
                    )

                gene_case(f"tie/{tlabel}/{pk}/{flagmode}", build)

    # randomised genes
    for k in range(200):
        pk = PARENT_KINDS[k % len(PARENT_KINDS)]

        def build(k=k, pk=pk):
            r = random.Random(3000 + k)
            lo, hi = region_for(pk)
            n = r.randint(1, 5)
            flags = primary_flags(r, n)
            coding_p = r.choice([0.0, 0.5, 0.8, 1.0])
            strands = r.choice([None, [Strand.PLUS], [Strand.MINUS]])
            txs = [
                rand_transcript(r, i, pk, lo, hi, coding_p=coding_p, primary=flags[i], strands=strands)
                for i in range(n)
            ]
            if r.random() < 0.15 and n > 1:
                # duplicate transcript -> DuplicateTranscriptError
                txs.append(txs[0])
            return GeneInterval(
                txs,
                gene_id=f"gene{k}",
                gene_symbol=r.choice([None, f"G{k}"]),
                gene_type=r.choice([None, Biotype.protein_coding, Biotype.lncRNA]),
                locus_tag=r.choice([None, f"L{k}"]),
                qualifiers=r.choice([None, {"a": ["x"], "b": ["y", "z"]}]),
                sequence_name="chr1",
                parent_or_seq_chunk_parent=make_parent(pk),
            )

        gene_case(f"rand{k}/{pk}", build)

    gene_case("empty", lambda: GeneInterval([]))
    # children built on the genome, gene built on a chunk that does not contain all of them
    def build_partial():
        r = random.Random(99)
        txs = [rand_transcript(r, i, "chrom", 2, 238) for i in range(3)]
        return GeneInterval(txs, gene_id="partial", parent_or_seq_chunk_parent=make_parent("chunk_small"))

    gene_case("partial_chunk", build_partial)

    # 3. feature collections
    def fc_case(label, build):
        def run():
            return observe_fcoll(build())

        results[f"fcoll/{label}"] = attempt(run)

    fspecs = {
        "len_tie": [([10], [20], Strand.PLUS), ([30], [40], Strand.MINUS), ([5, 50], [10, 55], Strand.UNSTRANDED)],
        "later_longer": [([10], [20], Strand.PLUS), ([30], [50], Strand.MINUS), ([5, 50], [10, 65], Strand.PLUS)],
        "overlapping": [([10, 40], [30, 60], Strand.PLUS), ([20], [45], Strand.MINUS), ([58], [80], Strand.PLUS)],
        "single": [([3, 9, 50], [6, 30, 70], Strand.MINUS)],
    }
    for flabel, spec in fspecs.items():
        for pk in PARENT_KINDS[:3]:
            for flagmode in ["none", "last", "two", "false"]:
                def build(spec=spec, pk=pk, flagmode=flagmode):
                    r = random.Random(11)
                    n = len(spec)
                    flags = {
                        "none": [None] * n,
                        "last": [None] * (n - 1) + [True],
                        "two": [True] * min(2, n) + [None] * max(0, n - 2),
                        "false": [False] * n,
                    }[flagmode]
                    feats = [rand_feature(r, i, pk, 0, 0, primary=flags[i], fixed=s) for i, s in enumerate(spec)]
                    return FeatureIntervalCollection(
                        feats,
                        feature_collection_name="fcn",
                        feature_collection_id="fcid",
                        feature_collection_type="fct",
                        locus_tag="lt",
                        qualifiers={"q": ["1", "2"]},
                        sequence_name="chr1",
                        parent_or_seq_chunk_parent=make_parent(pk),
                    )

                fc_case(f"tie/{flabel}/{pk}/{flagmode}", build)

    for k in range(200):
        pk = PARENT_KINDS[k % len(PARENT_KINDS)]

        def build(k=k, pk=pk):
            r = random.Random(5000 + k)
            lo, hi = region_for(pk)
            n = r.randint(1, 6)
            flags = primary_flags(r, n)
            strands = r.choice([None, [Strand.PLUS], [Strand.MINUS], [Strand.UNSTRANDED]])
            feats = [rand_feature(r, i, pk, lo, hi, primary=flags[i], strands=strands) for i in range(n)]
            if r.random() < 0.15 and n > 1:
                feats.append(feats[-1])
            return FeatureIntervalCollection(
                feats,
                feature_collection_name=r.choice([None, f"FC{k}"]),
                feature_collection_id=f"fc{k}",
                feature_collection_type=r.choice([None, "type"]),
                locus_tag=r.choice([None, f"L{k}"]),
                qualifiers=r.choice([None, {"a": ["x"], "b": ["y", "z"]}]),
                sequence_name="chr1",
                parent_or_seq_chunk_parent=make_parent(pk),
            )

        fc_case(f"rand{k}/{pk}", build)

    fc_case("empty", lambda: FeatureIntervalCollection([]))

    # 4. annotation collections
    def ac_case(label, build):
        def run():
            ac, pool = build()
            return observe_acoll(ac, pool)

        results[f"acoll/{label}"] = attempt(run)

    def build_members(r, pk, n_genes, n_fcs, n_vars, same_start=False):
        lo, hi = region_for(pk)
        vlo, vhi = lo, hi
        if n_vars:
            # variants live in reserved flanks so that no gene overlaps one (that path needs io.models)
            lo, hi = lo + 12, hi - 12
        genes, fcs, vcs = [], [], []
        for g in range(n_genes):
            n = r.randint(1, 3)
            if same_start:
                txs = [rand_transcript(r, i, pk, 0, 0, fixed=([100, 120], [110, 130 + g], Strand.PLUS, None))
                       for i in range(n)]
            else:
                txs = [rand_transcript(r, i, pk, lo, hi) for i in range(n)]
            genes.append(GeneInterval(txs, gene_id=f"g{g}", sequence_name="chr1",
                                      parent_or_seq_chunk_parent=make_parent(pk)))
        for f in range(n_fcs):
            n = r.randint(1, 3)
            if same_start:
                feats = [rand_feature(r, i, pk, 0, 0, fixed=([100], [105 + f + i], Strand.MINUS)) for i in range(n)]
            else:
                feats = [rand_feature(r, i, pk, lo, hi) for i in range(n)]
            fcs.append(FeatureIntervalCollection(feats, feature_collection_id=f"fc{f}", sequence_name="chr1",
                                                 parent_or_seq_chunk_parent=make_parent(pk)))
        for v in range(n_vars):
            s = r.choice([r.randint(vlo, vlo + 9), r.randint(vhi - 10, vhi - 2)])
            vi = VariantInterval(s, s + 1, r.choice("ACGT"), "SNV", variant_id=f"v{v}",
                                 parent_or_seq_chunk_parent=make_parent(pk))
            vcs.append(VariantIntervalCollection([vi], variant_collection_id=f"vc{v}", sequence_name="chr1",
                                                 parent_or_seq_chunk_parent=make_parent(pk)))
        return genes, fcs, vcs

    bounds_modes = ["infer", "explicit", "start_only", "end_only", "explicit_zero"]
    case = 0
    for pk in PARENT_KINDS:
        for n_genes, n_fcs, n_vars in [(0, 0, 0), (2, 0, 0), (0, 3, 0), (3, 2, 0), (2, 2, 1), (0, 0, 1), (1, 0, 2)]:
            for bm in bounds_modes:
                for same_start in ([False, True] if (n_genes + n_fcs) > 1 and bm == "infer" else [False]):
                    case += 1

                    def build(pk=pk, n_genes=n_genes, n_fcs=n_fcs, n_vars=n_vars, bm=bm, case=case,
                              same_start=same_start):
                        r = random.Random(8000 + case)
                        genes, fcs, vcs = build_members(r, pk, n_genes, n_fcs, n_vars, same_start)
                        pool = genes + fcs + vcs
                        lo, hi = region_for(pk)
                        kw = {
                            "infer": {},
                            "explicit": dict(start=lo - 1, end=hi + 1),
                            "start_only": dict(start=lo),
                            "end_only": dict(end=hi),
                            "explicit_zero": dict(start=0, end=GENOME_LEN),
                        }[bm]
                        ac = AnnotationCollection(
                            feature_collections=fcs or None,
                            genes=genes or None,
                            variant_collections=vcs or None,
                            name=f"ac{case}",
                            id=f"id{case}",
                            sequence_name="chr1",
                            qualifiers=r.choice([None, {"a": ["x"]}]),
                            completely_within=r.choice([None, True, False]),
                            parent_or_seq_chunk_parent=make_parent(pk),
                            **kw,
                        )
                        return ac, pool

                    ac_case(f"{case}/{pk}/g{n_genes}f{n_fcs}v{n_vars}/{bm}/same{int(same_start)}", build)

    # parent with a chromosome ancestor that has no location / sequence-less parents
    def build_noloc():
        r = random.Random(1)
        genes, fcs, vcs = build_members(r, "none", 2, 1, 0)
        parent = Parent(id="chr1", sequence_type=SequenceType.CHROMOSOME)
        return AnnotationCollection(fcs, genes, parent_or_seq_chunk_parent=parent), genes + fcs

    ac_case("chrom_parent_without_location", build_noloc)

    def build_loc_noseq():
        r = random.Random(2)
        genes, fcs, vcs = build_members(r, "none", 1, 2, 0)
        parent = Parent(id="chr1", sequence_type=SequenceType.CHROMOSOME, location=SingleInterval(0, 500, Strand.PLUS))
        return AnnotationCollection(fcs, genes, parent_or_seq_chunk_parent=parent), genes + fcs

    ac_case("chrom_parent_location_no_sequence", build_loc_noseq)

    def build_other_type():
        r = random.Random(3)
        genes, fcs, vcs = build_members(r, "none", 1, 1, 0)
        parent = Parent(id="x", sequence_type="plasmid", location=SingleInterval(0, 500, Strand.PLUS))
        return AnnotationCollection(fcs, genes, parent_or_seq_chunk_parent=parent), genes + fcs

    ac_case("non_chromosome_parent", build_other_type)
    ac_case("totally_empty", lambda: (AnnotationCollection(), []))
    ac_case("empty_with_bounds", lambda: (AnnotationCollection(start=5, end=50), []))
    ac_case("empty_lists", lambda: (AnnotationCollection([], [], []), []))
    return results


def main(argv):
    if argv[1] == "dump":
        res = scenarios()
        with open(argv[2], "w") as fh:
            json.dump(res, fh, sort_keys=True, indent=0, default=str)
        n_exc = sum(1 for v in res.values() if "exc" in v)
        print(f"dumped {len(res)} scenarios ({n_exc} ending in an exception) to {argv[2]}")
        return 0
    if argv[1] == "compare":
        with open(argv[2]) as fh:
            a = json.load(fh)
        with open(argv[3]) as fh:
            b = json.load(fh)
        bad = [k for k in sorted(set(a) | set(b)) if a.get(k) != b.get(k)]
        for k in bad[:20]:
            print("DIFF", k)
            av, bv = a.get(k), b.get(k)
            if isinstance(av, dict) and isinstance(bv, dict) and "ok" in av and "ok" in bv and isinstance(
                av["ok"], dict
            ):
                for kk in av["ok"]:
                    if av["ok"].get(kk) != bv["ok"].get(kk):
                        print("   field", kk, "\n     pristine:", str(av["ok"].get(kk))[:300], "\n     patched: ",
                              str(bv["ok"].get(kk))[:300])
            else:
                print("   pristine:", str(av)[:300], "\n   patched: ", str(bv)[:300])
        print(f"compared {len(a)} vs {len(b)} scenarios: {len(bad)} differences")
        return 1 if bad else 0
    print(__doc__)
    return 2


if __name__ == "__main__":
    sys.exit(main(sys.argv))
