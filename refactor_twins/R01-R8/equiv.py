"""Equivalence harness for the coordinate-map refactoring.

Usage (from the worktree root):
    /venv/bin/python _refactor/R1/equiv.py dump /tmp/pristine.json      # on the pristine tree
    git apply _refactor/R1/patch.diff
    /venv/bin/python _refactor/R1/equiv.py dump /tmp/patched.json       # on the patched tree
    /venv/bin/python _refactor/R1/equiv.py compare /tmp/pristine.json /tmp/patched.json

Every call is recorded as repr(result) or as "EXC <type>: <message>", keyed by a textual description of the call.
"""
import itertools
import json
import os
import random
import sys

sys.path.insert(0, os.getcwd())  # run from the worktree root

import inscripta.biocantor.location  # noqa: F401  (must come first: circular import otherwise)
from inscripta.biocantor import DistanceType
from inscripta.biocantor.gene.feature import FeatureInterval
from inscripta.biocantor.gene.transcript import TranscriptInterval
from inscripta.biocantor.location.location_impl import SingleInterval, CompoundInterval, EmptyLocation
from inscripta.biocantor.location.strand import Strand
from inscripta.biocantor.parent import Parent, SequenceType
from inscripta.biocantor.sequence import Sequence
from inscripta.biocantor.sequence.alphabet import Alphabet

RESULTS = {}
STRANDS = [Strand.PLUS, Strand.MINUS, Strand.UNSTRANDED]
GENOME = "ACGTTGCAAGGCTTAACCGGTTACGATCGATTAGCCGGAATTCCGGTTAA"  # 50 nt


def describe(obj):
    """Stable textual form of a result, with as much structure as is observable."""
    if isinstance(obj, (SingleInterval, CompoundInterval)):
        return "{}|{}|{}|blocks={}|parent={!r}".format(
            type(obj).__name__, str(obj), len(obj), [str(b) for b in obj.blocks], obj.parent
        )
    if isinstance(obj, (list, tuple)):
        return "[" + "; ".join(describe(x) for x in obj) + "]"
    if isinstance(obj, dict):
        return "{" + "; ".join("{}: {}".format(k, describe(v)) for k, v in obj.items()) + "}"
    return "{}:{!r}".format(type(obj).__name__, obj)


def record(key, fn):
    try:
        out = describe(fn())
    except BaseException as e:  # noqa: B902 - StopIteration etc. must be recorded too
        out = "EXC {}: {}".format(type(e).__name__, e)
    while key in RESULTS:  # the same call can be generated twice (e.g. n == 1); keep both
        key += "'"
    RESULTS[key] = out


def seq_to_parent(seq, seq_id=None):
    return Parent(
        sequence=Sequence(seq, Alphabet.NT_EXTENDED_GAPPED, type=SequenceType.CHROMOSOME, id=seq_id),
        location=SingleInterval(0, len(seq), Strand.PLUS),
    )


def seq_chunk_to_parent(seq, sequence_name, start, end, strand=Strand.PLUS):
    chunk_id = f"{sequence_name}:{start}-{end}"
    return Parent(
        id=chunk_id,
        sequence=Sequence(
            seq,
            Alphabet.NT_EXTENDED_GAPPED,
            id=chunk_id,
            type=SequenceType.SEQUENCE_CHUNK,
            parent=Parent(
                location=SingleInterval(
                    start,
                    end,
                    strand,
                    parent=Parent(id=sequence_name, sequence_type=SequenceType.CHROMOSOME),
                )
            ),
        ),
    )


# --------------------------------------------------------------------------------------------------------------
# Strand
# --------------------------------------------------------------------------------------------------------------
def strand_cases():
    odd = ["+", "-", ".", "", "x", None, 1, -1, 0, 2, 1.0, ["+"], Strand.PLUS]
    for v in odd:
        record(f"Strand.from_symbol({v!r})", lambda: Strand.from_symbol(v))
        record(f"Strand.from_int({v!r})", lambda: Strand.from_int(v))
    for s in STRANDS:
        record(f"{s!r}.to_symbol", s.to_symbol)
        record(f"str({s!r})", lambda: str(s))
        record(f"{s!r}.reverse", s.reverse)
        record(f"{s!r}.assert_directional", s.assert_directional)
        for o in STRANDS + [None, 1, "+", ["+"]]:
            record(f"{s!r}.relative_to({o!r})", lambda: s.relative_to(o))
            record(f"{s!r}<{o!r}", lambda: s < o)
            record(f"{s!r}<={o!r}", lambda: s <= o)
            record(f"{s!r}>{o!r}", lambda: s > o)
            record(f"{s!r}=={o!r}", lambda: s == o)
    record("sorted strands", lambda: sorted([Strand.UNSTRANDED, Strand.MINUS, Strand.PLUS, Strand.MINUS]))
    record("Strand._order", lambda: sorted((k.name, v) for k, v in Strand._order().items()))


# --------------------------------------------------------------------------------------------------------------
# Locations
# --------------------------------------------------------------------------------------------------------------
LAYOUTS = [
    # (starts, ends)
    ([3], [9]),
    ([0], [1]),
    ([4], [4]),
    ([2, 8], [5, 13]),
    ([2, 5], [5, 9]),  # adjacent
    ([2, 4], [6, 9]),  # overlapping
    ([2, 3], [10, 6]),  # nested
    ([2, 6, 6], [4, 6, 9]),  # empty block in the middle
    ([2, 2], [2, 7]),  # leading empty block
    ([1, 5], [4, 5]),  # trailing empty block
    ([3, 3], [3, 3]),  # all empty
    ([0, 4, 9, 15], [2, 7, 12, 20]),
    ([9, 0, 15, 4], [12, 2, 20, 7]),  # unsorted input
    ([1, 3, 5, 7, 9], [2, 4, 6, 8, 10]),
    ([0, 10, 10, 12], [10, 10, 12, 14]),
    ([5, 5, 20], [9, 12, 30]),  # same start
]


def make_parents():
    return [
        ("noparent", None),
        ("idparent", Parent(id="chr1")),
        ("seqparent", seq_to_parent(GENOME, "chrS")),
    ]


def build_locations():
    locs = []
    for pname, parent in make_parents():
        for starts, ends in LAYOUTS:
            for strand in STRANDS:
                name = f"{pname}:{starts}-{ends}:{strand.name}"
                if len(starts) == 1:
                    try:
                        locs.append(("SI:" + name, SingleInterval(starts[0], ends[0], strand, parent)))
                    except Exception as e:  # noqa: B902
                        RESULTS["construct SI:" + name] = "EXC {}: {}".format(type(e).__name__, e)
                try:
                    locs.append(("CI:" + name, CompoundInterval(starts, ends, strand, parent)))
                except Exception as e:  # noqa: B902
                    RESULTS["construct CI:" + name] = "EXC {}: {}".format(type(e).__name__, e)
    return locs


def location_cases(locs):
    for name, loc in locs:
        record(f"{name} repr", lambda: repr(loc))
        record(f"{name} blocks", lambda: loc.blocks)
        record(f"{name} scan_blocks", lambda: list(loc.scan_blocks()))
        record(f"{name} flags", lambda: (loc.is_contiguous, loc.is_overlapping, loc.is_empty, loc.num_blocks))
        record(f"{name} optimize_blocks", loc.optimize_blocks)
        if isinstance(loc, CompoundInterval):
            record(f"{name} optimize_and_combine_blocks", loc.optimize_and_combine_blocks)
            record(f"{name} _combine_blocks(True)", lambda: loc._combine_blocks(True))
            record(f"{name} _combine_blocks(False)", lambda: loc._combine_blocks(False))
            record(f"{name} to_compound_location", lambda: str(loc.to_compound_location()))
        record(f"{name} merge_overlapping", loc.merge_overlapping)
        record(f"{name} gap_list", loc.gap_list)
        record(f"{name} gaps_location", loc.gaps_location)
        record(f"{name} reverse", loc.reverse)
        record(f"{name} reverse_strand", loc.reverse_strand)
        record(f"{name} to_biopython", lambda: str(loc.to_biopython()))
        for s in STRANDS:
            record(f"{name} reset_strand({s.name})", lambda: loc.reset_strand(s))
        record(f"{name} extract_sequence", lambda: str(loc.extract_sequence()))
        for up, down in [(0, 0), (1, 0), (0, 2), (2, 3), (-1, 0), (0, -1), (3, 1)]:
            record(f"{name} extend_relative({up},{down})", lambda: loc.extend_relative(up, down))
            record(f"{name} extend_absolute({up},{down})", lambda: loc.extend_absolute(up, down))
        # point-wise maps, every position including outside ones
        n = len(loc)
        for pos in range(-2, loc.end + 3):
            record(f"{name} parent_to_relative_pos({pos})", lambda: loc.parent_to_relative_pos(pos))
        for pos in range(-2, n + 3):
            record(f"{name} relative_to_parent_pos({pos})", lambda: loc.relative_to_parent_pos(pos))
        # every relative sub-interval (plus a few invalid ones), every relative strand
        for rs in range(-1, n + 2):
            for re_ in range(-1, n + 2):
                for s in STRANDS:
                    record(
                        f"{name} relative_interval_to_parent_location({rs},{re_},{s.name})",
                        lambda: loc.relative_interval_to_parent_location(rs, re_, s),
                    )
        if "noparent" in name:
            for w, st, sp in [(1, 1, 0), (2, 1, 0), (3, 2, 1), (n, 1, 0), (n + 1, 1, 0), (2, 0, 0), (0, 1, 0), (2, 3, n)]:
                record(f"{name} scan_windows({w},{st},{sp})", lambda: list(loc.scan_windows(w, st, sp)))


def pair_cases(locs):
    """location_relative_to / parent_to_relative_location and the set operations they use, for pairs."""
    noparent = [(n, x) for n, x in locs if "noparent" in n]
    idparent = [(n, x) for n, x in locs if "idparent" in n]
    seqparent = [(n, x) for n, x in locs if "seqparent" in n]
    queries = []
    for pname, parent in make_parents():
        for s in STRANDS:
            for a, b in [(0, 3), (3, 8), (4, 5), (6, 6), (0, 30), (5, 12), (9, 10), (11, 21)]:
                queries.append((f"q{pname}:{a}-{b}:{s.name}", SingleInterval(a, b, s, parent)))
    for group in (noparent, idparent, seqparent):
        gname = group[0][0].split(":")[1]
        own_queries = [(n, q) for n, q in queries if n.startswith("q" + gname)]
        for name, loc in group:
            for qname, q in own_queries:
                record(f"{name} parent_to_relative_location({qname})", lambda: loc.parent_to_relative_location(q))
                record(
                    f"{name} parent_to_relative_location({qname},opt=False)",
                    lambda: loc.parent_to_relative_location(q, optimize_blocks=False),
                )
                record(f"{qname} location_relative_to({name})", lambda: q.location_relative_to(loc))
                record(f"{name} intersection({qname})", lambda: loc.intersection(q))
                record(f"{name} intersection({qname},ms=False)", lambda: loc.intersection(q, match_strand=False))
                record(f"{name} intersection({qname},fs)", lambda: loc.intersection(q, False, True))
                record(f"{name} has_overlap({qname})", lambda: loc.has_overlap(q))
                record(f"{name} has_overlap({qname},ms)", lambda: loc.has_overlap(q, match_strand=True))
                record(f"{name} contains({qname})", lambda: loc.contains(q))
                record(f"{name} minus({qname})", lambda: loc.minus(q))
                record(f"{name} union({qname})", lambda: loc.union(q))
                record(f"{name} union_preserve_overlaps({qname})", lambda: loc.union_preserve_overlaps(q))
                for dt in DistanceType:
                    record(f"{name} distance_to({qname},{dt.name})", lambda: loc.distance_to(q, dt))
    # mixed parents (must raise) and compound-vs-compound
    for (n1, l1), (n2, l2) in itertools.islice(zip(noparent, idparent), 0, None, 5):
        record(f"{n1} location_relative_to({n2})", lambda: l1.location_relative_to(l2))
        record(f"{n2} location_relative_to({n1})", lambda: l2.location_relative_to(l1))
    compounds = [(n, x) for n, x in noparent if n.startswith("CI")]
    for (n1, l1), (n2, l2) in itertools.product(compounds, compounds):
        record(f"{n1} location_relative_to({n2})", lambda: l1.location_relative_to(l2))
        record(f"{n1} location_relative_to({n2},opt=False)", lambda: l1.location_relative_to(l2, optimize_blocks=False))
        record(f"{n1} intersection({n2},ms=False)", lambda: l1.intersection(l2, match_strand=False))
        record(f"{n1} union({n2})", lambda: l1.union(l2))
        record(f"{n1} minus({n2})", lambda: l1.minus(l2))
        record(f"{n1} distance_to({n2})", lambda: l1.distance_to(l2))
    e = EmptyLocation()
    for name, loc in noparent[:12]:
        record(f"{name} location_relative_to(Empty)", lambda: loc.location_relative_to(e))
        record(f"Empty location_relative_to({name})", lambda: e.location_relative_to(loc))
        record(f"{name} parent_to_relative_location(Empty)", lambda: loc.parent_to_relative_location(e))
        record(f"{name} intersection(Empty)", lambda: loc.intersection(e))
        record(f"{name} union(Empty)", lambda: loc.union(e))


# --------------------------------------------------------------------------------------------------------------
# gene/interval.py wrappers
# --------------------------------------------------------------------------------------------------------------
def feature_cases():
    chrom = seq_to_parent(GENOME, "chrS")
    chunk = seq_chunk_to_parent(GENOME[4:30], "chrS", 4, 30)
    chunk_small = seq_chunk_to_parent(GENOME[10:18], "chrS", 10, 18)
    chunk_far = seq_chunk_to_parent(GENOME[40:50], "chrS", 40, 50)
    parents = [("none", None), ("chrom", chrom), ("chunk", chunk), ("chunk_small", chunk_small), ("far", chunk_far)]
    layouts = [([3], [9]), ([2, 8], [5, 13]), ([5, 9, 16], [9, 12, 22]), ([6, 11, 20], [9, 15, 28]), ([2, 5], [5, 9])]
    for (pname, parent), (starts, ends), strand in itertools.product(parents, layouts, [Strand.PLUS, Strand.MINUS]):
        for cls in (FeatureInterval, TranscriptInterval):
            name = f"{cls.__name__}:{pname}:{starts}-{ends}:{strand.name}"
            try:
                feat = cls(starts, ends, strand, parent_or_seq_chunk_parent=parent)
            except Exception as e:  # noqa: B902
                RESULTS["construct " + name] = "EXC {}: {}".format(type(e).__name__, e)
                continue
            record(f"{name} len", lambda: len(feat))
            record(f"{name} str", lambda: str(feat))
            record(f"{name} to_dict", lambda: sorted((k, str(v)) for k, v in feat.to_dict().items()))
            record(f"{name} chromosome_location", lambda: feat.chromosome_location)
            record(f"{name} chunk_relative_location", lambda: feat.chunk_relative_location)
            record(f"{name} bounded", lambda: feat._chunk_relative_bounded_chromosome_location)
            record(f"{name} spans", lambda: (feat.chromosome_span, feat.chunk_relative_span))
            record(f"{name} gaps", lambda: (feat.chromosome_gaps_location, feat.chunk_relative_gaps_location))
            record(f"{name} blocks", lambda: (list(feat.blocks), list(feat.relative_blocks)))
            record(f"{name} misc", lambda: (feat.is_chunk_relative, feat.has_sequence, feat.strand, feat.num_blocks))
            record(f"{name} spliced", lambda: str(feat.get_spliced_sequence()))
            record(f"{name} reference", lambda: str(feat.get_reference_sequence()))
            record(f"{name} genomic", lambda: str(feat.get_genomic_sequence()))
            n = len(feat)
            for pos in range(0, 32):
                record(f"{name} sequence_pos_to_feature({pos})", lambda: feat.sequence_pos_to_feature(pos))
                record(f"{name} chunk_relative_pos_to_feature({pos})", lambda: feat.chunk_relative_pos_to_feature(pos))
            for pos in range(-1, n + 2):
                record(f"{name} feature_pos_to_sequence({pos})", lambda: feat.feature_pos_to_sequence(pos))
                record(f"{name} feature_pos_to_chunk_relative({pos})", lambda: feat.feature_pos_to_chunk_relative(pos))
            for a, b in [(0, 1), (0, n), (1, n - 1), (2, 4), (3, 3), (n, n), (0, n + 1), (4, 2)]:
                for s in STRANDS:
                    record(
                        f"{name} feature_interval_to_sequence({a},{b},{s.name})",
                        lambda: feat.feature_interval_to_sequence(a, b, s),
                    )
                    record(
                        f"{name} feature_interval_to_chunk_relative({a},{b},{s.name})",
                        lambda: feat.feature_interval_to_chunk_relative(a, b, s),
                    )
            for a, b in [(0, 4), (3, 10), (8, 21), (0, 30), (14, 15), (12, 16), (30, 40)]:
                for s in STRANDS:
                    record(
                        f"{name} sequence_interval_to_feature({a},{b},{s.name})",
                        lambda: feat.sequence_interval_to_feature(a, b, s),
                    )
                    record(
                        f"{name} chunk_relative_interval_to_feature({a},{b},{s.name})",
                        lambda: feat.chunk_relative_interval_to_feature(a, b, s),
                    )
            for p2name, p2 in parents[1:]:
                record(
                    f"{name} liftover_to({p2name})",
                    lambda: (lambda f2: (str(f2), f2.chunk_relative_location, f2.chromosome_location))(
                        feat.liftover_to_parent_or_seq_chunk_parent(p2)
                    ),
                )
    # the static helpers directly
    for (starts, ends), strand, (pname, parent) in itertools.product(
        layouts + [([1, 2], [3])], STRANDS, parents
    ):
        record(
            f"initialize_location({starts},{ends},{strand.name},{pname})",
            lambda: FeatureInterval.initialize_location(starts, ends, strand, parent),
        )


def random_cases():
    """Seeded random layouts with more blocks (zero-length blocks, zero gaps and overlaps included)."""
    rng = random.Random(20261003)
    for i in range(60):
        k = rng.randint(1, 9)
        starts, ends, pos = [], [], rng.randint(0, 4)
        for _ in range(k):
            length = rng.choice([0, 1, 1, 2, 3, 5, 8])
            starts.append(pos)
            ends.append(pos + length)
            pos += length + rng.choice([-2, 0, 0, 1, 2, 4]) if pos + length >= 2 else length + 1
        order = list(range(k))
        rng.shuffle(order)
        starts, ends = [starts[j] for j in order], [ends[j] for j in order]
        for strand in STRANDS:
            name = f"RND{i}:{starts}-{ends}:{strand.name}"
            try:
                loc = CompoundInterval(starts, ends, strand)
            except Exception as e:  # noqa: B902
                RESULTS["construct " + name] = "EXC {}: {}".format(type(e).__name__, e)
                continue
            n = len(loc)
            record(f"{name} repr", lambda: (repr(loc), n, loc.start, loc.end, loc.is_contiguous, loc.is_overlapping))
            record(f"{name} scan_blocks", lambda: list(loc.scan_blocks()))
            record(f"{name} optimize", lambda: (loc.optimize_blocks(), loc.optimize_and_combine_blocks()))
            for p in range(loc.start - 1, loc.end + 2):
                record(f"{name} parent_to_relative_pos({p})", lambda: loc.parent_to_relative_pos(p))
            for p in range(-1, n + 2):
                record(f"{name} relative_to_parent_pos({p})", lambda: loc.relative_to_parent_pos(p))
            for rs in range(0, n + 1):
                for re_ in range(rs, n + 1):
                    s = STRANDS[(rs + re_ + i) % 3]
                    record(
                        f"{name} relative_interval_to_parent_location({rs},{re_},{s.name})",
                        lambda: loc.relative_interval_to_parent_location(rs, re_, s),
                    )
            for _ in range(12):
                a = rng.randint(0, loc.end + 2)
                b = a + rng.choice([0, 1, 2, 5, 9, 20])
                q = SingleInterval(a, b, rng.choice(STRANDS))
                record(f"{name} parent_to_relative_location({q})", lambda: loc.parent_to_relative_location(q))
                record(
                    f"{name} parent_to_relative_location({q},opt=False)",
                    lambda: loc.parent_to_relative_location(q, optimize_blocks=False),
                )
                record(f"{name} intersection({q})", lambda: loc.intersection(q, match_strand=False))
                record(f"{name} contains({q})", lambda: loc.contains(q))
            q2 = CompoundInterval(
                [loc.start, loc.start + 3, loc.end], [loc.start + 2, loc.start + 7, loc.end + 3], rng.choice(STRANDS)
            )
            record(f"{name} location_relative_to({q2})", lambda: loc.location_relative_to(q2))
            record(f"{q2} location_relative_to({name})", lambda: q2.location_relative_to(loc))
            record(f"{name} intersection({q2})", lambda: loc.intersection(q2, match_strand=False))


def main():
    if sys.argv[1] == "dump":
        strand_cases()
        locs = build_locations()
        location_cases(locs)
        pair_cases(locs)
        feature_cases()
        random_cases()
        with open(sys.argv[2], "w") as fh:
            json.dump(RESULTS, fh, indent=0, sort_keys=True)
        n_exc = sum(v.startswith("EXC") for v in RESULTS.values())
        print(f"recorded {len(RESULTS)} calls ({n_exc} raising)")
    elif sys.argv[1] == "compare":
        with open(sys.argv[2]) as fh:
            a = json.load(fh)
        with open(sys.argv[3]) as fh:
            b = json.load(fh)
        diffs = [k for k in sorted(set(a) | set(b)) if a.get(k) != b.get(k)]
        for k in diffs[:40]:
            print("DIFF", k, "\n   pristine:", a.get(k), "\n   patched: ", b.get(k))
        print(f"{len(a)} vs {len(b)} records, {len(diffs)} differences")
        sys.exit(1 if diffs else 0)


if __name__ == "__main__":
    main()
