"""
Equivalence harness for the variant / haplotype code (property C13).

Usage (from the worktree root):

    /venv/bin/python _refactor/RN/equiv.py dump _refactor/tmp/pristine.json      # on the pristine checkout
    git apply _refactor/RN/patch.diff
    /venv/bin/python _refactor/RN/equiv.py dump _refactor/tmp/patched.json       # on the refactored checkout
    /venv/bin/python _refactor/RN/equiv.py compare _refactor/tmp/pristine.json _refactor/tmp/patched.json

Everything observable (repr/str/to_dict/sequences, or the exception type + message) is stored as strings and
compared record by record.  The script is deterministic: it re-executes itself with PYTHONHASHSEED=0 and uses a
seeded random generator.

``inscripta.biocantor.io.parser`` and ``inscripta.biocantor.io.models`` cannot be imported in this environment
and ``vcf`` is not installed, so light stand-ins are placed in ``sys.modules`` (the two parent-building helpers
are copied verbatim from io/parser.py).
"""
import json
import os
import sys
import types

if os.environ.get("PYTHONHASHSEED") != "0":
    os.environ["PYTHONHASHSEED"] = "0"
    os.execv(sys.executable, [sys.executable] + sys.argv)

sys.path.insert(0, os.getcwd())

import random  # noqa: E402

import inscripta.biocantor.location  # noqa: E402,F401  (must be first: circular import otherwise)
from inscripta.biocantor.location import (  # noqa: E402
    SingleInterval,
    CompoundInterval,
    EmptyLocation,
    Strand,
    Parent,
)
from inscripta.biocantor.parent import SequenceType  # noqa: E402
from inscripta.biocantor.sequence.alphabet import Alphabet  # noqa: E402
from inscripta.biocantor.sequence.sequence import Sequence  # noqa: E402


# --------------------------------------------------------------------------------------------------------------
# stand-ins for modules that cannot be imported here
# --------------------------------------------------------------------------------------------------------------
def seq_to_parent(seq, alphabet=Alphabet.NT_EXTENDED_GAPPED, seq_id=None, seq_type=SequenceType.CHROMOSOME):
    return Parent(
        sequence=Sequence(seq, alphabet, type=seq_type, id=seq_id), location=SingleInterval(0, len(seq), Strand.PLUS)
    )


def seq_chunk_to_parent(seq, sequence_name, start, end, strand=Strand.PLUS, alphabet=Alphabet.NT_EXTENDED_GAPPED):
    chunk_id = f"{sequence_name}:{start}-{end}"
    return Parent(
        id=chunk_id,
        sequence=Sequence(
            seq,
            alphabet,
            id=chunk_id,
            type=SequenceType.SEQUENCE_CHUNK,
            parent=Parent(
                location=SingleInterval(
                    start,
                    end,
                    strand,
                    parent=Parent(id=sequence_name, sequence_type=SequenceType.CHROMOSOME),
                )
            ),
        ),
    )


_parser_stub = types.ModuleType("inscripta.biocantor.io.parser")
_parser_stub.seq_to_parent = seq_to_parent
_parser_stub.seq_chunk_to_parent = seq_chunk_to_parent
sys.modules["inscripta.biocantor.io.parser"] = _parser_stub


class _FakeSchema:
    def load(self, data):
        # keep the exact dictionary (and key order) that the parser produced
        return ("VariantIntervalCollectionModel", json.dumps(data, default=str))


class _FakeVariantIntervalCollectionModel:
    @staticmethod
    def Schema():
        return _FakeSchema()


_models_stub = types.ModuleType("inscripta.biocantor.io.models")
_models_stub.VariantIntervalCollectionModel = _FakeVariantIntervalCollectionModel
_vcf_stub = types.ModuleType("vcf")
_vcf_model_stub = types.ModuleType("vcf.model")
_vcf_model_stub._Record = object
_vcf_stub.model = _vcf_model_stub
_vcf_stub.Reader = None

from inscripta.biocantor.gene import (  # noqa: E402
    GeneInterval,
    AnnotationCollection,
    TranscriptInterval,
    FeatureInterval,
    FeatureIntervalCollection,
    CDSInterval,
    CDSFrame,
)
from inscripta.biocantor.gene.biotype import Biotype  # noqa: E402
from inscripta.biocantor.gene.variants import VariantInterval, VariantIntervalCollection  # noqa: E402

REF_LEN = 36
CHUNK_OFFSET = 100
rng = random.Random(20261002)


def random_dna(n):
    return "".join(rng.choice("ACGT") for _ in range(n))


REFERENCE = random_dna(REF_LEN)


def chrom_parent_plain():
    # the style used by the bundled tests
    return Parent(sequence=Sequence(REFERENCE, Alphabet.NT_EXTENDED_GAPPED))


def chrom_parent_typed():
    # the style produced by the parsers
    return seq_to_parent(REFERENCE, seq_id="chr1")


def chunk_parent():
    return Parent(
        id="chunk_seq_offset_100",
        sequence=Sequence(
            REFERENCE,
            Alphabet.NT_EXTENDED_GAPPED,
            type=SequenceType.SEQUENCE_CHUNK,
            parent=Parent(
                location=SingleInterval(
                    CHUNK_OFFSET,
                    CHUNK_OFFSET + REF_LEN,
                    Strand.PLUS,
                    parent=Parent(id="seq", sequence_type=SequenceType.CHROMOSOME),
                )
            ),
        ),
    )


PARENT_KINDS = {
    "plain": (chrom_parent_plain, 0),
    "typed": (chrom_parent_typed, 0),
    "chunk": (chunk_parent, CHUNK_OFFSET),
    "none": (lambda: None, 0),
}


def observe(fn):
    """Run fn and return a string describing the result or the exception."""
    try:
        return fn()
    except Exception as e:  # noqa
        return f"EXC {type(e).__name__}: {e}"


def describe_parent(p):
    if p is None:
        return "None"
    parts = [repr(p), "id=" + repr(p.id), "type=" + repr(p.sequence_type)]
    if p.sequence is not None:
        parts.append("seq=" + str(p.sequence))
        parts.append("alphabet=" + repr(p.sequence.alphabet))
        parts.append("seqtype=" + repr(p.sequence.sequence_type if hasattr(p.sequence, "sequence_type") else None))
        parts.append("seqid=" + repr(p.sequence.id))
        if p.sequence.parent is not None:
            parts.append("seqparent=" + describe_parent(p.sequence.parent))
    if p.location is not None:
        parts.append("loc=" + describe_location(p.location))
    if p.parent is not None:
        parts.append("parent=" + describe_parent(p.parent))
    return "[" + "; ".join(parts) + "]"


def describe_location(loc):
    if loc is EmptyLocation():
        return "EmptyLocation"
    out = [type(loc).__name__, repr(loc), "blocks=" + ",".join(f"{b.start}-{b.end}{b.strand}" for b in loc.blocks)]
    if loc.parent is not None:
        out.append("parent=" + describe_parent(loc.parent))
    return " ".join(out)


def describe_sequence(s):
    return f"{s!s}|{s.alphabet!r}|{s.id!r}|{s.sequence_type!r}|{s.parent!r}"


# --------------------------------------------------------------------------------------------------------------
# input generation
# --------------------------------------------------------------------------------------------------------------
def random_variant_spec(lo, hi):
    """A variant (start, end, alt, type) inside [lo, hi) in chromosome-relative *unshifted* coordinates."""
    kind = rng.choice(["SNV", "MNV", "ins_padded", "ins_long", "del_padded", "del_unpadded", "delins"])
    span = hi - lo
    if span < 2 and kind in ("MNV", "del_padded", "delins"):
        kind = "SNV"
    if kind == "SNV":
        s = rng.randrange(lo, hi)
        return s, s + 1, random_dna(1), "SNV"
    if kind == "MNV":
        n = rng.randint(2, min(3, span))
        s = rng.randrange(lo, hi - n + 1)
        return s, s + n, random_dna(n), "MNV"
    if kind == "ins_padded":
        s = rng.randrange(lo, hi)
        return s, s + 1, REFERENCE[s] + random_dna(rng.randint(1, 4)), "insertion"
    if kind == "ins_long":
        n = rng.randint(1, min(2, span))
        s = rng.randrange(lo, hi - n + 1)
        return s, s + n, random_dna(n + rng.randint(1, 5)), "insertion"
    if kind == "del_padded":
        n = rng.randint(2, min(6, span)) if span >= 2 else 1
        s = rng.randrange(lo, hi - n + 1)
        return s, s + n, REFERENCE[s], "deletion"
    if kind == "del_unpadded":
        n = rng.randint(1, min(5, span))
        s = rng.randrange(lo, hi - n + 1)
        return s, s + n, "", "deletion"
    n = rng.randint(2, min(6, span)) if span >= 2 else 1
    s = rng.randrange(lo, hi - n + 1)
    return s, s + n, random_dna(rng.randint(1, max(1, n - 1))), "delins"


def random_variant_set(k):
    """k non-overlapping variants; split the reference into k windows."""
    cuts = sorted(rng.sample(range(1, REF_LEN), k - 1)) if k > 1 else []
    bounds = [0] + cuts + [REF_LEN]
    specs = []
    for lo, hi in zip(bounds, bounds[1:]):
        if hi - lo < 1:
            continue
        specs.append(random_variant_spec(lo, hi))
    rng.shuffle(specs)  # constructor sorts them
    return specs


def random_blocks(max_blocks=4):
    n = rng.randint(1, max_blocks)
    points = sorted(rng.sample(range(0, REF_LEN + 1), 2 * n))
    starts = points[0::2]
    ends = points[1::2]
    return starts, ends


def make_location(starts, ends, strand, offset=0, parent=None):
    starts = [s + offset for s in starts]
    ends = [e + offset for e in ends]
    if len(starts) == 1:
        loc = SingleInterval(starts[0], ends[0], strand)
    else:
        loc = CompoundInterval(starts, ends, strand)
    return loc


def build_variant(spec, kind):
    make_parent, offset = PARENT_KINDS[kind]
    s, e, alt, vt = spec
    return VariantInterval(
        start=s + offset,
        end=e + offset,
        sequence=alt,
        variant_type=vt,
        parent_or_seq_chunk_parent=make_parent(),
    )


def build_collection(specs, kind, **kw):
    make_parent, offset = PARENT_KINDS[kind]
    return VariantIntervalCollection(
        [build_variant(spec, kind) for spec in specs], parent_or_seq_chunk_parent=make_parent(), **kw
    )


FIXED_SPECS = [
    (1, 2, "G", "SNV"),
    (5, 6, "GGC", "insertion"),
    (10, 13, "T", "deletion"),
    (12, 13, "", "deletion"),
    (13, 15, "", "deletion"),
    (0, 1, "", "deletion"),
    (0, 3, "A", "deletion"),
    (REF_LEN - 1, REF_LEN, "ACGT", "insertion"),
    (REF_LEN - 4, REF_LEN, "", "deletion"),
    (7, 12, "AC", "delins"),
]
FIXED_SETS = [
    [(1, 2, "G", "SNV"), (5, 6, "GGC", "insertion"), (10, 13, "T", "deletion")],
    [(1, 2, "G", "SNV"), (5, 6, "GGC", "insertion"), (10, 13, "T", "deletion"), (13, 15, "", "deletion")],
    [(3, 6, "", "deletion"), (6, 7, "TTTT", "insertion")],
    [(0, 2, "", "deletion"), (20, 26, "A", "deletion"), (30, 31, "CAAAA", "insertion")],
    # second variant lies outside the chunk / beyond the reference
    [(1, 2, "G", "SNV"), (250, 252, "", "deletion")],
    [(4, 7, "G", "deletion"), (250, 251, "TT", "insertion")],
]
FIXED_BLOCKS = [
    ([0], [REF_LEN]),
    ([0], [15]),
    ([10], [13]),
    ([11], [13]),
    ([12], [13]),
    ([13], [15]),
    ([11], [12]),
    ([5], [6]),
    ([0, 5, 12], [3, 10, 18]),
    ([0, 11, 20], [3, 13, 30]),
    ([2, 12], [11, 14]),
    ([17], [20]),
]


# --------------------------------------------------------------------------------------------------------------
# sections
# --------------------------------------------------------------------------------------------------------------
def section_variant_basics(out):
    specs = FIXED_SPECS + [random_variant_spec(0, REF_LEN) for _ in range(30)]
    for i, spec in enumerate(specs):
        for kind in PARENT_KINDS:
            key = f"variant/{i}/{spec}/{kind}"
            v = observe(lambda: build_variant(spec, kind))
            if isinstance(v, str):
                out[key] = v
                continue
            out[key + "/str"] = observe(lambda: str(v) + repr(v))
            out[key + "/to_dict"] = observe(lambda: json.dumps(v.to_dict(), default=str))
            out[key + "/to_dict_rel"] = observe(lambda: json.dumps(v.to_dict(False), default=str))
            out[key + "/roundtrip"] = observe(
                lambda: json.dumps(
                    VariantInterval.from_dict(v.to_dict(), PARENT_KINDS[kind][0]()).to_dict(), default=str
                )
            )
            out[key + "/lendiff"] = observe(lambda: str(v.length_difference))
            out[key + "/altseq"] = observe(lambda: describe_sequence(v.alternative_genomic_sequence))
            out[key + "/altseq2"] = observe(lambda: describe_sequence(v.alternative_genomic_sequence))
            out[key + "/altparent"] = observe(lambda: describe_parent(v.parent_with_alternative_sequence))
            out[key + "/idname"] = observe(lambda: repr((v.id, v.name, v.guid)))


def iter_locations():
    blocks = list(FIXED_BLOCKS) + [random_blocks() for _ in range(40)]
    for starts, ends in blocks:
        for strand in (Strand.PLUS, Strand.MINUS):
            yield starts, ends, strand


def locations_for(kind, starts, ends, strand):
    """Yield (label, location) pairs: chromosome coordinates without parent, and on the matching parent."""
    make_parent, offset = PARENT_KINDS[kind]
    yield "bare", make_location(starts, ends, strand, offset)
    if kind != "none":
        parent = make_parent()
        if kind == "chunk":
            # chunk-relative location carrying the chunk parent
            yield "onparent", observe(
                lambda: FeatureInterval(
                    [s + offset for s in starts], [e + offset for e in ends], strand, parent_or_seq_chunk_parent=parent
                ).chunk_relative_location
            )
        else:
            yield "onparent", make_location(starts, ends, strand, 0).reset_parent(parent)


def section_variant_liftover(out):
    specs = FIXED_SPECS + [random_variant_spec(0, REF_LEN) for _ in range(25)]
    locs = list(iter_locations())
    for i, spec in enumerate(specs):
        for kind in PARENT_KINDS:
            v = observe(lambda: build_variant(spec, kind))
            if isinstance(v, str):
                continue
            for starts, ends, strand in locs:
                for label, loc in locations_for(kind, starts, ends, strand):
                    if isinstance(loc, str):
                        continue
                    key = f"lift/{i}/{spec}/{kind}/{starts}-{ends}{strand.name}/{label}"
                    out[key] = observe(lambda: describe_location(v.lift_over_location(loc)))
                # the private helpers, in chromosome coordinates
                offset = PARENT_KINDS[kind][1]
                bare = make_location(starts, ends, strand, offset)
                key = f"liftpriv/{i}/{spec}/{kind}/{starts}-{ends}{strand.name}"
                if isinstance(bare, SingleInterval):
                    out[key] = observe(
                        lambda: describe_location(v._lift_over_chromosome_location_single_interval(bare))
                    )
                else:
                    out[key] = observe(
                        lambda: describe_location(v._lift_over_chromosome_location_compound_interval(bare))
                    )
            out[f"lift/{i}/{kind}/empty"] = observe(lambda: describe_location(v.lift_over_location(EmptyLocation())))
            out[f"lift/{i}/{kind}/badtype"] = observe(lambda: describe_location(v.lift_over_location("x")))


def all_sets():
    sets = list(FIXED_SETS)
    for k in (1, 2, 2, 3, 3, 3, 4, 4, 5):
        sets.append(random_variant_set(k))
    return sets


def section_collection(out):
    locs = list(iter_locations())
    for i, specs in enumerate(all_sets()):
        for kind in PARENT_KINDS:
            key = f"coll/{i}/{kind}"
            c = observe(lambda: build_collection(specs, kind))
            if isinstance(c, str):
                out[key] = c
                continue
            out[key + "/repr"] = observe(lambda: repr(c))
            out[key + "/attrs"] = observe(
                lambda: repr(
                    (
                        c.start,
                        c.end,
                        c.genomic_start,
                        c.genomic_end,
                        sorted(c.variant_types),
                        c.guid,
                        sorted(map(str, c.children_guids)),
                        [str(g) for g in c.guid_map],
                        describe_location(c.chunk_relative_location),
                        c.is_coding,
                        c.id,
                        c.name,
                    )
                )
            )
            out[key + "/to_dict"] = observe(lambda: json.dumps(c.to_dict(), default=str))
            out[key + "/roundtrip"] = observe(
                lambda: json.dumps(
                    VariantIntervalCollection.from_dict(c.to_dict(), PARENT_KINDS[kind][0]()).to_dict(), default=str
                )
            )
            out[key + "/query"] = observe(
                lambda: repr(c.query_by_guids(c.variant_intervals[0].guid))
                + repr(c.query_by_guids([x.guid for x in c.variant_intervals[::-1]]))
                + repr(c.query_by_guids([]))
            )
            out[key + "/altseq"] = observe(lambda: describe_sequence(c.alternative_genomic_sequence))
            out[key + "/altseq2"] = observe(lambda: describe_sequence(c.alternative_genomic_sequence))
            out[key + "/altparent"] = observe(lambda: describe_parent(c.parent_with_alternative_sequence))
            for starts, ends, strand in locs:
                for label, loc in locations_for(kind, starts, ends, strand):
                    if isinstance(loc, str):
                        continue
                    k2 = f"{key}/lift/{starts}-{ends}{strand.name}/{label}"
                    out[k2] = observe(lambda: describe_location(c.lift_over_location(loc)))
            out[key + "/lift/empty"] = observe(lambda: describe_location(c.lift_over_location(EmptyLocation())))
            out[key + "/lift/badtype"] = observe(lambda: describe_location(c.lift_over_location("x")))
    # constructor errors
    out["coll/errors/empty"] = observe(lambda: repr(VariantIntervalCollection([])))
    out["coll/errors/overlap"] = observe(
        lambda: repr(build_collection([(1, 4, "G", "x"), (3, 5, "", "deletion")], "plain"))
    )
    out["coll/errors/overlap_unsorted"] = observe(
        lambda: repr(build_collection([(8, 9, "G", "x"), (3, 5, "", "deletion"), (4, 6, "A", "y")], "none"))
    )
    out["coll/errors/dup"] = observe(lambda: repr(build_collection([(1, 2, "G", "x"), (1, 2, "G", "x")], "none")))
    out["coll/errors/abutting"] = observe(lambda: repr(build_collection([(1, 2, "G", "x"), (2, 3, "G", "x")], "chunk")))


def describe_interval(iv):
    """Everything observable about a lifted Feature/Transcript/CDS interval."""
    parts = [repr(iv), describe_location(iv.chunk_relative_location), repr(iv.chromosome_location)]
    parts.append(observe(lambda: json.dumps(iv.to_dict(), default=str, sort_keys=True)))
    parts.append(observe(lambda: str(iv.guid)))
    if isinstance(iv, CDSInterval):
        parts.append(observe(lambda: str(iv.extract_sequence())))
        parts.append(observe(lambda: str(iv.translate())))
        parts.append(observe(lambda: repr(iv.frames)))
    else:
        parts.append(observe(lambda: str(iv.get_spliced_sequence())))
        parts.append(observe(lambda: str(iv.get_genomic_sequence())))
        if isinstance(iv, TranscriptInterval) and iv.is_coding:
            parts.append(observe(lambda: str(iv.get_cds_sequence())))
            parts.append(observe(lambda: describe_interval(iv.cds)))
    return " || ".join(parts)


def describe_container(c):
    parts = [repr(c), describe_location(c.chunk_relative_location), observe(lambda: str(c.guid))]
    parts.append(observe(lambda: json.dumps(c.to_dict(), default=str, sort_keys=True)))
    parts.append(observe(lambda: describe_parent(c.chunk_relative_location.parent)))
    for child in c.iter_children():
        if isinstance(child, (GeneInterval, FeatureIntervalCollection)):
            parts.append(describe_container(child))
        elif isinstance(child, VariantIntervalCollection):
            parts.append(repr(child))
        else:
            parts.append(describe_interval(child))
    return " ## ".join(parts)


def variant_objects():
    """(label, kind, object) for single variants and collections on every kind of parent."""
    singles = FIXED_SPECS[:6] + [random_variant_spec(0, REF_LEN) for _ in range(8)]
    sets = all_sets()
    for kind in PARENT_KINDS:
        for i, spec in enumerate(singles):
            v = observe(lambda: build_variant(spec, kind))
            if not isinstance(v, str):
                yield f"single{i}", kind, v
        for i, specs in enumerate(sets):
            c = observe(lambda: build_collection(specs, kind))
            if not isinstance(c, str):
                yield f"set{i}", kind, c


def section_incorporate(out):
    blocks = list(FIXED_BLOCKS) + [random_blocks() for _ in range(10)]
    for vlabel, kind, var in variant_objects():
        make_parent, offset = PARENT_KINDS[kind]
        for starts, ends in blocks:
            s = [x + offset for x in starts]
            e = [x + offset for x in ends]
            for strand in (Strand.PLUS, Strand.MINUS):
                key = f"inc/{vlabel}/{kind}/{starts}-{ends}{strand.name}"
                feat = observe(
                    lambda: FeatureInterval(
                        s,
                        e,
                        strand,
                        qualifiers={"note": ["a", "b"]},
                        feature_types=["zeta", "alpha"],
                        feature_name="fname",
                        feature_id="fid",
                        sequence_name="chrX",
                        is_primary_feature=True,
                        parent_or_seq_chunk_parent=make_parent(),
                    )
                )
                if not isinstance(feat, str):
                    out[key + "/feature"] = observe(lambda: describe_interval(feat.incorporate_variants(var)))
                feat2 = observe(lambda: FeatureInterval(s, e, strand, parent_or_seq_chunk_parent=make_parent()))
                if not isinstance(feat2, str):
                    out[key + "/feature_plain"] = observe(lambda: describe_interval(feat2.incorporate_variants(var)))
                tx = observe(
                    lambda: TranscriptInterval(
                        s,
                        e,
                        strand,
                        qualifiers={"k": ["v"]},
                        transcript_id="tid",
                        transcript_symbol="tsym",
                        protein_id="pid",
                        product="prod",
                        parent_or_seq_chunk_parent=make_parent(),
                    )
                )
                if not isinstance(tx, str):
                    out[key + "/tx"] = observe(lambda: describe_interval(tx.incorporate_variants(var)))
                cds = observe(
                    lambda: CDSInterval.from_location(
                        make_location(s, e, strand),
                        CDSInterval.construct_frames_from_location(make_location(s, e, strand), CDSFrame.ONE),
                        protein_id="pid",
                        product="prod",
                    ).liftover_to_parent_or_seq_chunk_parent(make_parent())
                    if make_parent() is not None
                    else CDSInterval.from_location(
                        make_location(s, e, strand),
                        CDSInterval.construct_frames_from_location(make_location(s, e, strand), CDSFrame.ONE),
                    )
                )
                if not isinstance(cds, str):
                    out[key + "/cds"] = observe(lambda: describe_interval(cds.incorporate_variants(var)))
                # coding transcript whose CDS is the inner part of the exons
                if len(s) == 1 and e[0] - s[0] >= 6:
                    ctx = observe(
                        lambda: TranscriptInterval(
                            s,
                            e,
                            strand,
                            cds_starts=[s[0] + 2],
                            cds_ends=[e[0] - 1],
                            cds_frames=[CDSFrame.ZERO],
                            transcript_type=Biotype.protein_coding,
                            is_primary_tx=True,
                            parent_or_seq_chunk_parent=make_parent(),
                        )
                    )
                else:
                    ctx = observe(
                        lambda: TranscriptInterval(
                            s,
                            e,
                            strand,
                            cds_starts=s,
                            cds_ends=e,
                            cds_frames=[
                                f
                                for f in CDSInterval.construct_frames_from_location(
                                    make_location(s, e, strand), CDSFrame.ZERO
                                )
                            ],
                            parent_or_seq_chunk_parent=make_parent(),
                        )
                    )
                if not isinstance(ctx, str):
                    out[key + "/codingtx"] = observe(lambda: describe_interval(ctx.incorporate_variants(var)))


def make_gene(offset, make_parent, layouts, coding=False, **kw):
    txs = []
    for starts, ends, strand in layouts:
        s = [x + offset for x in starts]
        e = [x + offset for x in ends]
        if coding:
            loc = make_location(s, e, strand)
            txs.append(
                TranscriptInterval(
                    s,
                    e,
                    strand,
                    cds_starts=s,
                    cds_ends=e,
                    cds_frames=CDSInterval.construct_frames_from_location(loc, CDSFrame.ZERO),
                    parent_or_seq_chunk_parent=make_parent(),
                )
            )
        else:
            txs.append(TranscriptInterval(s, e, strand, parent_or_seq_chunk_parent=make_parent()))
    return GeneInterval(txs, parent_or_seq_chunk_parent=make_parent(), **kw)


def make_feature_collection(offset, make_parent, layouts, **kw):
    feats = []
    for starts, ends, strand in layouts:
        s = [x + offset for x in starts]
        e = [x + offset for x in ends]
        feats.append(FeatureInterval(s, e, strand, parent_or_seq_chunk_parent=make_parent()))
    return FeatureIntervalCollection(feats, parent_or_seq_chunk_parent=make_parent(), **kw)


GENE_LAYOUTS = [
    [([0], [15], Strand.PLUS), ([0], [15], Strand.MINUS), ([0, 5, 12], [3, 10, 18], Strand.PLUS)],
    [([17], [20], Strand.PLUS), ([0, 5, 12], [3, 10, 18], Strand.PLUS)],
    [([17], [20], Strand.PLUS)],
    [([2, 9, 20], [6, 16, 33], Strand.MINUS), ([4], [30], Strand.MINUS)],
    [([0], [REF_LEN], Strand.PLUS), ([1, 8, 22], [5, 19, 35], Strand.PLUS)],
]
FEATURE_LAYOUTS = [
    [([0], [15], Strand.PLUS)],
    [([3, 12], [9, 25], Strand.MINUS), ([20], [34], Strand.PLUS)],
    [([30], [36], Strand.PLUS)],
]


def section_containers(out):
    for vlabel, kind, var in variant_objects():
        make_parent, offset = PARENT_KINDS[kind]
        for gi, layout in enumerate(GENE_LAYOUTS):
            for coding in (False, True):
                key = f"gene/{vlabel}/{kind}/{gi}/{coding}"
                gene = observe(
                    lambda: make_gene(
                        offset,
                        make_parent,
                        layout,
                        coding,
                        gene_id="gid",
                        gene_symbol="gsym",
                        locus_tag="lt",
                        qualifiers={"q": ["1"]},
                    )
                )
                if isinstance(gene, str):
                    out[key + "/build"] = gene
                    continue
                out[key] = observe(lambda: describe_container(gene.incorporate_variants(var)))
        for fi, layout in enumerate(FEATURE_LAYOUTS):
            key = f"featcoll/{vlabel}/{kind}/{fi}"
            fc = observe(
                lambda: make_feature_collection(
                    offset,
                    make_parent,
                    layout,
                    feature_collection_name="fcn",
                    feature_collection_id="fcid",
                    locus_tag="lt2",
                    qualifiers={"q": ["2"]},
                )
            )
            if isinstance(fc, str):
                out[key + "/build"] = fc
                continue
            out[key] = observe(lambda: describe_container(fc.incorporate_variants(var)))
        # annotation collection: incorporate_variants
        key = f"anncoll/{vlabel}/{kind}"
        ac = observe(
            lambda: AnnotationCollection(
                [make_feature_collection(offset, make_parent, lay) for lay in FEATURE_LAYOUTS[:2]],
                [make_gene(offset, make_parent, lay) for lay in GENE_LAYOUTS[:3]],
                name="acname",
                id="acid",
                sequence_name="chrQ",
                qualifiers={"z": ["9"]},
                parent_or_seq_chunk_parent=make_parent(),
            )
        )
        if isinstance(ac, str):
            out[key + "/build"] = ac
        else:
            out[key] = observe(lambda: describe_container(ac.incorporate_variants(var)))
            out[key + "/hapmap_none"] = repr(ac.alternative_haplotype_mapping)


def section_haplotype_mapping(out):
    """AnnotationCollection built WITH variant collections -> alternative_haplotype_mapping."""
    sets = all_sets()
    for kind in PARENT_KINDS:
        make_parent, offset = PARENT_KINDS[kind]
        for n_colls in (1, 2, 3):
            for rep in range(4):
                key = f"hapmap/{kind}/{n_colls}/{rep}"
                chosen = [sets[(rep * 3 + j * 5) % len(sets)] for j in range(n_colls)]

                def build():
                    vcs = [
                        build_collection(specs, kind, variant_collection_id=f"vc{j}")
                        for j, specs in enumerate(chosen)
                    ]
                    return AnnotationCollection(
                        [make_feature_collection(offset, make_parent, lay) for lay in FEATURE_LAYOUTS],
                        [make_gene(offset, make_parent, lay, coding=(rep % 2 == 1)) for lay in GENE_LAYOUTS],
                        vcs,
                        parent_or_seq_chunk_parent=make_parent(),
                    )

                ac = observe(build)
                if isinstance(ac, str):
                    out[key + "/build"] = ac
                    continue
                mapping = ac.alternative_haplotype_mapping
                out[key + "/type"] = type(mapping).__name__
                out[key + "/str"] = str(mapping)
                out[key + "/keys"] = repr(list(mapping.keys())) if mapping is not None else "None"
                if mapping is not None:
                    for g, items in mapping.items():
                        out[f"{key}/{g}"] = " @@ ".join(describe_container(x) for x in items)
                    out[key + "/missing_key"] = observe(lambda: repr(mapping["nope"]))
    # single-variant collections that touch only some of the children
    for kind in ("plain", "chunk"):
        make_parent, offset = PARENT_KINDS[kind]
        for spec in FIXED_SPECS:
            key = f"hapmap1/{kind}/{spec}"

            def build():
                return AnnotationCollection(
                    [make_feature_collection(offset, make_parent, lay) for lay in FEATURE_LAYOUTS],
                    [make_gene(offset, make_parent, lay) for lay in GENE_LAYOUTS],
                    [build_collection([spec], kind)],
                    parent_or_seq_chunk_parent=make_parent(),
                )

            ac = observe(build)
            if isinstance(ac, str):
                out[key + "/build"] = ac
                continue
            out[key] = str(ac.alternative_haplotype_mapping)


# --------------------------------------------------------------------------------------------------------------
# VCF parser with stand-in modules
# --------------------------------------------------------------------------------------------------------------
class _Alt:
    def __init__(self, sequence, type_):
        self.sequence = sequence
        self.type = type_


class _Data:
    pass


class _Sample:
    def __init__(self, ps):
        self.data = _Data()
        if ps is not None:
            self.data.PS = ps


class _Rec:
    def __init__(self, chrom, pos, affected_start, affected_end, alts, samples):
        self.CHROM = chrom
        self.POS = pos
        self.affected_start = affected_start
        self.affected_end = affected_end
        self.ALT = alts
        self.samples = samples


def random_vcf_records(n):
    recs = []
    chroms = ["chr1", "chr2", "chr1", "chrM"]  # chr1 appears twice non-consecutively on purpose
    for chrom in chroms:
        for _ in range(rng.randint(0, n)):
            start = rng.randrange(0, 200)
            end = start + rng.choice([0, 0, 1, 2, 5])
            alts = [
                _Alt(random_dna(rng.randint(1, 4)), rng.choice(["SNV", "MNV", None, "indel"]))
                for _ in range(rng.randint(1, 3))
            ]
            ps = rng.choice([None, None, 1, 2, 7, 7, 30])
            samples = [_Sample(ps) for _ in range(rng.randint(1, 2))]
            recs.append(_Rec(chrom, start + 1, start, end, alts, samples))
    return recs


def section_vcf(out):
    import importlib
    import warnings

    saved = {k: sys.modules.get(k) for k in ("inscripta.biocantor.io.models", "vcf", "vcf.model")}
    sys.modules["inscripta.biocantor.io.models"] = _models_stub
    sys.modules["vcf"] = _vcf_stub
    sys.modules["vcf.model"] = _vcf_model_stub
    try:
        mod = importlib.import_module("inscripta.biocantor.io.vcf.parser")
        for i in range(40):
            recs = random_vcf_records(rng.randint(0, 5))
            with warnings.catch_warnings(record=True) as w:
                warnings.simplefilter("always")
                res = observe(lambda: mod.convert_vcf_records_to_model(recs))
            out[f"vcf/{i}"] = json.dumps(res, default=str) if not isinstance(res, str) else res
            out[f"vcf/{i}/keys"] = repr(list(res.keys())) if not isinstance(res, str) else ""
            out[f"vcf/{i}/warnings"] = repr([(x.category.__name__, str(x.message)) for x in w])
        out["vcf/empty"] = repr(mod.convert_vcf_records_to_model([]))

        # parse_vcf_file(): how is the reader opened for the different kinds of argument?
        import io
        import pathlib

        calls = []

        class FakeReader:
            def __init__(self, *args, **kwargs):
                calls.append((tuple(type(a).__name__ + ":" + str(a)[:40] for a in args), sorted(
                    (k, type(v).__name__ + ":" + str(v)) for k, v in kwargs.items())))
                self._recs = random_vcf_records(2)

            def __iter__(self):
                return iter(self._recs)

        class StrSubclass(str):
            def __str__(self):
                return "overridden"

        _vcf_stub.Reader = FakeReader
        handle = io.StringIO("x")
        for j, arg in enumerate(["some/file.vcf", pathlib.Path("some/dir/file.vcf"), pathlib.PurePosixPath("a/b"),
                                 StrSubclass("sub.vcf"), handle, None, 7]):
            del calls[:]
            res = observe(lambda: mod.parse_vcf_file(arg))
            out[f"vcf/parse/{j}"] = (json.dumps(res, default=str) if not isinstance(res, str) else res)
            out[f"vcf/parse/{j}/calls"] = repr(calls).replace(repr(handle), "HANDLE").replace(str(handle), "HANDLE")
        out["vcf/parse/noarg"] = observe(lambda: json.dumps(mod.parse_vcf_file(), default=str))
    finally:
        for k, v in saved.items():
            if v is None:
                sys.modules.pop(k, None)
            else:
                sys.modules[k] = v
        sys.modules.pop("inscripta.biocantor.io.vcf.parser", None)


# --------------------------------------------------------------------------------------------------------------
# bundled upstream tests for variants (runnable once io.parser is replaced by the stand-in)
# --------------------------------------------------------------------------------------------------------------
def section_upstream_tests(out):
    import pytest

    class Collector:
        def __init__(self):
            self.results = {}

        def pytest_runtest_logreport(self, report):
            if report.when == "call" or (report.when == "setup" and report.outcome != "passed"):
                self.results[report.nodeid] = report.outcome

    col = Collector()
    devnull = open(os.devnull, "w")
    old = sys.stdout
    sys.stdout = devnull
    try:
        rc = pytest.main(
            ["-q", "-p", "no:cacheprovider", "-p", "no:xdist", "tests/minimal/gene/test_variants.py"], plugins=[col]
        )
    finally:
        sys.stdout = old
        devnull.close()
    out["upstream/rc"] = str(int(rc))
    out["upstream/n"] = str(len(col.results))
    for k, v in sorted(col.results.items()):
        out["upstream/" + k] = v


SECTIONS = [
    section_variant_basics,
    section_variant_liftover,
    section_collection,
    section_incorporate,
    section_containers,
    section_haplotype_mapping,
    section_vcf,
    section_upstream_tests,
]


def dump(path):
    out = {}
    for sec in SECTIONS:
        before = len(out)
        sec(out)
        print(f"{sec.__name__}: {len(out) - before} records", file=sys.stderr)
    os.makedirs(os.path.dirname(os.path.abspath(path)), exist_ok=True)
    with open(path, "w") as fh:
        json.dump(out, fh, indent=0, sort_keys=True)
    n_exc = sum(1 for v in out.values() if isinstance(v, str) and v.startswith("EXC "))
    print(f"wrote {len(out)} records ({n_exc} of them exceptions) to {path}")


def compare(a, b):
    with open(a) as fh:
        da = json.load(fh)
    with open(b) as fh:
        db = json.load(fh)
    bad = 0
    for k in sorted(set(da) | set(db)):
        if da.get(k) != db.get(k):
            bad += 1
            if bad <= 20:
                print("DIFF", k)
                print("   A:", str(da.get(k))[:400])
                print("   B:", str(db.get(k))[:400])
    print(f"{len(da)} vs {len(db)} records, {bad} differences")
    return 1 if bad else 0


if __name__ == "__main__":
    if sys.argv[1] == "dump":
        dump(sys.argv[2])
    elif sys.argv[1] == "compare":
        sys.exit(compare(sys.argv[2], sys.argv[3]))
    else:
        raise SystemExit(__doc__)
