"""
Equivalence harness for the GFF3 export / parse code paths (property C11).

Usage (from the worktree root):

    /venv/bin/python _refactor/RX/equiv.py dump /tmp/before.json      # on the pristine tree
    git apply _refactor/RX/patch.diff
    /venv/bin/python _refactor/RX/equiv.py dump /tmp/after.json       # on the refactored tree
    /venv/bin/python _refactor/RX/equiv.py compare /tmp/before.json /tmp/after.json

Every observation is recorded as a string (repr / str / exception type + message / captured warnings) keyed by a
case name; the compare step demands identical keys and identical values.
"""
import io
import itertools
import json
import random
import sys
import tempfile
import types
import warnings
from pathlib import Path
from uuid import UUID

ROOT = Path(__file__).resolve().parent.parent.parent
sys.path.insert(0, str(ROOT))

import inscripta.biocantor.location  # noqa: F401,E402  (must be first: circular import otherwise)

assert Path(inscripta.biocantor.location.__file__).resolve().is_relative_to(ROOT), "wrong checkout imported"
from inscripta.biocantor.location import Strand, SingleInterval
from inscripta.biocantor.parent import Parent, SequenceType
from inscripta.biocantor.sequence import Sequence, Alphabet
from inscripta.biocantor.gene import (
    TranscriptInterval,
    GeneInterval,
    FeatureInterval,
    FeatureIntervalCollection,
    CDSFrame,
    CDSPhase,
    Biotype,
)
from inscripta.biocantor.gene.cds import CDSInterval
from inscripta.biocantor.gene.collections import AnnotationCollection
from inscripta.biocantor.io.gff3.rows import GFFAttributes, GFFRow
from inscripta.biocantor.io.gff3.constants import BioCantorFeatureTypes
from inscripta.biocantor.io.gff3.writer import collection_to_gff3

DATA = ROOT / "tests" / "data"

RESULTS = {}
TMPDIRS = ["<none>"]


def observe(name, fn):
    """Run fn, record its string result, exception, and any warnings raised."""
    assert name not in RESULTS, name
    with warnings.catch_warnings(record=True) as w:
        warnings.simplefilter("always")
        try:
            out = fn()
            res = {"ok": out}
        except Exception as e:  # noqa
            res = {"exc": f"{type(e).__module__}.{type(e).__name__}: {e}"}
    res["warnings"] = [f"{x.category.__name__}: {x.message}" for x in w]
    RESULTS[name] = res


# ----------------------------------------------------------------------------------------------------------------
# parents
# ----------------------------------------------------------------------------------------------------------------

GENOME = "".join(random.Random(11).choice("ACGT") for _ in range(400))


def seq_to_parent(seq, seq_id=None, seq_type=SequenceType.CHROMOSOME):
    # copied from inscripta.biocantor.io.parser (cannot be imported in this environment)
    return Parent(
        sequence=Sequence(seq, Alphabet.NT_EXTENDED_GAPPED, type=seq_type, id=seq_id),
        location=SingleInterval(0, len(seq), Strand.PLUS),
    )


def seq_chunk_to_parent(seq, sequence_name, start, end, strand=Strand.PLUS):
    chunk_id = f"{sequence_name}:{start}-{end}"
    return Parent(
        id=chunk_id,
        sequence=Sequence(
            seq,
            Alphabet.NT_EXTENDED_GAPPED,
            id=chunk_id,
            type=SequenceType.SEQUENCE_CHUNK,
            parent=Parent(
                location=SingleInterval(
                    start, end, strand, parent=Parent(id=sequence_name, sequence_type=SequenceType.CHROMOSOME)
                )
            ),
        ),
    )


def parents():
    return {
        "none": lambda: None,
        "chrom": lambda: seq_to_parent(GENOME, "chr1"),
        "chunk": lambda: seq_chunk_to_parent(GENOME[10:330], "chr1", 10, 330),
        "chunk_small": lambda: seq_chunk_to_parent(GENOME[40:200], "chr1", 40, 200),
    }


# ----------------------------------------------------------------------------------------------------------------
# gene / feature builders
# ----------------------------------------------------------------------------------------------------------------

NASTY = ["a;b", "x=y", "50%", "tab\there", "nl\nx", "cr\rx", "sp ace", ">gt", "a&b", "q\"uote'", "ünicode☃", "c,omma", ""]

TX_SPECS = [
    # name, exon_starts, exon_ends, strand, cds_starts, cds_ends, frames
    ("single_plus_nc", [20], [80], Strand.PLUS, None, None, None),
    ("single_minus_nc", [20], [80], Strand.MINUS, None, None, None),
    ("multi_plus_cds", [20, 60, 120], [50, 100, 180], Strand.PLUS, [25, 60, 120], [50, 100, 170], "auto"),
    ("multi_minus_cds", [20, 60, 120], [50, 100, 180], Strand.MINUS, [25, 60, 120], [50, 100, 170], "auto"),
    (
        "offset_frames_plus",
        [50, 90, 150, 210],
        [80, 130, 200, 260],
        Strand.PLUS,
        [55, 90, 150],
        [80, 130, 190],
        [CDSFrame.ONE, CDSFrame.TWO, CDSFrame.ZERO],
    ),
    (
        "offset_frames_minus",
        [50, 90, 150, 210],
        [80, 130, 200, 260],
        Strand.MINUS,
        [90, 150, 210],
        [130, 200, 250],
        [CDSFrame.TWO, CDSFrame.ONE, CDSFrame.TWO],
    ),
    # 0bp gap CDS blocks (adjacent) inside one exon
    ("zero_gap_plus", [100], [200], Strand.PLUS, [110, 140], [140, 180], [CDSFrame.ZERO, CDSFrame.ONE]),
    ("zero_gap_minus", [100], [200], Strand.MINUS, [110, 140], [140, 180], [CDSFrame.ZERO, CDSFrame.ONE]),
    ("unstranded_like", [60, 200], [150, 300], Strand.PLUS, [70], [140], [CDSFrame.ZERO]),
]


def build_tx(spec, parent, idx=0, qualifiers=None, sequence_name="chr1", biotype=Biotype.protein_coding):
    name, es, ee, strand, cs, ce, frames = spec
    if frames == "auto":
        frames = None
    kwargs = dict(
        exon_starts=es,
        exon_ends=ee,
        strand=strand,
        qualifiers=qualifiers,
        transcript_id=f"tx-{name}-{idx}" if idx % 3 != 2 else None,
        transcript_symbol=f"sym {name};{idx}" if idx % 2 == 0 else None,
        transcript_type=biotype if cs else (Biotype.lncRNA if idx % 2 else None),
        sequence_name=sequence_name,
        protein_id=f"prot,{name}" if cs and idx % 2 == 0 else None,
        product="a product; with = signs" if cs and idx % 3 == 0 else None,
        parent_or_seq_chunk_parent=parent,
    )
    if cs:
        kwargs.update(cds_starts=cs, cds_ends=ce)
        if frames is None:
            loc = TranscriptInterval.initialize_location(cs, ce, strand)
            frames = CDSInterval.construct_frames_from_location(loc)
        kwargs["cds_frames"] = frames
    return TranscriptInterval(**kwargs)


def qualifier_sets():
    yield "none", None
    yield "simple", {"note": ["x", "y"], "Alias": ["al1"], "UPPER": ["v"]}
    yield "nasty", {k if k else "empty": [v for v in NASTY[i:] + NASTY[:i]][:3] for i, k in enumerate(NASTY)}
    yield "gff3_reserved", {"Dbxref": ["db:1", "db:2"], "Note": ["n"], "Ontology_term": ["GO:1"], "Target": ["t 1 2"]}
    yield "ints", {"number": [1, 2, 3], "5": ["five"], "mixed": [1.5, 2]}
    yield "emptyvals", {"k1": [], "k2": ["z"]}


def build_genes(parent_fn, sequence_name="chr1"):
    genes = []
    quals = list(qualifier_sets())
    for gi, group in enumerate([TX_SPECS[0:2], TX_SPECS[2:4], TX_SPECS[4:6], TX_SPECS[6:8], TX_SPECS[8:9], TX_SPECS[2:6]]):
        txs = [
            build_tx(spec, parent_fn(), idx=gi + ti, qualifiers=quals[(gi + ti) % len(quals)][1], sequence_name=sequence_name)
            for ti, spec in enumerate(group)
        ]
        genes.append(
            GeneInterval(
                transcripts=txs,
                gene_id=f"gene-{gi}" if gi % 3 else None,
                gene_symbol=f"GENE {gi}>" if gi % 2 == 0 else None,
                gene_type=[Biotype.protein_coding, None, Biotype.lncRNA][gi % 3],
                locus_tag=f"LT_{gi}" if gi % 2 else None,
                qualifiers=quals[(gi + 1) % len(quals)][1],
                sequence_name=sequence_name,
                parent_or_seq_chunk_parent=parent_fn(),
            )
        )
    return genes


FEAT_SPECS = [
    ("f_single_plus", [30], [60], Strand.PLUS),
    ("f_multi_minus", [30, 80, 150], [60, 120, 190], Strand.MINUS),
    ("f_multi_plus", [45, 100], [70, 160], Strand.PLUS),
    ("f_unstranded", [200, 250], [230, 300], Strand.UNSTRANDED),
]


def build_feature_collections(parent_fn, sequence_name="chr1", mixed_strands=True):
    quals = list(qualifier_sets())
    out = []
    if mixed_strands:
        groups = [FEAT_SPECS[0:1], FEAT_SPECS[1:3], FEAT_SPECS[3:4], FEAT_SPECS]
    else:
        # the parser refuses children of one collection on different strands
        groups = [FEAT_SPECS[0:1], [FEAT_SPECS[0], FEAT_SPECS[2]], FEAT_SPECS[3:4], FEAT_SPECS[1:2]]
    for ci, group in enumerate(groups):
        feats = []
        for fi, (name, s, e, strand) in enumerate(group):
            feats.append(
                FeatureInterval(
                    interval_starts=s,
                    interval_ends=e,
                    strand=strand,
                    qualifiers=quals[(ci + fi + 2) % len(quals)][1],
                    sequence_name=sequence_name,
                    feature_types=[["promoter"], ["b;type", "a type"], None][(ci + fi) % 3],
                    feature_name=f"feat {name}" if (ci + fi) % 2 == 0 else None,
                    feature_id=f"fid={name}" if (ci + fi) % 3 else None,
                    parent_or_seq_chunk_parent=parent_fn(),
                )
            )
        out.append(
            FeatureIntervalCollection(
                feature_intervals=feats,
                feature_collection_name=f"coll {ci}" if ci % 2 == 0 else None,
                feature_collection_id=f"cid,{ci}" if ci % 3 else None,
                feature_collection_type="regulatory region" if ci % 2 else None,
                locus_tag=f"FLT{ci}" if ci % 2 == 0 else None,
                sequence_name=sequence_name,
                qualifiers=quals[(ci + 3) % len(quals)][1],
                parent_or_seq_chunk_parent=parent_fn(),
            )
        )
    return out


def build_collection(parent_fn, sequence_name="chr1", with_features=True, mixed_strands=True, **kwargs):
    return AnnotationCollection(
        genes=build_genes(parent_fn, sequence_name),
        feature_collections=build_feature_collections(parent_fn, sequence_name, mixed_strands) if with_features else None,
        sequence_name=sequence_name,
        parent_or_seq_chunk_parent=parent_fn(),
        **kwargs,
    )


def rows_to_text(rows):
    return "\n".join(str(r) for r in rows)


def rows_to_repr(rows):
    # repr of the dataclass fields except the attributes object (no repr); add its state explicitly
    out = []
    for r in rows:
        a = r.attributes
        out.append(
            repr(
                (
                    r.seqid,
                    r.source,
                    r.type,
                    r.start,
                    r.end,
                    r.score,
                    r.strand,
                    r.phase,
                    a.id,
                    a.name,
                    a.parent,
                    sorted((repr(k), sorted(map(repr, v))) for k, v in a.attributes.items()),
                    a.raise_on_reserved_attributes,
                )
            )
        )
    return out


def qual_repr(q):
    return sorted((repr(k), sorted(map(repr, v))) for k, v in q.items())


# ----------------------------------------------------------------------------------------------------------------
# cases: rows.py
# ----------------------------------------------------------------------------------------------------------------


def cases_rows():
    rng = random.Random(3)
    alphabet = list("ab;=%\t\n\r >,&\"'ü☃AZ09.%25") + ["%3B", ""]
    strings = list(NASTY) + ["".join(rng.choice(alphabet) for _ in range(rng.randint(0, 12))) for _ in range(60)]
    for i, s in enumerate(strings):
        observe(f"escape_key/{i}", lambda: repr((GFFAttributes.escape_key(s), GFFAttributes.escape_key(s, lower=True), GFFAttributes.escape_key(s, True), GFFAttributes.escape_key(s, lower=None))))
        observe(
            f"escape_value/{i}",
            lambda: repr(
                (
                    GFFAttributes.escape_value(s),
                    GFFAttributes.escape_value(s, escape_comma=True),
                    GFFAttributes.escape_value(s, True),
                    GFFAttributes.escape_value(s, escape_comma=None),
                    GFFAttributes.escape_value(s, escape_comma=1),
                )
            ),
        )
    for i, v in enumerate([0, 1.5, None, True, UUID(int=5), ("a", ";"), b"by;tes", Strand.PLUS, [], ""]):
        observe(f"escape_value_nonstr/{i}", lambda: repr((GFFAttributes.escape_value(v), GFFAttributes.escape_value(v, escape_comma=True))))
    for i, v in enumerate([0, None, b"x;y", ("a",)]):
        # only the exception type is compared here (the message of the TypeError is an implementation detail)
        def _only_type():
            try:
                return type(GFFAttributes.escape_key(v)).__name__
            except Exception as e:  # noqa
                return f"raises {type(e).__name__}"

        observe(f"escape_key_nonstr/{i}", _only_type)
    observe("private_escape", lambda: repr((GFFAttributes.escape_value("a,b;c"), GFFAttributes.escape_value("a,b;c", True))))

    # GFFAttributes.__str__
    attr_cases = []
    for qname, q in qualifier_sets():
        qs = {k: set(v) for k, v in q.items()} if q else {}
        for id_, name, parent in [("id1", None, None), ("i;d,2", "na me,", None), ("id3", None, "par,ent;"), ("", "", ""), (None, "n", "p"), (7, 8, 9)]:
            attr_cases.append((qname, id_, name, parent, qs))
    for i, (qname, id_, name, parent, qs) in enumerate(attr_cases):
        for flag in (True, False):
            observe(
                f"attrs_str/{qname}/{i}/{flag}",
                lambda: str(GFFAttributes(id=id_, qualifiers=qs, name=name, parent=parent, raise_on_reserved_attributes=flag)),
            )
    for key in ["ID", "Name", "Parent", "id", "name", "parent", "Alias", "alias", "Gap", "Derives_from", "derives_from"]:
        for flag in (True, False, None):
            observe(
                f"attrs_reserved/{key}/{flag}",
                lambda: str(GFFAttributes(id="x", qualifiers={key: {"v1", "v2"}, "zzz": {"a"}, "AAA": {"b"}}, name="n", parent="p", raise_on_reserved_attributes=flag)),
            )
        observe(f"attrs_reserved_empty/{key}", lambda: str(GFFAttributes(id="x", qualifiers={key: set(), "k": {"a"}})))
    observe("attrs_not_sets", lambda: str(GFFAttributes(id="x", qualifiers={"a": ["b"]})))
    observe("attrs_not_sets2", lambda: str(GFFAttributes(id="x", qualifiers={"a": {"b"}, "c": "d"})))
    observe("attrs_mixed_keys", lambda: str(GFFAttributes(id="x", qualifiers={"a": {"b"}, 5: {"d"}})))
    observe("attrs_int_keys", lambda: str(GFFAttributes(id="x", qualifiers={2: {"b", 3, 4.5}, 1: {"d"}})))
    observe("attrs_default_flag", lambda: str(GFFAttributes(id="x", qualifiers={"ID": {"b"}})))

    # GFFRow.__str__
    a = GFFAttributes(id="row;id", qualifiers={"Key One": {"v 1", "v,2"}}, name="nm", parent="pp")
    for i, (t, strand, phase, score) in enumerate(
        itertools.product(
            [BioCantorFeatureTypes.GENE, BioCantorFeatureTypes.CDS, BioCantorFeatureTypes.FEATURE_INTERVAL_REGION],
            list(Strand),
            list(CDSPhase),
            [".", 1.5],
        )
    ):
        observe(f"row_str/{i}", lambda: str(GFFRow("chr 1", "src", t, 5 + i, 10 + i, score, strand, phase, a)))
    observe("row_str_bad_attrs", lambda: str(GFFRow("c", "s", BioCantorFeatureTypes.GENE, 1, 2, ".", Strand.PLUS, CDSPhase.NONE, GFFAttributes(id="x", qualifiers={"ID": {"1"}}))))
    observe("row_str_bad_type", lambda: str(GFFRow("c", "s", "gene", 1, 2, ".", Strand.PLUS, CDSPhase.NONE, a)))
    observe("row_eq", lambda: repr(GFFRow("c", "s", BioCantorFeatureTypes.GENE, 1, 2, ".", Strand.PLUS, CDSPhase.NONE, a) == GFFRow("c", "s", BioCantorFeatureTypes.GENE, 1, 2, ".", Strand.PLUS, CDSPhase.NONE, a)))


# ----------------------------------------------------------------------------------------------------------------
# cases: to_gff / export_qualifiers on the gene model
# ----------------------------------------------------------------------------------------------------------------


def cases_to_gff():
    for pname, pfn in parents().items():
        genes = build_genes(pfn)
        fcs = build_feature_collections(pfn)
        for gi, gene in enumerate(genes):
            observe(f"gene_export_qualifiers/{pname}/{gi}", lambda: repr(qual_repr(gene.export_qualifiers())))
            for crc, flag in itertools.product([True, False], [True, False]):
                observe(f"gene_to_gff_text/{pname}/{gi}/{crc}/{flag}", lambda: rows_to_text(gene.to_gff(chromosome_relative_coordinates=crc, raise_on_reserved_attributes=flag)))
                observe(f"gene_to_gff_rows/{pname}/{gi}/{crc}/{flag}", lambda: rows_to_repr(gene.to_gff(crc, flag)))
            for ti, tx in enumerate(gene.transcripts):
                pq = {"gene_id": {"g1"}, "extra key": {"v;1", "v2"}, "transcript_id": {"from_parent"}}
                observe(f"tx_export_qualifiers/{pname}/{gi}/{ti}", lambda: repr((qual_repr(tx.export_qualifiers()), qual_repr(tx.export_qualifiers(pq)), qual_repr(pq))))
                for crc in (True, False):
                    observe(f"tx_to_gff_text/{pname}/{gi}/{ti}/{crc}", lambda: rows_to_text(tx.to_gff(chromosome_relative_coordinates=crc, raise_on_reserved_attributes=False)))
                    observe(f"tx_to_gff_parent/{pname}/{gi}/{ti}/{crc}", lambda: rows_to_repr(tx.to_gff("the,parent", pq, crc, False)))
                    observe(f"tx_to_gff_default/{pname}/{gi}/{ti}/{crc}", lambda: rows_to_text(tx.to_gff(parent="pp", chromosome_relative_coordinates=crc)))
                if tx.cds:
                    observe(f"cds_export_qualifiers/{pname}/{gi}/{ti}", lambda: repr((qual_repr(tx.cds.export_qualifiers()), qual_repr(tx.cds.export_qualifiers(pq)), qual_repr(pq))))
                    for crc in (True, False):
                        observe(f"cds_to_gff_text/{pname}/{gi}/{ti}/{crc}", lambda: rows_to_text(tx.cds.to_gff(chromosome_relative_coordinates=crc, raise_on_reserved_attributes=False)))
                        observe(f"cds_to_gff_parent/{pname}/{gi}/{ti}/{crc}", lambda: rows_to_repr(tx.cds.to_gff("cds parent", pq, crc, False)))
        for ci, fc in enumerate(fcs):
            observe(f"fc_export_qualifiers/{pname}/{ci}", lambda: repr(qual_repr(fc.export_qualifiers())))
            for crc, flag in itertools.product([True, False], [True, False]):
                observe(f"fc_to_gff_text/{pname}/{ci}/{crc}/{flag}", lambda: rows_to_text(fc.to_gff(chromosome_relative_coordinates=crc, raise_on_reserved_attributes=flag)))
                observe(f"fc_to_gff_rows/{pname}/{ci}/{crc}/{flag}", lambda: rows_to_repr(fc.to_gff(crc, flag)))
            for fi, feat in enumerate(fc.feature_intervals):
                pq = {"feature_id": {"pf"}, "k": {"v"}}
                observe(f"feat_export_qualifiers/{pname}/{ci}/{fi}", lambda: repr((qual_repr(feat.export_qualifiers()), qual_repr(feat.export_qualifiers(pq)), qual_repr(pq))))
                for crc in (True, False):
                    observe(f"feat_to_gff_text/{pname}/{ci}/{fi}/{crc}", lambda: rows_to_text(feat.to_gff(chromosome_relative_coordinates=crc, raise_on_reserved_attributes=False)))
                    observe(f"feat_to_gff_parent/{pname}/{ci}/{fi}/{crc}", lambda: rows_to_repr(feat.to_gff("fp", pq, crc, False)))

    # no sequence name -> exceptions, lazily raised (creating the generator must not raise)
    tx = build_tx(TX_SPECS[2], None, sequence_name=None)
    gene = GeneInterval(transcripts=[tx], sequence_name=None)
    feat = FeatureInterval([1], [5], Strand.PLUS)
    fc = FeatureIntervalCollection([feat])
    for nm, obj in [("tx", tx), ("gene", gene), ("feat", feat), ("fc", fc), ("cds", tx.cds)]:
        observe(f"noseqname_create/{nm}", lambda: type(obj.to_gff()).__name__)
        observe(f"noseqname_iterate/{nm}", lambda: rows_to_text(obj.to_gff()))
        observe(f"noseqname_chunkrel/{nm}", lambda: rows_to_text(obj.to_gff(chromosome_relative_coordinates=False)))
    # partially consumed generators
    g = build_genes(parents()["chunk"])[1]
    observe("partial_iter", lambda: rows_to_text(itertools.islice(g.to_gff(chromosome_relative_coordinates=False), 3)))


# ----------------------------------------------------------------------------------------------------------------
# cases: collections + writer
# ----------------------------------------------------------------------------------------------------------------


class RecordingHandle(io.StringIO):
    pass


def write_gff3(collections, **kwargs):
    fh = RecordingHandle()
    try:
        collection_to_gff3(collections, fh, **kwargs)
    except Exception as e:  # noqa
        return f"PARTIAL<{fh.getvalue()}> EXC {type(e).__name__}: {e}"
    return fh.getvalue()


def cases_collections():
    for pname, pfn in parents().items():
        coll = build_collection(pfn)
        for crc, flag in itertools.product([True, False], [True, False]):
            observe(f"coll_to_gff_text/{pname}/{crc}/{flag}", lambda: rows_to_text(coll.to_gff(chromosome_relative_coordinates=crc, raise_on_reserved_attributes=flag)))
            observe(f"coll_to_gff_rows/{pname}/{crc}/{flag}", lambda: rows_to_repr(coll.to_gff(crc, flag)))
            observe(f"coll_unsorted/{pname}/{crc}/{flag}", lambda: rows_to_text(coll._unsorted_gff_iter(crc, flag)))
        observe(f"coll_to_gff_create/{pname}", lambda: type(coll.to_gff()).__name__)
        for ct in ["feature", "FEATURE", "transcript", "Transcript", "variant", "VARIANT", "gene", ""]:
            observe(f"coll_children_by_type/{pname}/{ct}", lambda: repr([str(c.guid) for c in coll.get_children_by_type(ct)]))
        observe(f"coll_children_by_type_bad/{pname}", lambda: repr(coll.get_children_by_type(None)))

    empty = AnnotationCollection(sequence_name="chrE")
    observe("coll_empty", lambda: rows_to_text(empty.to_gff()))

    def colls(pnames_seqnames, **kw):
        return [build_collection(parents()[p], sequence_name=s, **kw) for p, s in pnames_seqnames]

    configs = {
        "two_chrom": [("chrom", "chr2"), ("chrom", "chr1")],
        "two_none": [("none", "chrB"), ("none", "chrA")],
        "chunk_and_chrom": [("chrom", "chr1"), ("chunk", "chr1")],
        "chunk_only": [("chunk", "chr1"), ("chunk_small", "chr1")],
        "none_then_chrom": [("chrom", "chr1"), ("none", "chr0")],
        "empty_list": [],
    }
    for cname, cfg in configs.items():
        for add_seq, ordered, crc, flag in itertools.product([True, False], [True, False, None], [True, False], [True, False]):
            observe(
                f"writer/{cname}/{add_seq}/{ordered}/{crc}/{flag}",
                lambda: write_gff3(colls(cfg), add_sequences=add_seq, ordered=ordered, chromosome_relative_coordinates=crc, raise_on_reserved_attributes=flag),
            )
            # one-shot iterables
            observe(
                f"writer_gen/{cname}/{add_seq}/{ordered}/{crc}/{flag}",
                lambda: write_gff3((c for c in colls(cfg)), add_sequences=add_seq, ordered=ordered, chromosome_relative_coordinates=crc, raise_on_reserved_attributes=flag),
            )
    observe("writer_defaults", lambda: write_gff3(colls(configs["two_none"], with_features=False)))
    observe("writer_positional", lambda: write_gff3(colls(configs["two_chrom"], with_features=False)))

    def positional():
        fh = io.StringIO()
        collection_to_gff3(colls(configs["two_chrom"]), fh, True, False, True, False)
        return fh.getvalue()

    observe("writer_positional_args", positional)


# ----------------------------------------------------------------------------------------------------------------
# cases: parser (io.models / io.parser cannot be imported here: stub them, the parse functions then return the plain
# dictionaries that would have been handed to the marshmallow schema)
# ----------------------------------------------------------------------------------------------------------------


def import_gff3_parser():
    import dataclasses

    models = types.ModuleType("inscripta.biocantor.io.models")

    class _Schema:
        def load(self, d):
            return d

    class AnnotationCollectionModel:
        Schema = _Schema

    models.AnnotationCollectionModel = AnnotationCollectionModel

    parser = types.ModuleType("inscripta.biocantor.io.parser")

    @dataclasses.dataclass
    class ParsedAnnotationRecord:
        annotation: dict
        seqrecord: object = None

    parser.ParsedAnnotationRecord = ParsedAnnotationRecord
    sys.modules.setdefault("inscripta.biocantor.io.models", models)
    sys.modules.setdefault("inscripta.biocantor.io.parser", parser)
    import inscripta.biocantor.io.gff3.parser as gff3_parser

    return gff3_parser


def _jsonable(x):
    if isinstance(x, dict):
        return {str(k): _jsonable(v) for k, v in x.items()}
    if isinstance(x, (list, tuple)):
        return [_jsonable(v) for v in x]
    if isinstance(x, (str, int, float, bool)) or x is None:
        return x
    return repr(x)


def record_repr(rec):
    class _Annot(dict):
        pass

    annot = rec.annotation
    seq = None
    if rec.seqrecord is not None:
        seq = (rec.seqrecord.id, str(rec.seqrecord.seq))
    return json.dumps(_jsonable({"annotation": annot, "seq": seq}), sort_keys=False)


def cases_parser():
    import logging

    p = import_gff3_parser()

    class _ListHandler(logging.Handler):
        def __init__(self):
            super().__init__()
            self.msgs = []

        def emit(self, record):
            self.msgs.append(f"{record.levelname}: {record.getMessage()}")

    def parse(fn, *args, **kwargs):
        handler = _ListHandler()
        p.logger.addHandler(handler)
        p.logger.setLevel(logging.INFO)
        out = []
        try:
            try:
                for rec in fn(*args, **kwargs):
                    # the stub record stores sequence_name inside the dict: emulate attribute access used by the parser
                    out.append(record_repr(rec))
            except Exception as e:  # noqa
                out.append(f"EXC {type(e).__module__}.{type(e).__name__}: {e}")
        finally:
            p.logger.removeHandler(handler)
        return {"records": out, "log": [m.replace(str(DATA), "<DATA>").replace(TMPDIRS[-1], "<TMP>") for m in handler.msgs]}

    gffs = sorted(list(DATA.glob("*.gff3")) + list(DATA.glob("*.gff")))
    for g in gffs:
        observe(f"parse_standard/{g.name}", lambda: parse(p.parse_standard_gff3, g))

    # embedded fasta: the real parser reads annot_record.annotation.sequence_name; give the dict attribute access
    class AttrDict(dict):
        __getattr__ = dict.__getitem__

    p.AnnotationCollectionModel.Schema.load = lambda self, d: AttrDict(d)
    for g in gffs:
        observe(f"parse_embedded/{g.name}", lambda: parse(p.parse_gff3_embedded_fasta, g))
        with open(g) as fh:
            observe(f"extract_seqrecords/{g.name}", lambda: repr([(r.id, str(r.seq)) for r in p.extract_seqrecords_from_gff3_fasta(fh)]))
    fasta = sorted(DATA.glob("INSC1003*.fa*"))
    for f in fasta:
        observe(f"parse_gff3_fasta/{f.name}", lambda: parse(p.parse_gff3_fasta, DATA / "INSC1003.gff3", f))
    observe("parse_missing_gff", lambda: parse(p.parse_standard_gff3))

    # export -> parse of generated collections (comma / double quote free qualifiers for the re-parse leg)
    with tempfile.TemporaryDirectory() as td:
        TMPDIRS.append(str(td))
        for (pname, crc, add_seq), feats in itertools.product(
            [("none", True, False), ("chrom", True, True), ("chrom", True, False), ("chunk", False, True), ("chunk", False, False), ("chunk", True, False)],
            [True, False],
        ):
            coll = build_collection(parents()[pname], with_features=feats, mixed_strands=False)
            path = Path(td) / f"{pname}_{crc}_{add_seq}_{feats}.gff3"
            with open(path, "w") as fh, warnings.catch_warnings():
                warnings.simplefilter("ignore")
                collection_to_gff3([coll], fh, add_sequences=add_seq, chromosome_relative_coordinates=crc, raise_on_reserved_attributes=False)
            tag = f"{pname}/{crc}/{add_seq}/{feats}"
            observe(f"roundtrip_text/{tag}", lambda: path.read_text())
            observe(f"roundtrip_parse/{tag}", lambda: parse(p.parse_standard_gff3, path))
            observe(f"roundtrip_parse_embedded/{tag}", lambda: parse(p.parse_gff3_embedded_fasta, path))
        # empty file, header only
        empty = Path(td) / "empty.gff3"
        empty.write_text("##gff-version 3\n")
        observe("parse_empty", lambda: parse(p.parse_standard_gff3, empty))
        dup = Path(td) / "dup.gff3"
        dup.write_text("##gff-version 3\nchr1\t.\tgene\t1\t10\t.\t+\t.\tID=g1\n##FASTA\n>chr1\nACGTACGTAC\n>chr1\nACGT\n")
        observe("parse_dup_fasta", lambda: parse(p.parse_gff3_embedded_fasta, dup))
        extra = Path(td) / "extra.gff3"
        extra.write_text(
            "##gff-version 3\n"
            "chr1\t.\tgene\t1\t10\t.\t+\t.\tID=g1;gene_biotype=weird;Name=nm\n"
            "chr1\t.\tmRNA\t1\t10\t.\t+\t.\tID=t1;Parent=g1;transcript_biotype=odd\n"
            "chr1\t.\tCDS\t1\t10\t.\t+\t.\tID=c1;Parent=t1;protein_id=P1;product=prod\n"
            "chr1\t.\tintron\t3\t4\t.\t+\t.\tID=i1;Parent=t1\n"
            "chr1\t.\tblah\t3\t4\t.\t+\t.\tID=b1;Parent=g1\n"
            "chr1\t.\tgene\t20\t30\t.\t-\t.\tID=g2;locus_tag=LT2;gene_type=protein_coding\n"
            "chr1\t.\texon\t20\t25\t.\t-\t.\tID=e2;Parent=g2\n"
            "chr1\t.\tCDS\t21\t25\t.\t-\t0\tID=c2;Parent=g2\n"
            "chr1\t.\tgene\t40\t60\t.\t-\t.\tID=g3;locus_tag=LT3;gene_biotype=lncRNA;transcript_biotype=lncRNA;transcript_name=T3\n"
            "chr1\t.\tlncRNA\t40\t60\t.\t-\t.\tID=t3;Parent=g3\n"
            "chr1\t.\texon\t40\t60\t.\t-\t.\tID=e3;Parent=t3\n"
            "chr1\t.\tCDS\t70\t90\t.\t+\t.\tID=c4;gene=cdsgene\n"
            "chr1\t.\tpseudogene\t100\t120\t.\t+\t.\tID=g5;gene_symbol=ps\n"
            "chr1\t.\tpromoter\t130\t140\t.\t+\t.\tID=p1;locus_tag=LTP;feature_name=prom\n"
            "chr1\t.\tregion\t150\t190\t.\t+\t.\tID=r1;feature_id=rid\n"
            "chr1\t.\tsubregion\t150\t160\t.\t+\t.\tID=r1a;Parent=r1;note=x\n"
            "chr1\t.\tsubregion\t170\t190\t.\t+\t.\tID=r1b;Parent=r1;note=y\n"
            "chr2\t.\tregion\t150\t190\t.\t.\t.\tID=r2\n"
            "##FASTA\n>chr1\n" + GENOME + "\n>chr3\nACGT\n"
        )
        observe("parse_extra", lambda: parse(p.parse_standard_gff3, extra))
        observe("parse_extra_embedded", lambda: parse(p.parse_gff3_embedded_fasta, extra))
        for bad, text in {
            "strand_mismatch": "chr1\t.\tregion\t1\t50\t.\t+\t.\tID=r1\nchr1\t.\tsub\t1\t5\t.\t+\t.\tID=a;Parent=r1\nchr1\t.\tsub\t8\t9\t.\t-\t.\tID=b;Parent=r1\n",
            "transcript_type_list": "chr1\t.\tgene\t40\t60\t.\t-\t.\tID=g3;transcript_type=lncRNA\nchr1\t.\tlncRNA\t40\t60\t.\t-\t.\tID=t3;Parent=g3\nchr1\t.\texon\t40\t60\t.\t-\t.\tID=e3;Parent=t3\n",
            "odd_tx_biotype": "chr1\t.\tgene\t40\t60\t.\t-\t.\tID=g3;transcript_biotype=odd,odder;gene_name=G\nchr1\t.\tmRNA\t40\t60\t.\t-\t.\tID=t3;Parent=g3;transcript_id=TID;transcript_name=TN\nchr1\t.\texon\t40\t60\t.\t-\t.\tID=e3;Parent=t3\nchr1\t.\tCDS\t41\t58\t.\t-\t2\tID=c3;Parent=t3\nchr1\t.\tCDS\t41\t58\t.\t-\t1\tID=c3b;Parent=t3\n",
            "chrom_mismatch": "chr1\t.\tregion\t1\t50\t.\t+\t.\tID=r1\nchr2\t.\tsub\t1\t5\t.\t+\t.\tID=a;Parent=r1\nchr1\t.\tsub\t8\t9\t.\t+\t.\tID=b;Parent=r1\n",
            "locus_mismatch": "chr1\t.\tregion\t1\t50\t.\t+\t.\tID=r1;locus_tag=A\nchr1\t.\tsub\t1\t5\t.\t+\t.\tID=a;Parent=r1;locus_tag=B\n",
        }.items():
            pth = Path(td) / f"{bad}.gff3"
            pth.write_text("##gff-version 3\n" + text)
            observe(f"parse_bad/{bad}", lambda: parse(p.parse_standard_gff3, pth))

    # filter_and_sort_qualifiers
    for i, q in enumerate([{}, {"ID": ["x"]}, {"note": ["b", "a"], "gene_id": ["g"], "Gene_ID": ["h"], "locus_tag_extra": ["q"], "xlocus_tag": ["z"]}]):
        observe(f"filter_and_sort/{i}", lambda: repr(p.filter_and_sort_qualifiers(q)))


# ----------------------------------------------------------------------------------------------------------------


def run(sections):
    table = {"rows": cases_rows, "to_gff": cases_to_gff, "collections": cases_collections, "parser": cases_parser}
    for s in sections:
        table[s]()


def main(sections):
    mode = sys.argv[1]
    if mode == "dump":
        run(sections)
        with open(sys.argv[2], "w") as fh:
            json.dump(RESULTS, fh, indent=1, sort_keys=True, default=repr)
        n_exc = sum(1 for v in RESULTS.values() if "exc" in v)
        print(f"{len(RESULTS)} observations written to {sys.argv[2]} ({n_exc} of them exceptions)")
    elif mode == "compare":
        a = json.load(open(sys.argv[2]))
        b = json.load(open(sys.argv[3]))
        bad = [k for k in sorted(set(a) | set(b)) if a.get(k) != b.get(k)]
        for k in bad[:20]:
            print("DIFF", k, "\n   before:", str(a.get(k))[:600], "\n   after: ", str(b.get(k))[:600])
        print(f"{len(a)} vs {len(b)} observations, {len(bad)} differences")
        sys.exit(1 if bad else 0)
    else:
        raise SystemExit(__doc__)


if __name__ == "__main__":
    main(["rows", "to_gff", "collections", "parser"])
