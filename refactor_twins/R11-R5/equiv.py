"""
Equivalence script for the GFF3 export / parse code (property C11).

Usage (from the worktree root):

    /venv/bin/python _refactor/R1/equiv.py dump /tmp/before.json      # on the pristine checkout
    git apply _refactor/R1/patch.diff
    /venv/bin/python _refactor/R1/equiv.py dump /tmp/after.json       # on the refactored checkout
    /venv/bin/python _refactor/R1/equiv.py compare /tmp/before.json /tmp/after.json

``dump`` records, for a few hundred deterministic inputs, the str() of every GFF row / attribute column, the text
written by collection_to_gff3, exported qualifiers, the raised exception (type + message) and the warnings that were
emitted.  It also runs the GFF3 parser (with a light stand-in for ``io/models.py``, which cannot be imported in this
environment) over the bundled GFF3 files and over files written by the exporter, and records the parsed dictionaries.
"""
import os
import sys
from pathlib import Path

# Some of the compared output (e.g. the order of the empty records that the parser appends for un-annotated FASTA
# sequences) follows the iteration order of a set of strings, in the pristine code as well: pin the hash seed so that
# two runs are comparable. Use EQUIV_HASHSEED=<n> to compare under another seed.
_seed = os.environ.get("EQUIV_HASHSEED", "0")
if os.environ.get("PYTHONHASHSEED") != _seed:
    os.environ["PYTHONHASHSEED"] = _seed
    os.execv(sys.executable, [sys.executable] + sys.argv)

sys.path.insert(0, str(Path(__file__).resolve().parents[2]))  # the worktree root

import inscripta.biocantor.location  # noqa: F401,E402  (must be first: circular import otherwise)

import io
import itertools
import json
import random
import sys
import tempfile
import types
import warnings
from pathlib import Path
from uuid import UUID

from inscripta.biocantor.gene.biotype import Biotype
from inscripta.biocantor.gene.cds import CDSInterval
from inscripta.biocantor.gene.cds_frame import CDSFrame, CDSPhase
from inscripta.biocantor.gene.collections import AnnotationCollection
from inscripta.biocantor.gene.feature import FeatureInterval, FeatureIntervalCollection
from inscripta.biocantor.gene.gene import GeneInterval
from inscripta.biocantor.gene.transcript import TranscriptInterval
from inscripta.biocantor.io.gff3 import constants as gff3_constants
from inscripta.biocantor.io.gff3.rows import GFFAttributes, GFFRow
from inscripta.biocantor.io.gff3.writer import collection_to_gff3
from inscripta.biocantor.location.location_impl import SingleInterval
from inscripta.biocantor.location.strand import Strand
from inscripta.biocantor.parent import Parent, SequenceType
from inscripta.biocantor.sequence.alphabet import Alphabet
from inscripta.biocantor.sequence.sequence import Sequence

ROOT = Path(__file__).resolve().parents[2]
DATA = ROOT / "tests" / "data"

rng = random.Random(20261003)
GENOME = "".join(rng.choice("ACGT") for _ in range(600))


# --------------------------------------------------------------------------------------------------------------------
# copies of io/parser.py helpers (that module cannot be imported here without the stand-in below)
# --------------------------------------------------------------------------------------------------------------------
def seq_to_parent(seq, alphabet=Alphabet.NT_EXTENDED_GAPPED, seq_id=None, seq_type=SequenceType.CHROMOSOME):
    return Parent(
        sequence=Sequence(seq, alphabet, type=seq_type, id=seq_id), location=SingleInterval(0, len(seq), Strand.PLUS)
    )


def seq_chunk_to_parent(seq, sequence_name, start, end, strand=Strand.PLUS, alphabet=Alphabet.NT_EXTENDED_GAPPED):
    chunk_id = f"{sequence_name}:{start}-{end}"
    return Parent(
        id=chunk_id,
        sequence=Sequence(
            seq,
            alphabet,
            id=chunk_id,
            type=SequenceType.SEQUENCE_CHUNK,
            parent=Parent(
                location=SingleInterval(
                    start, end, strand, parent=Parent(id=sequence_name, sequence_type=SequenceType.CHROMOSOME)
                )
            ),
        ),
    )


def make_parent(kind):
    if kind is None:
        return None
    if kind == "chrom":
        return seq_to_parent(GENOME, seq_id="chr1")
    _, start, end = kind
    return seq_chunk_to_parent(GENOME[start:end], "chr1", start, end)


PARENT_KINDS = [None, "chrom", ("chunk", 0, 600), ("chunk", 40, 330), ("chunk", 95, 215), ("chunk", 150, 600)]

# --------------------------------------------------------------------------------------------------------------------
# inputs
# --------------------------------------------------------------------------------------------------------------------
NASTY = [
    "plain",
    "a;b",
    "a=b",
    "100%",
    "tab\there",
    "new\nline",
    "cr\rhere",
    "two words",
    ">lead",
    "a&b",
    "comma,sep",
    'quote"d',
    "single'q",
    "unicöde ☃",
    "%3B;already",
    "",
    " ",
    "MiXeD Case;=",
    ",",
    "%",
]

# (exon_starts, exon_ends, strand, cds_starts, cds_ends, cds_frames)
TX_SPECS = [
    ([100], [200], Strand.PLUS, None, None, None),
    ([100], [200], Strand.MINUS, None, None, None),
    ([100, 150, 210], [130, 190, 260], Strand.PLUS, None, None, None),
    ([100], [200], Strand.PLUS, [110], [191], [CDSFrame.ZERO]),
    ([100], [200], Strand.MINUS, [110], [191], [CDSFrame.ZERO]),
    ([100], [200], Strand.PLUS, [110], [190], [CDSFrame.ONE]),
    ([100], [200], Strand.MINUS, [110], [190], [CDSFrame.TWO]),
    (
        [100, 150, 210],
        [130, 190, 260],
        Strand.PLUS,
        [105, 150, 210],
        [130, 190, 250],
        [CDSFrame.ZERO, CDSFrame.ONE, CDSFrame.TWO],
    ),
    (
        [100, 150, 210],
        [130, 190, 260],
        Strand.MINUS,
        [105, 150, 210],
        [130, 190, 250],
        [CDSFrame.TWO, CDSFrame.ZERO, CDSFrame.ZERO],
    ),
    # 0bp gap between CDS blocks (programmed frameshift style)
    ([60], [300], Strand.PLUS, [70, 120], [120, 280], [CDSFrame.ZERO, CDSFrame.ONE]),
    ([60], [300], Strand.MINUS, [70, 120], [120, 280], [CDSFrame.ONE, CDSFrame.ZERO]),
    # CDS within a subset of exons
    (
        [20, 100, 180, 260, 400],
        [60, 140, 220, 330, 480],
        Strand.PLUS,
        [110, 180, 260],
        [140, 220, 300],
        [CDSFrame.ZERO, CDSFrame.ZERO, CDSFrame.ONE],
    ),
    (
        [20, 100, 180, 260, 400],
        [60, 140, 220, 330, 480],
        Strand.MINUS,
        [110, 180, 260],
        [140, 220, 300],
        [CDSFrame.ONE, CDSFrame.TWO, CDSFrame.ZERO],
    ),
    ([0], [600], Strand.PLUS, [0], [600], [CDSFrame.ZERO]),
    ([160, 200], [190, 212], Strand.PLUS, [161, 200], [190, 210], [CDSFrame.TWO, CDSFrame.ONE]),
]

QUALIFIER_SETS = [
    None,
    {},
    {"note": ["x"]},
    {"Note": ["kept reserved"], "Dbxref": ["a:1", "b:2"], "Alias": ["al"]},
    {"key one": ["v;1", "v=2", "v,3"], "k=ey": ["tab\tval"], "UPPER": ["Val"], "empty": []},
    {"unicöde": ["☃", "100%"], ">k": ["new\nline", "cr\r"], "n": [""]},
    {"gene_id": ["other_gene"], "transcript_id": ["other_tx"], "product": ["prod q"], "locus_tag": ["LT9"]},
    {"b": [True, None, 2, 3.5], "c": [UUID(int=7)]},
]
ATTRIBUTE_ONLY_QUALIFIER_SETS = [{1: [2, 3.5, "x"], 2: [True, None]}]
RESERVED_QUALIFIER_SETS = [
    {"ID": ["bad"]},
    {"Name": ["bad"], "ok": ["fine"]},
    {"Parent": ["bad"], "Note": ["n"]},
]


def tx_kwargs(i, spec, parent, quals, seqname="chr1", ids=True):
    es, ee, strand, cs, ce, cf = spec
    kw = dict(
        exon_starts=list(es),
        exon_ends=list(ee),
        strand=strand,
        cds_starts=list(cs) if cs else None,
        cds_ends=list(ce) if ce else None,
        cds_frames=list(cf) if cf else None,
        qualifiers=quals,
        sequence_name=seqname,
        parent_or_seq_chunk_parent=parent,
    )
    if ids:
        kw.update(
            transcript_id=f"tx{i};id",
            transcript_symbol=NASTY[i % len(NASTY)] or None,
            transcript_type=[Biotype.protein_coding, Biotype.lncRNA, None][i % 3],
            protein_id=f"prot {i}" if cs and i % 2 == 0 else None,
            product=f"product={i}" if cs and i % 3 == 0 else None,
            is_primary_tx=(i % 4 == 0),
        )
    return kw


def result_of(func, *, to=lambda x: x):
    """Run func, capture result / exception / warnings in a JSON-serialisable way."""
    with warnings.catch_warnings(record=True) as w:
        warnings.simplefilter("always")
        try:
            res = {"ok": to(func())}
        except Exception as e:  # noqa
            res = {"exc": type(e).__name__, "msg": str(e)}
    res["warnings"] = [[x.category.__name__, str(x.message)] for x in w]
    return res


def rows_to_str(rows):
    out = []
    for r in rows:
        out.append(
            dict(
                s=str(r),
                types=[type(r.start).__name__, type(r.end).__name__, type(r.type).__name__, type(r.phase).__name__],
                fields=[r.seqid, r.source, r.type.name, r.start, r.end, r.score, r.strand.name, r.phase.name],
                attr_id=r.attributes.id,
                attr_name=r.attributes.name,
                attr_parent=r.attributes.parent,
                attr_raise=r.attributes.raise_on_reserved_attributes,
                attr_quals=jsonable(r.attributes.attributes),
            )
        )
    return out


def partial_rows(gen):
    """Consume a generator row by row so that rows produced before an exception are still recorded."""
    out = []
    with warnings.catch_warnings(record=True) as w:
        warnings.simplefilter("always")
        try:
            for r in gen:
                out.extend(rows_to_str([r]))
        except Exception as e:  # noqa
            out.append({"exc": type(e).__name__, "msg": str(e)})
    out.append({"warnings": [[x.category.__name__, str(x.message)] for x in w]})
    return out


def jsonable(x):
    if isinstance(x, dict):
        return [[repr(k), jsonable(v)] for k, v in sorted(x.items(), key=lambda kv: repr(kv[0]))]
    if isinstance(x, (set, frozenset)):
        return sorted((repr(v) for v in x))
    if isinstance(x, (list, tuple)):
        return [jsonable(v) for v in x]
    if isinstance(x, (str, int, float, bool)) or x is None:
        return x
    return repr(x)


def build_transcripts(parent_kind, with_ids=True):
    parent = make_parent(parent_kind)
    txs = []
    for i, spec in enumerate(TX_SPECS):
        quals = QUALIFIER_SETS[i % len(QUALIFIER_SETS)]
        try:
            txs.append(TranscriptInterval(**tx_kwargs(i, spec, parent, quals, ids=with_ids)))
        except Exception as e:  # noqa  (does not overlap the chunk)
            txs.append((type(e).__name__, str(e)))
    return txs


def build_features(parent_kind):
    parent = make_parent(parent_kind)
    feats = []
    for i, spec in enumerate(TX_SPECS):
        es, ee = spec[:2]
        # one strand per group of four: the GFF3 parser rejects mixed-strand children of one feature collection
        strand = [Strand.PLUS, Strand.MINUS, Strand.UNSTRANDED, Strand.MINUS][(i // 4) % 4]
        try:
            feats.append(
                FeatureInterval(
                    list(es),
                    list(ee),
                    strand,
                    qualifiers=QUALIFIER_SETS[(i + 3) % len(QUALIFIER_SETS)],
                    sequence_name="chr1",
                    feature_types=[["promoter"], ["b type", "a;type"], None][i % 3],
                    feature_name=NASTY[(i + 5) % len(NASTY)] or None,
                    feature_id=[f"feat,{i}", None][i % 2],
                    is_primary_feature=(i % 4 == 0),
                    parent_or_seq_chunk_parent=parent,
                )
            )
        except Exception as e:  # noqa
            feats.append((type(e).__name__, str(e)))
    return feats


def build_genes(parent_kind):
    parent = make_parent(parent_kind)
    txs = [t for t in build_transcripts(parent_kind) if not isinstance(t, tuple)]
    genes = []
    groups = [txs[i : i + 3] for i in range(0, len(txs), 3)]
    for gi, group in enumerate(groups):
        if not group:
            continue
        try:
            genes.append(
                GeneInterval(
                    group,
                    gene_id=[f"gene id {gi}", None][gi % 2],
                    gene_symbol=NASTY[(gi * 3 + 1) % len(NASTY)] or None,
                    gene_type=[Biotype.protein_coding, None, Biotype.tRNA][gi % 3],
                    locus_tag=[None, f"LT;{gi}"][gi % 2],
                    qualifiers=QUALIFIER_SETS[(gi + 2) % len(QUALIFIER_SETS)],
                    sequence_name="chr1",
                    parent_or_seq_chunk_parent=parent,
                )
            )
        except Exception as e:  # noqa
            genes.append((type(e).__name__, str(e)))
    return genes


def build_feature_collections(parent_kind):
    parent = make_parent(parent_kind)
    feats = [f for f in build_features(parent_kind) if not isinstance(f, tuple)]
    colls = []
    groups = [feats[i : i + 4] for i in range(0, len(feats), 4)]
    for ci, group in enumerate(groups):
        if not group:
            continue
        try:
            colls.append(
                FeatureIntervalCollection(
                    group,
                    feature_collection_name=NASTY[(ci * 2 + 2) % len(NASTY)] or None,
                    feature_collection_id=[None, f"fc={ci}"][ci % 2],
                    feature_collection_type=["region type", None][ci % 2],
                    locus_tag=[f"FLT{ci}", None][ci % 2],
                    sequence_name="chr1",
                    qualifiers=QUALIFIER_SETS[(ci + 4) % len(QUALIFIER_SETS)],
                    parent_or_seq_chunk_parent=parent,
                )
            )
        except Exception as e:  # noqa
            colls.append((type(e).__name__, str(e)))
    return colls


def build_collection(parent_kind, seqname="chr1", name=None):
    parent = make_parent(parent_kind)
    genes = [g for g in build_genes(parent_kind) if not isinstance(g, tuple)]
    fcs = [f for f in build_feature_collections(parent_kind) if not isinstance(f, tuple)]
    return AnnotationCollection(
        feature_collections=fcs,
        genes=genes,
        name=name,
        sequence_name=seqname,
        qualifiers={"coll": ["q"]},
        parent_or_seq_chunk_parent=parent,
    )


# --------------------------------------------------------------------------------------------------------------------
# sections
# --------------------------------------------------------------------------------------------------------------------
def section_attributes(out):
    res = out.setdefault("attributes", {})
    for i, s in enumerate(NASTY):
        res[f"escape_key/{i}"] = [
            result_of(lambda: GFFAttributes.escape_key(s)),
            result_of(lambda: GFFAttributes.escape_key(s, True)),
            result_of(lambda: GFFAttributes.escape_key(s, lower=False)),
            result_of(lambda: GFFAttributes.escape_key(key=s, lower=None)),
        ]
        res[f"escape_value/{i}"] = [
            result_of(lambda: GFFAttributes.escape_value(s)),
            result_of(lambda: GFFAttributes.escape_value(s, True)),
            result_of(lambda: GFFAttributes.escape_value(value=s, escape_comma=False)),
            result_of(lambda: GFFAttributes._escape_str(s)),
            result_of(lambda: GFFAttributes._escape_str_with_comma(s)),
        ]
    for i, v in enumerate([1, 2.5, None, True, b"x", ("a", ";"), UUID(int=5), Strand.PLUS, [], ""]):
        res[f"escape_value_obj/{i}"] = [
            result_of(lambda: GFFAttributes.escape_value(v)),
            result_of(lambda: GFFAttributes.escape_value(v, escape_comma=True)),
        ]
    res["escape_key_nonstr"] = [result_of(lambda: GFFAttributes.escape_key(5))]
    res["random_strings"] = []
    alphabet = "ab;=%,\t\n\r >&\"' éZ"
    for _ in range(200):
        s = "".join(rng.choice(alphabet) for _ in range(rng.randint(0, 12)))
        res["random_strings"].append(
            [
                GFFAttributes.escape_key(s, lower=True),
                GFFAttributes.escape_key(s),
                GFFAttributes.escape_value(s),
                GFFAttributes.escape_value(s, escape_comma=True),
            ]
        )

    # full attribute strings
    qualifier_dicts = []
    for q in QUALIFIER_SETS + RESERVED_QUALIFIER_SETS + ATTRIBUTE_ONLY_QUALIFIER_SETS:
        if q is None:
            continue
        qualifier_dicts.append({k: set(v) for k, v in q.items()})
    qualifier_dicts.append({"a": {"1"}, 1: {"2"}})  # unsortable keys
    qualifier_dicts.append({"notaset": ["1"]})  # constructor error
    qualifier_dicts.append({"Note": set(), "ID": set()})  # empty sets are skipped before the reserved check
    qualifier_dicts.append({"id": {"lower ok"}, "name": {"x"}, "parent": {"y"}, "NOTE": {"z"}})
    qualifier_dicts.append({("tuple", 1): {"v"}, ("tuple", 0): {"w"}})
    for qi, q in enumerate(qualifier_dicts):
        for ident, name, parent in itertools.product(["id1", NASTY[1], NASTY[10], ""], [None, "", "na,me>"], [None, "p;1"]):
            for raise_flag in (True, False, None):
                key = f"str/{qi}/{ident!r}/{name!r}/{parent!r}/{raise_flag}"
                res[key] = result_of(
                    lambda: str(
                        GFFAttributes(ident, q, name=name, parent=parent, raise_on_reserved_attributes=raise_flag)
                    )
                )
    res["default_ctor"] = result_of(lambda: str(GFFAttributes("x", {})))
    a = GFFAttributes("x", {"k": {"v"}}, name="n")
    res["ctor_fields"] = [a.id, a.name, a.parent, jsonable(a.attributes), a.raise_on_reserved_attributes]

    # constants are public
    res["constants"] = {
        k: jsonable(getattr(gff3_constants, k))
        for k in [
            "ENCODING_MAP",
            "ENCODING_MAP_WITH_COMMA",
            "ENCODING_PATTERN",
            "ENCODING_PATTERN_WITH_COMMA",
            "GFF_SOURCE",
            "NULL_COLUMN",
            "ATTRIBUTE_SEPARATOR",
        ]
    }
    res["constants"]["map_order"] = [list(gff3_constants.ENCODING_MAP), list(gff3_constants.ENCODING_MAP_WITH_COMMA)]
    res["constants"]["regex"] = gff3_constants.BIOCANTOR_QUALIFIERS_REGEX.pattern.count("|")
    res["constants"]["enums"] = {
        name: [[m.name, m.value] for m in getattr(gff3_constants, name)]
        for name in [
            "GFF3Headers",
            "BioCantorGFF3ReservedQualifiers",
            "GFF3ReservedQualifiers",
            "BioCantorQualifiers",
            "GFF3GeneFeatureTypes",
            "BioCantorFeatureTypes",
        ]
    }

    # rows
    res["rows"] = []
    for t, strand, phase, score in itertools.product(
        list(gff3_constants.BioCantorFeatureTypes),
        list(Strand),
        list(CDSPhase),
        [".", 0.5, 3],
    ):
        row = GFFRow("seq 1", "src", t, 5, 10, score, strand, phase, GFFAttributes("i d", {"k": {"v", "w"}}, name="n"))
        res["rows"].append(result_of(lambda: str(row)))
    res["row_eq"] = repr(
        GFFRow("s", "src", gff3_constants.BioCantorFeatureTypes.GENE, 1, 2, ".", Strand.PLUS, CDSPhase.NONE, None)
        == GFFRow("s", "src", gff3_constants.BioCantorFeatureTypes.GENE, 1, 2, ".", Strand.PLUS, CDSPhase.NONE, None)
    )
    res["phase"] = [[p.name, p.to_gff(), p.to_frame().name] for p in CDSPhase] + [
        [f.name, f.to_phase().name, f.to_phase().to_gff()] for f in CDSFrame
    ]


def section_intervals(out):
    res = out.setdefault("intervals", {})
    for pk in PARENT_KINDS:
        for ids in (True, False):
            for ti, tx in enumerate(build_transcripts(pk, with_ids=ids)):
                key = f"tx/{pk}/{ids}/{ti}"
                if isinstance(tx, tuple):
                    res[key] = list(tx)
                    continue
                entry = res.setdefault(key, {})
                entry["export_qualifiers"] = result_of(tx.export_qualifiers, to=jsonable)
                entry["export_qualifiers_parent"] = result_of(
                    lambda: tx.export_qualifiers({"gene_id": {"g1"}, "pq": {"x", "y"}, "transcript_id": {"dup"}}),
                    to=jsonable,
                )
                for crc, ror in itertools.product((True, False), (True, False)):
                    entry[f"to_gff/{crc}/{ror}"] = partial_rows(
                        tx.to_gff(chromosome_relative_coordinates=crc, raise_on_reserved_attributes=ror)
                    )
                entry["to_gff/parent"] = partial_rows(tx.to_gff("the;parent", {"pq": {"x"}, "Note": {"n1"}}))
                entry["to_gff/parent_positional"] = partial_rows(tx.to_gff("p", {"ID": {"bad"}}, False, False))
                entry["to_gff/reserved_parent_raise"] = partial_rows(tx.to_gff("p", {"ID": {"bad"}}))
                if tx.cds:
                    cds = tx.cds
                    entry["cds/export_qualifiers"] = result_of(cds.export_qualifiers, to=jsonable)
                    entry["cds/export_qualifiers_parent"] = result_of(
                        lambda: cds.export_qualifiers({"protein_id": {"other"}, "pq": {"x"}}), to=jsonable
                    )
                    for crc, ror in itertools.product((True, False), (True, False)):
                        entry[f"cds/to_gff/{crc}/{ror}"] = partial_rows(
                            cds.to_gff(chromosome_relative_coordinates=crc, raise_on_reserved_attributes=ror)
                        )
                    entry["cds/to_gff/parent"] = partial_rows(cds.to_gff("par ent", {"Name": {"zzz"}}, True, False))
                    entry["cds/to_gff/parent2"] = partial_rows(cds.to_gff(parent="x", parent_qualifiers={"a": {"b"}}))
                    entry["cds/frames"] = result_of(lambda: [f.name for f in cds.chunk_relative_frames])
                    entry["cds/to_dict"] = [
                        result_of(lambda: cds.to_dict(True), to=jsonable),
                        result_of(lambda: cds.to_dict(False), to=jsonable),
                    ]
                # a generator: nothing is raised before the first next()
                tx_noname = TranscriptInterval([1], [5], Strand.PLUS)
                entry["lazy"] = type(tx_noname.to_gff()).__name__
        # standalone CDS with qualifiers / ids
        parent = make_parent(pk)
        for ci, spec in enumerate(TX_SPECS):
            if spec[3] is None:
                continue
            key = f"cds/{pk}/{ci}"
            try:
                cds = CDSInterval(
                    list(spec[3]),
                    list(spec[4]),
                    spec[2],
                    list(spec[5]),
                    sequence_name=["chr1", None][ci % 2],
                    protein_id=[None, "P;1", ""][ci % 3],
                    product=["prod uct", None][ci % 2],
                    qualifiers=QUALIFIER_SETS[ci % len(QUALIFIER_SETS)],
                    parent_or_seq_chunk_parent=parent,
                )
            except Exception as e:  # noqa
                res[key] = [type(e).__name__, str(e)]
                continue
            entry = res.setdefault(key, {})
            entry["export_qualifiers"] = result_of(cds.export_qualifiers, to=jsonable)
            for crc, ror in itertools.product((True, False), (True, False)):
                entry[f"to_gff/{crc}/{ror}"] = partial_rows(
                    cds.to_gff(chromosome_relative_coordinates=crc, raise_on_reserved_attributes=ror)
                )
            entry["to_gff/parent"] = partial_rows(cds.to_gff("P1", {"Dbxref": {"x:1"}, "locus_tag": {"L"}}))

        for fi, feat in enumerate(build_features(pk)):
            key = f"feat/{pk}/{fi}"
            if isinstance(feat, tuple):
                res[key] = list(feat)
                continue
            entry = res.setdefault(key, {})
            entry["export_qualifiers"] = result_of(feat.export_qualifiers, to=jsonable)
            entry["export_qualifiers_parent"] = result_of(
                lambda: feat.export_qualifiers({"feature_type": {"ptype"}, "feature_name": {"pn"}}), to=jsonable
            )
            for crc, ror in itertools.product((True, False), (True, False)):
                entry[f"to_gff/{crc}/{ror}"] = partial_rows(
                    feat.to_gff(chromosome_relative_coordinates=crc, raise_on_reserved_attributes=ror)
                )
            entry["to_gff/parent"] = partial_rows(feat.to_gff("fc 1", {"Parent": {"bad"}, "ok": {"1"}}, True, False))

        for gi, gene in enumerate(build_genes(pk)):
            key = f"gene/{pk}/{gi}"
            if isinstance(gene, tuple):
                res[key] = list(gene)
                continue
            entry = res.setdefault(key, {})
            entry["export_qualifiers"] = result_of(gene.export_qualifiers, to=jsonable)
            for crc, ror in itertools.product((True, False), (True, False)):
                entry[f"to_gff/{crc}/{ror}"] = partial_rows(gene.to_gff(crc, ror))
            entry["to_gff/kw"] = partial_rows(
                gene.to_gff(raise_on_reserved_attributes=False, chromosome_relative_coordinates=True)
            )

        for ci, fc in enumerate(build_feature_collections(pk)):
            key = f"fc/{pk}/{ci}"
            if isinstance(fc, tuple):
                res[key] = list(fc)
                continue
            entry = res.setdefault(key, {})
            entry["export_qualifiers"] = result_of(fc.export_qualifiers, to=jsonable)
            for crc, ror in itertools.product((True, False), (True, False)):
                entry[f"to_gff/{crc}/{ror}"] = partial_rows(fc.to_gff(crc, ror))

    # missing sequence names
    tx = TranscriptInterval([1, 10], [5, 20], Strand.PLUS, [2], [5], [CDSFrame.ZERO])
    res["noname/tx"] = partial_rows(tx.to_gff())
    res["noname/cds"] = partial_rows(tx.cds.to_gff())
    res["noname/cds_rel"] = partial_rows(tx.cds.to_gff(chromosome_relative_coordinates=False))
    res["noname/gene"] = partial_rows(GeneInterval([tx]).to_gff())
    res["noname/gene2"] = partial_rows(GeneInterval([tx], sequence_name="c").to_gff())
    feat = FeatureInterval([1], [5], Strand.MINUS)
    res["noname/feat"] = partial_rows(feat.to_gff())
    res["noname/fc"] = partial_rows(FeatureIntervalCollection([feat]).to_gff())
    res["noname/fc2"] = partial_rows(FeatureIntervalCollection([feat], sequence_name="c").to_gff())
    res["noname/tx_empty_name"] = partial_rows(TranscriptInterval([1], [5], Strand.PLUS, sequence_name="").to_gff())


def section_collections(out):
    res = out.setdefault("collections", {})
    for pk in PARENT_KINDS:
        try:
            coll = build_collection(pk)
        except Exception as e:  # noqa
            res[f"{pk}"] = [type(e).__name__, str(e)]
            continue
        for crc, ror in itertools.product((True, False), (True, False)):
            res[f"{pk}/to_gff/{crc}/{ror}"] = partial_rows(coll.to_gff(crc, ror))
            res[f"{pk}/unsorted/{crc}/{ror}"] = partial_rows(coll._unsorted_gff_iter(crc, ror))
        res[f"{pk}/to_gff/default"] = partial_rows(coll.to_gff())
        res[f"{pk}/to_gff/kw"] = partial_rows(
            coll.to_gff(raise_on_reserved_attributes=False, chromosome_relative_coordinates=True)
        )
        res[f"{pk}/unsorted/default"] = partial_rows(coll._unsorted_gff_iter())

        def write(colls, *args, **kw):
            handle = io.StringIO()
            try:
                collection_to_gff3(colls, handle, *args, **kw)
            except Exception as e:  # noqa
                return {"exc": type(e).__name__, "msg": str(e), "written": handle.getvalue()}
            return handle.getvalue()

        for add_seq, ordered, crc, ror in itertools.product((True, False, None), (True, False, 1), (True, False), (True, False)):
            key = f"{pk}/write/{add_seq}/{ordered}/{crc}/{ror}"
            res[key] = result_of(
                lambda: write(
                    [coll],
                    add_sequences=add_seq,
                    ordered=ordered,
                    chromosome_relative_coordinates=crc,
                    raise_on_reserved_attributes=ror,
                )
            )
            # one-shot iterables are consumed exactly as before
            res[key + "/gen"] = result_of(
                lambda: write(
                    (c for c in [coll]),
                    add_sequences=add_seq,
                    ordered=ordered,
                    chromosome_relative_coordinates=crc,
                    raise_on_reserved_attributes=ror,
                )
            )
        res[f"{pk}/write/positional"] = result_of(lambda: write([coll], False, True, True, False))

    # several collections, ordering by sequence name
    def many(kinds_names):
        return [build_collection(pk, seqname=name) for pk, name in kinds_names]

    combos = [
        [("chrom", "chrB"), ("chrom", "chrA"), (None, "chrC")],
        [("chrom", "chrB"), ("chrom", "chrA")],
        [("chrom", "b"), (("chunk", 40, 330), "a")],
        [(("chunk", 40, 330), "z"), (("chunk", 95, 215), "y")],
        [],
    ]
    for ci, combo in enumerate(combos):
        for add_seq, ordered, crc in itertools.product((True, False), (True, False), (True, False)):
            handle = io.StringIO()

            def run():
                collection_to_gff3(
                    many(combo),
                    handle,
                    add_sequences=add_seq,
                    ordered=ordered,
                    chromosome_relative_coordinates=crc,
                    raise_on_reserved_attributes=False,
                )
                return handle.getvalue()

            r = result_of(run)
            r["written"] = handle.getvalue()
            res[f"many/{ci}/{add_seq}/{ordered}/{crc}"] = r
    empty = AnnotationCollection(sequence_name="e", parent_or_seq_chunk_parent=make_parent("chrom"))
    h = io.StringIO()
    res["empty"] = result_of(lambda: collection_to_gff3([empty], h, add_sequences=True))
    res["empty_text"] = h.getvalue()


# --------------------------------------------------------------------------------------------------------------------
# parser (with a stand-in for io/models.py)
# --------------------------------------------------------------------------------------------------------------------
def install_models_stub():
    name = "inscripta.biocantor.io.models"
    if name in sys.modules:
        return
    mod = types.ModuleType(name)

    class _Loaded:
        def __init__(self, data):
            self.data = data
            self.sequence_name = data.get("sequence_name")

        def to_annotation_collection(self, parent=None):
            return dict_to_collection(self.data, parent)

    class _Schema:
        def load(self, data):
            return _Loaded(data)

    class AnnotationCollectionModel:
        @staticmethod
        def Schema():
            return _Schema()

    mod.AnnotationCollectionModel = AnnotationCollectionModel
    sys.modules[name] = mod


def dict_to_collection(data, parent=None):
    genes = []
    for g in data.get("genes") or []:
        txs = []
        for t in g["transcripts"]:
            txs.append(
                TranscriptInterval(
                    exon_starts=t["exon_starts"],
                    exon_ends=t["exon_ends"],
                    strand=Strand[t["strand"]],
                    cds_starts=t["cds_starts"],
                    cds_ends=t["cds_ends"],
                    cds_frames=[CDSFrame[f] for f in t["cds_frames"]] if t["cds_frames"] else None,
                    qualifiers=t["qualifiers"],
                    is_primary_tx=t["is_primary_tx"],
                    transcript_id=t["transcript_id"],
                    transcript_symbol=t["transcript_symbol"],
                    transcript_type=Biotype[t["transcript_type"]] if t["transcript_type"] else None,
                    sequence_name=t["sequence_name"],
                    protein_id=t["protein_id"],
                    product=t["product"],
                    parent_or_seq_chunk_parent=parent,
                )
            )
        genes.append(
            GeneInterval(
                txs,
                gene_id=g["gene_id"],
                gene_symbol=g["gene_symbol"],
                gene_type=Biotype[g["gene_type"]] if g["gene_type"] else None,
                locus_tag=g["locus_tag"],
                qualifiers=g["qualifiers"],
                sequence_name=g["sequence_name"],
                parent_or_seq_chunk_parent=parent,
            )
        )
    fcs = []
    for fc in data.get("feature_collections") or []:
        feats = []
        for f in fc["feature_intervals"]:
            feats.append(
                FeatureInterval(
                    f["interval_starts"],
                    f["interval_ends"],
                    Strand[f["strand"]],
                    qualifiers=f.get("qualifiers"),
                    sequence_name=f["sequence_name"],
                    feature_types=f["feature_types"],
                    feature_name=f["feature_name"],
                    feature_id=f["feature_id"],
                    is_primary_feature=f["is_primary_feature"],
                    parent_or_seq_chunk_parent=parent,
                )
            )
        fcs.append(
            FeatureIntervalCollection(
                feats,
                feature_collection_name=fc["feature_collection_name"],
                feature_collection_id=fc["feature_collection_id"],
                feature_collection_type=fc["feature_collection_type"],
                locus_tag=fc["locus_tag"],
                sequence_name=fc["sequence_name"],
                qualifiers=fc["qualifiers"],
                parent_or_seq_chunk_parent=parent,
            )
        )
    return AnnotationCollection(
        feature_collections=fcs,
        genes=genes,
        sequence_name=data.get("sequence_name"),
        start=data.get("start"),
        end=data.get("end"),
        parent_or_seq_chunk_parent=parent,
    )


def section_parser(out):
    res = out.setdefault("parser", {})
    install_models_stub()
    import logging

    from inscripta.biocantor.io.gff3 import parser as gp

    class _ListHandler(logging.Handler):
        def __init__(self):
            super().__init__()
            self.records = []

        def emit(self, record):
            self.records.append([record.levelname, record.getMessage()])

    log_handler = _ListHandler()
    gp.logger.addHandler(log_handler)
    gp.logger.setLevel(logging.DEBUG)
    gp.logger.propagate = False

    def rec_to_json(rec):
        sr = rec.seqrecord
        return dict(
            annotation=jsonable(rec.annotation.data),
            order=json.dumps(rec.annotation.data, default=repr),
            seq=None if sr is None else [sr.id, len(sr), str(sr.seq)[:30]],
        )

    def run(func, *args, **kwargs):
        del log_handler.records[:]
        out_recs = []
        with warnings.catch_warnings(record=True):
            warnings.simplefilter("always")
            try:
                for rec in func(*args, **kwargs):
                    out_recs.append(rec_to_json(rec))
            except Exception as e:  # noqa
                out_recs.append({"exc": type(e).__name__, "msg": str(e)})
        out_recs.append({"log": [r for r in log_handler.records if "Parsed " not in r[1]]})
        return out_recs

    files = sorted(DATA.glob("*.gff3")) + sorted(DATA.glob("*.gff"))
    for f in files:
        res[f"standard/{f.name}"] = run(gp.parse_standard_gff3, f)
        res[f"embedded/{f.name}"] = run(gp.parse_gff3_embedded_fasta, f)
        with open(f) as fh:
            try:
                recs = gp.extract_seqrecords_from_gff3_fasta(fh)
                res[f"fasta/{f.name}"] = [[r.id, len(r), r.description] for r in recs]
            except Exception as e:  # noqa
                res[f"fasta/{f.name}"] = [type(e).__name__, str(e)]
    fa = DATA / "INSC1006_chrI.fasta"
    for cand in sorted(DATA.glob("*.fa*")):
        for g in ["INSC1006_chrI.gff3", "INSC1003.gff3", "SGCE.gff3"]:
            res[f"gff3_fasta/{g}/{cand.name}"] = run(gp.parse_gff3_fasta, DATA / g, cand)
    res["no_gff"] = run(gp.parse_standard_gff3)
    res["filter"] = [
        jsonable(gp.filter_and_sort_qualifiers(q))
        for q in [
            {},
            {"gene_id": ["x"]},
            {"b": ["2", "1"], "a": ["z"], "ID": ["i"], "Name": ["n"], "gene_name_extra": ["kept?"], "xgene_id": ["k"]},
            {"Parent": ["p"], "transcript_biotype": ["t"], "product": ["p"], "note": ["n2", "n1"]},
        ]
    ]

    # round trip of exported collections (comma / double quote are not carried by gffutils, still deterministic)
    with tempfile.TemporaryDirectory() as tmp:
        tmp = Path(tmp)
        n = 0
        for pk in ["chrom", None, ("chunk", 40, 330), ("chunk", 0, 600)]:
            for add_seq, crc in [(False, True), (True, True), (False, False), (True, False)]:
                coll = build_collection(pk)
                path = tmp / f"rt{n}.gff3"
                n += 1
                key = f"roundtrip/{pk}/{add_seq}/{crc}"
                try:
                    with open(path, "w") as fh:
                        collection_to_gff3(
                            [coll],
                            fh,
                            add_sequences=add_seq,
                            chromosome_relative_coordinates=crc,
                            raise_on_reserved_attributes=False,
                        )
                except Exception as e:  # noqa
                    res[key] = [type(e).__name__, str(e)]
                    continue
                res[key + "/text"] = path.read_text()
                res[key + "/standard"] = run(gp.parse_standard_gff3, path)
                res[key + "/embedded"] = run(gp.parse_gff3_embedded_fasta, path)
                # re-export what was parsed
                try:
                    recs = list(gp.parse_standard_gff3(path))
                    h = io.StringIO()
                    collection_to_gff3(
                        [r.annotation.to_annotation_collection() for r in recs], h, raise_on_reserved_attributes=False
                    )
                    res[key + "/reexport"] = h.getvalue()
                except Exception as e:  # noqa
                    res[key + "/reexport"] = [type(e).__name__, str(e)]

        # re-export of the bundled files
        for f in files:
            try:
                recs = list(gp.parse_standard_gff3(f))
                h = io.StringIO()
                with warnings.catch_warnings(record=True) as w:
                    warnings.simplefilter("always")
                    collection_to_gff3(
                        [r.annotation.to_annotation_collection() for r in recs], h, raise_on_reserved_attributes=False
                    )
                res[f"reexport/{f.name}"] = [h.getvalue(), sorted({str(x.message) for x in w})]
            except Exception as e:  # noqa
                res[f"reexport/{f.name}"] = [type(e).__name__, str(e)]

        # hand-written corner cases for the parser
        corner = {
            "direct_children.gff3": (
                "##gff-version 3\n"
                "c1\t.\tgene\t1\t100\t.\t+\t.\tID=g1;gene_biotype=weird_type;Name=nm\n"
                "c1\t.\texon\t1\t40\t.\t+\t.\tID=e1;Parent=g1\n"
                "c1\t.\texon\t60\t100\t.\t+\t.\tID=e2;Parent=g1\n"
                "c1\t.\tCDS\t10\t40\t.\t+\t0\tID=c1;Parent=g1;protein_id=P1;product=pr\n"
                "c1\t.\tCDS\t60\t90\t.\t+\t.\tID=c2;Parent=g1\n"
                "c1\t.\tgene\t200\t300\t.\t-\t.\tID=g2;gene_type=protein_coding;gene_symbol=sym;locus_tag=LT1\n"
                "c1\t.\tgene\t400\t500\t.\t-\t.\tID=g3;gene=gg;locus_tag=LT2;transcript_type=lncRNA\n"
                "c1\t.\tmRNA\t400\t500\t.\t-\t.\tID=t3;Parent=g3\n"
                "c1\t.\tfoo\t400\t500\t.\t-\t.\tID=t3foo;Parent=g3\n"
                "c1\t.\tCDS\t400\t450\t.\t-\t1\tID=c3;Parent=t3\n"
                "c1\t.\tCDS\t460\t500\t.\t-\t0\tID=c4;Parent=t3\n"
                "c1\t.\tthree_prime_UTR\t400\t405\t.\t-\t.\tID=u3;Parent=t3\n"
                "c1\t.\tgene\t600\t700\t.\t+\t.\tID=g4;transcript_biotype=bogus;transcript_name=tn\n"
                "c1\t.\ttRNA\t600\t700\t.\t+\t.\tID=t4;Parent=g4;transcript_id=tid4\n"
                "c1\t.\texon\t600\t700\t.\t+\t.\tID=e4;Parent=t4\n"
                "c2\t.\tCDS\t5\t50\t.\t+\t0\tID=lonecds;protein_id=LP\n"
                "c2\t.\tregion\t1\t1000\t.\t+\t.\tID=reg1;locus_tag=RL;note=A note here\n"
                "c2\t.\tpromoter\t10\t20\t.\t-\t.\tID=pr1;feature_name=fn;gbkey=regulatory\n"
                "c2\t.\toperon\t100\t300\t.\t+\t.\tID=op1;Name=opn\n"
                "c2\t.\tsub\t100\t150\t.\t+\t.\tID=s1;Parent=op1;standard_name=sn\n"
                "c2\t.\tsub\t200\t300\t.\t+\t.\tID=s2;Parent=op1;standard_name=sn;extra=1\n"
            ),
            "strand_mismatch.gff3": (
                "##gff-version 3\n"
                "c2\t.\toperon\t100\t300\t.\t+\t.\tID=op1\n"
                "c2\t.\tsub\t100\t150\t.\t+\t.\tID=s1;Parent=op1\n"
                "c2\t.\tsub\t200\t300\t.\t-\t.\tID=s2;Parent=op1\n"
            ),
            "fasta_dup.gff3": (
                "##gff-version 3\nc1\t.\tgene\t1\t10\t.\t+\t.\tID=g1\n##FASTA\n>c1\nACGTACGTACGT\n>c1\nACGT\n"
            ),
            "fasta_extra.gff3": (
                "##gff-version 3\nc1\t.\tgene\t1\t10\t.\t+\t.\tID=g1\n##FASTA  \n>c1 desc\nACGTACGTACGT\n>c0\nACGT\n"
            ),
            "empty.gff3": "##gff-version 3\n",
        }
        # gene-level transcript_type hits an (upstream) TypeError; the second copy avoids it to exercise the rest
        corner["direct_children2.gff3"] = corner["direct_children.gff3"].replace(";transcript_type=lncRNA", "")
        for name, text in corner.items():
            p = tmp / name
            p.write_text(text)
            res[f"corner/standard/{name}"] = run(gp.parse_standard_gff3, p)
            res[f"corner/embedded/{name}"] = run(gp.parse_gff3_embedded_fasta, p)
        # private helpers, called directly
        import gffutils

        for name in ["direct_children2.gff3", "strand_mismatch.gff3"]:
            hdb = gffutils.create_db(str(tmp / name), ":memory:", merge_strategy="create_unique")
            for ignore in [None, set(), {"region", "sub"}, ["promoter"], {"nothing"}]:
                res[f"helpers/{name}/non_gene_types/{ignore!r}"] = result_of(
                    lambda: gp._find_non_gene_feature_types(hdb, ignore)
                )
            res[f"helpers/{name}/non_gene_types/default"] = result_of(lambda: gp._find_non_gene_feature_types(hdb))
            types_ = gp._find_non_gene_feature_types(hdb)
            for chrom in ["c1", "c2", "absent"]:
                res[f"helpers/{name}/genes/{chrom}"] = result_of(
                    lambda: json.dumps(gp._parse_genes(chrom, hdb), default=repr)
                )
                res[f"helpers/{name}/features/{chrom}"] = result_of(
                    lambda: json.dumps(gp._parse_features(chrom, hdb, types_), default=repr)
                )
                res[f"helpers/{name}/top_level/{chrom}"] = result_of(
                    lambda: [f.id for f in gp._find_all_top_level_non_gene_features(chrom, hdb, types_)]
                )
            feats = list(hdb.all_features(featuretype="sub"))
            for lt in [None, "RL"]:
                res[f"helpers/{name}/child_features/{lt}"] = result_of(
                    lambda: json.dumps(gp._parse_child_features_to_feature_interval(feats, locus_tag=lt), default=repr)
                )
            res[f"helpers/{name}/child_features/empty"] = result_of(
                lambda: json.dumps(gp._parse_child_features_to_feature_interval([], "LT"), default=repr)
            )
        from Bio.Seq import Seq
        from Bio.SeqRecord import SeqRecord

        srd = {n: SeqRecord(Seq("ACGT" * (i + 1)), id=n) for i, n in enumerate(["s1", "s2", "s3", "s4"])}
        for seen in [set(), {"s2"}, {"s1", "s2", "s3", "s4"}, {"other"}]:
            res[f"helpers/empty_records/{sorted(seen)}"] = result_of(
                lambda: [rec_to_json(r) for r in gp._produce_empty_records(srd, seen)]
            )

        fa = tmp / "x.fa"
        fa.write_text(">c2\nACGT\n>c9\nAC\n")
        res["corner/gff3_fasta"] = run(gp.parse_gff3_fasta, tmp / "direct_children2.gff3", fa)
        fa.write_text(">c2\nACGT\n>c2\nAC\n")
        res["corner/gff3_fasta_dup"] = run(gp.parse_gff3_fasta, tmp / "direct_children.gff3", fa)
        # pre-built database
        db = tmp / "db.sqlite"
        res["corner/db_build"] = run(gp.parse_standard_gff3, tmp / "direct_children2.gff3", db_fn=str(db))
        res["corner/db_reuse"] = run(gp.parse_standard_gff3, None, db_fn=str(db))
        emptydb = tmp / "empty.sqlite"
        emptydb.write_text("")
        res["corner/db_empty"] = run(gp.parse_standard_gff3, None, db_fn=str(emptydb))


def dump(path):
    warnings.simplefilter("ignore")
    out = {}
    section_attributes(out)
    section_intervals(out)
    section_collections(out)
    section_parser(out)
    with open(path, "w") as fh:
        json.dump(out, fh, indent=1, sort_keys=True, default=repr)
    n = sum(len(v) for v in out.values())
    print(f"wrote {path}: {n} entries")


def compare(a, b):
    with open(a) as fh:
        x = json.load(fh)
    with open(b) as fh:
        y = json.load(fh)
    bad = 0
    total = 0
    for section in sorted(set(x) | set(y)):
        xs, ys = x.get(section, {}), y.get(section, {})
        for key in sorted(set(xs) | set(ys)):
            total += 1
            if xs.get(key) != ys.get(key):
                bad += 1
                if bad <= 20:
                    print(f"DIFF {section}/{key}\n  before: {json.dumps(xs.get(key))[:600]}\n  after:  {json.dumps(ys.get(key))[:600]}")
    print(f"{total} entries compared, {bad} differ")
    return 1 if bad else 0


if __name__ == "__main__":
    if sys.argv[1] == "dump":
        dump(sys.argv[2])
    elif sys.argv[1] == "compare":
        sys.exit(compare(sys.argv[2], sys.argv[3]))
    else:
        sys.exit(__doc__)
