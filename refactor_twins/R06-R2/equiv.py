"""
Equivalence harness for the coordinate API of TranscriptInterval / FeatureInterval / CDSInterval.

Usage (from the worktree root):
    /venv/bin/python _refactor/R2/equiv.py dump _refactor/tmp/pristine.json     # on the pristine checkout
    git apply _refactor/R2/patch.diff
    /venv/bin/python _refactor/R2/equiv.py compare _refactor/tmp/pristine.json  # on the refactored checkout

Every observable (ints, str/repr of Locations, to_dict, exception type + message) is recorded as a string, for
transcripts/features on both strands, single/multi-exon, several CDS placements (none, full length, touching either
transcript end, on exon boundaries, interior), with no parent, a chromosome parent, and several sequence-chunk parents.
"""
import hashlib
import json
import os
import sys

sys.path.insert(0, os.getcwd())  # run from the worktree root: import the checkout, not an installed copy

import inscripta.biocantor.location  # noqa: F401,E402  (must be first: circular import otherwise)
from inscripta.biocantor.gene.cds import CDSInterval
from inscripta.biocantor.gene.cds_frame import CDSFrame
from inscripta.biocantor.gene.feature import FeatureInterval
from inscripta.biocantor.gene.transcript import TranscriptInterval
from inscripta.biocantor.location.location_impl import SingleInterval, CompoundInterval
from inscripta.biocantor.location.strand import Strand
from inscripta.biocantor.parent import Parent, SequenceType
from inscripta.biocantor.sequence.alphabet import Alphabet
from inscripta.biocantor.sequence.sequence import Sequence

GENOME_LEN = 120
_state = 12345
_bases = []
for _ in range(GENOME_LEN):
    _state = (_state * 1103515245 + 12345) % (2**31)
    _bases.append("ACGT"[(_state >> 16) % 4])
GENOME = "".join(_bases)


def seq_to_parent(seq, seq_id="chr1"):
    return Parent(
        id=seq_id,
        sequence=Sequence(seq, Alphabet.NT_EXTENDED_GAPPED, type=SequenceType.CHROMOSOME, id=seq_id),
        location=SingleInterval(0, len(seq), Strand.PLUS),
    )


def seq_chunk_to_parent(seq, sequence_name, start, end, strand=Strand.PLUS):
    chunk_id = f"{sequence_name}:{start}-{end}"
    return Parent(
        id=chunk_id,
        sequence=Sequence(
            seq,
            Alphabet.NT_EXTENDED_GAPPED,
            id=chunk_id,
            type=SequenceType.SEQUENCE_CHUNK,
            parent=Parent(
                location=SingleInterval(
                    start,
                    end,
                    strand,
                    parent=Parent(id=sequence_name, sequence_type=SequenceType.CHROMOSOME),
                )
            ),
        ),
    )


def parents():
    yield "none", lambda: None
    yield "chrom", lambda: seq_to_parent(GENOME)
    yield "chunk_all", lambda: seq_chunk_to_parent(GENOME, "chr1", 0, GENOME_LEN)
    yield "chunk_mid", lambda: seq_chunk_to_parent(GENOME[8:70], "chr1", 8, 70)
    yield "chunk_left", lambda: seq_chunk_to_parent(GENOME[0:33], "chr1", 0, 33)
    yield "chunk_right", lambda: seq_chunk_to_parent(GENOME[35:110], "chr1", 35, 110)
    yield "chunk_intron", lambda: seq_chunk_to_parent(GENOME[46:58], "chr1", 46, 58)


EXONS = {
    "single": [(10, 40)],
    "two": [(0, 12), (20, 50)],
    "three": [(5, 20), (30, 45), (60, 90)],
    "adjacent": [(2, 8), (8, 20), (25, 41)],
    "tiny": [(3, 4), (10, 11), (15, 30)],
}


def cds_placements(exons):
    """Yields (label, cds_start, cds_end) in genomic coordinates (or None for non coding)."""
    start, end = exons[0][0], exons[-1][1]
    yield "noncoding", None
    yield "full", (start, end)
    yield "from_tx_start", (start, exons[-1][0] + 2)
    yield "to_tx_end", (exons[0][1] - 1, end)
    if len(exons) > 1:
        yield "exon_boundaries", (exons[1][0], exons[-1][1] if len(exons) == 2 else exons[1][1])
        yield "end_on_first_exon_end", (start, exons[0][1])
        yield "start_on_last_exon_start", (exons[-1][0], end)
        yield "first_exon_end_to_last", (exons[0][1] - 1, exons[-1][0] + 1)
    mid_s, mid_e = exons[-1]
    if mid_e - mid_s >= 9:
        yield "interior", (mid_s + 2, mid_e - 3)


def clip(exons, cds):
    out = []
    for s, e in exons:
        ns, ne = max(s, cds[0]), min(e, cds[1])
        if ns < ne:
            out.append((ns, ne))
    return out


def call(fn, *args, **kwargs):
    text = _call(fn, *args, **kwargs)
    if len(text) > 160:  # long texts (parent hierarchies in messages): keep the head and a digest of the whole
        text = text[:120] + "...#" + hashlib.md5(text.encode()).hexdigest()[:12]
    return text


def _call(fn, *args, **kwargs):
    try:
        res = fn(*args, **kwargs)
    except Exception as exc:  # noqa: BLE001
        return f"EXC:{type(exc).__name__}:{exc}"
    if isinstance(res, (int, bool)) or res is None:
        return repr(res)
    if isinstance(res, dict):
        return json.dumps(res, sort_keys=True, default=str)
    if isinstance(res, (list, tuple)):
        return repr([str(x) for x in res])
    # the repr of a Location spells out the whole parent hierarchy: keep a digest of it, not the text
    return f"{type(res).__name__}|{res!s}|{hashlib.md5(repr(res).encode()).hexdigest()[:10]}"


def prop(obj, name):
    def getter():
        val = getattr(obj, name)
        if hasattr(val, "__next__"):
            val = list(val)
        return val

    return call(getter)


POSITIONS = list(range(-2, GENOME_LEN + 3))
INTERVALS = [
    (s, e, strand)
    for (s, e) in [
        (0, 5),
        (3, 12),
        (5, 20),
        (8, 9),
        (10, 40),
        (11, 35),
        (15, 62),
        (19, 31),
        (20, 30),
        (28, 47),
        (30, 45),
        (40, 41),
        (44, 61),
        (45, 60),
        (59, 95),
        (60, 90),
        (0, 120),
        (89, 90),
        (90, 100),
        (7, 7),
    ]
    for strand in (Strand.PLUS, Strand.MINUS, Strand.UNSTRANDED)
]
REL_INTERVALS = [
    (s, e, strand)
    for (s, e) in [(0, 1), (0, 3), (0, 10), (2, 17), (5, 6), (9, 30), (14, 16), (0, 30), (0, 60), (29, 31), (40, 59),
                   (0, 0), (3, 3), (50, 70), (0, 200), (-1, 4)]
    for strand in (Strand.PLUS, Strand.MINUS, Strand.UNSTRANDED)
]

FEATURE_POS_API = [
    "sequence_pos_to_feature",
    "feature_pos_to_sequence",
    "chunk_relative_pos_to_feature",
    "feature_pos_to_chunk_relative",
]
FEATURE_GENOMIC_INTERVAL_API = ["sequence_interval_to_feature", "chunk_relative_interval_to_feature"]
FEATURE_REL_INTERVAL_API = ["feature_interval_to_sequence", "feature_interval_to_chunk_relative"]

TX_POS_API = FEATURE_POS_API + [
    "sequence_pos_to_transcript",
    "chunk_relative_pos_to_transcript",
    "transcript_pos_to_sequence",
    "transcript_pos_to_chunk_relative",
    "cds_pos_to_sequence",
    "cds_pos_to_chunk_relative",
    "sequence_pos_to_cds",
    "chunk_relative_pos_to_cds",
    "cds_pos_to_transcript",
    "transcript_pos_to_cds",
]
TX_GENOMIC_INTERVAL_API = FEATURE_GENOMIC_INTERVAL_API + [
    "sequence_interval_to_transcript",
    "chunk_relative_interval_to_transcript",
    "sequence_interval_to_cds",
    "chunk_relative_interval_to_cds",
]
TX_REL_INTERVAL_API = FEATURE_REL_INTERVAL_API + [
    "transcript_interval_to_sequence",
    "transcript_interval_to_chunk_relative",
    "cds_interval_to_sequence",
    "cds_interval_to_chunk_relative",
]
CDS_POS_API = [
    "cds_pos_to_sequence",
    "cds_pos_to_chunk_relative",
    "sequence_pos_to_cds",
    "chunk_relative_pos_to_cds",
    "sequence_pos_to_amino_acid",
]
CDS_GENOMIC_INTERVAL_API = ["sequence_interval_to_cds", "chunk_relative_interval_to_cds"]
CDS_REL_INTERVAL_API = ["cds_interval_to_sequence", "cds_interval_to_chunk_relative"]

COMMON_PROPS = [
    "chromosome_location",
    "chunk_relative_location",
    "_chunk_relative_bounded_chromosome_location",
    "chromosome_span",
    "chromosome_gaps_location",
    "chunk_relative_span",
    "chunk_relative_gaps_location",
    "blocks",
    "relative_blocks",
    "num_blocks",
    "num_chunk_relative_blocks",
    "chunk_relative_blocks",
    "strand",
    "chunk_relative_strand",
    "start",
    "end",
    "chunk_relative_start",
    "chunk_relative_end",
    "chunk_relative_size",
    "is_chunk_relative",
    "has_sequence",
    "is_primary_feature",
    "guid",
    "bin",
]
TX_PROPS = COMMON_PROPS + [
    "cds_location",
    "cds_chunk_relative_location",
    "chromosome_intron_location",
    "chunk_relative_intron_location",
    "is_coding",
    "has_in_frame_stop",
    "cds_size",
    "chunk_relative_cds_size",
    "cds_start",
    "cds_end",
    "chunk_relative_cds_start",
    "chunk_relative_cds_end",
    "cds_blocks",
    "chunk_relative_cds_blocks",
    "is_primary_tx",
]
CDS_PROPS = COMMON_PROPS + ["frames", "chunk_relative_frames", "num_codons", "num_chunk_relative_codons"]


def observe_api(obj, pos_api, genomic_api, rel_api, out, prefix):
    for name in pos_api:
        fn = getattr(obj, name)
        out[f"{prefix}.{name}"] = [call(fn, p) for p in POSITIONS]
    for name in genomic_api:
        fn = getattr(obj, name)
        out[f"{prefix}.{name}"] = [call(fn, *i) for i in INTERVALS]
    for name in rel_api:
        fn = getattr(obj, name)
        out[f"{prefix}.{name}"] = [call(fn, *i) for i in REL_INTERVALS]


def observe_transcript(tx, out, prefix):
    out[f"{prefix}.str"] = call(str, tx)
    out[f"{prefix}.repr"] = call(repr, tx)
    out[f"{prefix}.len"] = call(len, tx)
    out[f"{prefix}.to_dict"] = call(tx.to_dict)
    out[f"{prefix}.to_dict_rel"] = call(tx.to_dict, chromosome_relative_coordinates=False)
    for name in TX_PROPS:
        out[f"{prefix}.prop.{name}"] = prop(tx, name)
    # twice: the cached accessors must answer the same the second time
    for name in TX_PROPS:
        out[f"{prefix}.prop2.{name}"] = prop(tx, name)
    observe_api(tx, TX_POS_API, TX_GENOMIC_INTERVAL_API, TX_REL_INTERVAL_API, out, prefix)
    for name in [
        "get_5p_interval",
        "get_3p_interval",
        "get_transcript_sequence",
        "get_cds_sequence",
        "get_protein_sequence",
        "get_spliced_sequence",
        "get_reference_sequence",
        "get_genomic_sequence",
    ]:
        out[f"{prefix}.{name}"] = call(getattr(tx, name))
    if tx.cds is not None:
        cds = tx.cds
        cp = prefix + ".CDS"
        out[f"{cp}.str"] = call(str, cds)
        out[f"{cp}.len"] = call(len, cds)
        out[f"{cp}.to_dict"] = call(cds.to_dict)
        for name in CDS_PROPS:
            out[f"{cp}.prop.{name}"] = prop(cds, name)
        observe_api(cds, CDS_POS_API, CDS_GENOMIC_INTERVAL_API, CDS_REL_INTERVAL_API, out, cp)
        for name in ["extract_sequence", "translate", "optimize_blocks", "optimize_and_combine_blocks"]:
            out[f"{cp}.{name}"] = call(getattr(cds, name))
        out[f"{cp}.scan_codon_locations"] = call(lambda: list(cds.scan_codon_locations()))
        out[f"{cp}.scan_chunk_relative_codon_locations"] = call(lambda: list(cds.scan_chunk_relative_codon_locations()))


def observe_feature(feat, out, prefix):
    out[f"{prefix}.str"] = call(str, feat)
    out[f"{prefix}.len"] = call(len, feat)
    out[f"{prefix}.to_dict"] = call(feat.to_dict)
    for name in COMMON_PROPS:
        out[f"{prefix}.prop.{name}"] = prop(feat, name)
    observe_api(feat, FEATURE_POS_API, FEATURE_GENOMIC_INTERVAL_API, FEATURE_REL_INTERVAL_API, out, prefix)
    for name in ["get_spliced_sequence", "get_reference_sequence", "get_genomic_sequence"]:
        out[f"{prefix}.{name}"] = call(getattr(feat, name))


def frames_for(cds_blocks, strand, first):
    loc = CompoundInterval([b[0] for b in cds_blocks], [b[1] for b in cds_blocks], strand)
    return CDSInterval.construct_frames_from_location(loc, first)


def collect():
    out = {}
    n_tx = n_feat = 0
    for ex_label, exons in EXONS.items():
        starts = [e[0] for e in exons]
        ends = [e[1] for e in exons]
        for strand in (Strand.PLUS, Strand.MINUS):
            for par_label, mk_parent in parents():
                base = f"{ex_label}/{strand.name}/{par_label}"
                # features
                try:
                    feat = FeatureInterval(
                        list(starts), list(ends), strand, feature_name="f", parent_or_seq_chunk_parent=mk_parent()
                    )
                except Exception as exc:  # noqa: BLE001
                    out[f"FEAT/{base}.ctor"] = f"EXC:{type(exc).__name__}:{exc}"
                else:
                    n_feat += 1
                    observe_feature(feat, out, f"FEAT/{base}")
                # transcripts
                for cds_label, cds in cds_placements(exons):
                    for first_frame in (CDSFrame.ZERO, CDSFrame.ONE):
                        if cds is None and first_frame is not CDSFrame.ZERO:
                            continue
                        if first_frame is CDSFrame.ONE and cds_label not in ("full", "interior", "exon_boundaries"):
                            continue
                        prefix = f"TX/{base}/{cds_label}/{first_frame.name}"
                        kwargs = {}
                        if cds is not None:
                            blocks = clip(exons, cds)
                            kwargs = dict(
                                cds_starts=[b[0] for b in blocks],
                                cds_ends=[b[1] for b in blocks],
                                cds_frames=frames_for(blocks, strand, first_frame),
                            )
                        try:
                            tx = TranscriptInterval(
                                list(starts),
                                list(ends),
                                strand,
                                transcript_symbol="t",
                                parent_or_seq_chunk_parent=mk_parent(),
                                **kwargs,
                            )
                        except Exception as exc:  # noqa: BLE001
                            out[f"{prefix}.ctor"] = f"EXC:{type(exc).__name__}:{exc}"
                            continue
                        n_tx += 1
                        observe_transcript(tx, out, prefix)
    out["_counts"] = f"transcripts={n_tx} features={n_feat}"
    return out


def main():
    mode, path = sys.argv[1], sys.argv[2]
    assert os.path.realpath(inscripta.biocantor.location.__file__).startswith(os.path.realpath(os.getcwd())), (
        "not importing the worktree checkout: " + inscripta.biocantor.location.__file__
    )
    result = collect()
    if mode == "dump":
        with open(path, "w") as fh:
            json.dump(result, fh, sort_keys=True)
        print(f"dumped {len(result)} observation groups ({result['_counts']}) to {path}")
        return 0
    with open(path) as fh:
        expected = json.load(fh)
    bad = 0
    for key in sorted(set(expected) | set(result)):
        if expected.get(key) != result.get(key):
            bad += 1
            if bad <= 20:
                print(f"DIFF {key}:\n  pristine  : {str(expected.get(key))[:400]}\n  refactored: {str(result.get(key))[:400]}")
    n_values = sum(len(v) if isinstance(v, list) else 1 for v in result.values())
    print(f"compared {len(result)} observation groups / {n_values} values ({result['_counts']}): {bad} differences")
    return 1 if bad else 0


if __name__ == "__main__":
    sys.exit(main())
