"""
Equivalence script for property C05 (CDS codons / frames / translation).

Usage (from the worktree root):

    /venv/bin/python _refactor/R1/equiv.py dump /tmp/pristine.json      # on pristine code
    git apply _refactor/R1/patch.diff
    /venv/bin/python _refactor/R1/equiv.py dump /tmp/patched.json       # on refactored code
    /venv/bin/python _refactor/R1/equiv.py compare /tmp/pristine.json /tmp/patched.json

Every observation is the repr/str of a result or "EXC <type>: <message>" when the call raised.
"""
import os
import sys

sys.path.insert(0, os.getcwd())  # run from the worktree root

import inscripta.biocantor.location  # noqa: F401,E402  (must come first; circular import otherwise)

import itertools
import json
import random
import warnings

from inscripta.biocantor.gene.cds import CDSInterval
from inscripta.biocantor.gene.cds_frame import CDSFrame, CDSPhase
from inscripta.biocantor.gene.codon import Codon, TranslationTable, START_CODONS_BY_TRANSLATION_TABLE
from inscripta.biocantor.location.location_impl import SingleInterval, CompoundInterval
from inscripta.biocantor.location.strand import Strand
from inscripta.biocantor.parent import Parent, SequenceType
from inscripta.biocantor.sequence.alphabet import Alphabet
from inscripta.biocantor.sequence.sequence import Sequence

warnings.simplefilter("ignore")


# ---------------------------------------------------------------- helpers copied from io/parser.py
def seq_to_parent(seq, alphabet=Alphabet.NT_EXTENDED_GAPPED, seq_id=None, seq_type=SequenceType.CHROMOSOME):
    return Parent(
        sequence=Sequence(seq, alphabet, type=seq_type, id=seq_id), location=SingleInterval(0, len(seq), Strand.PLUS)
    )


def seq_chunk_to_parent(seq, sequence_name, start, end, strand=Strand.PLUS, alphabet=Alphabet.NT_EXTENDED_GAPPED):
    chunk_id = f"{sequence_name}:{start}-{end}"
    return Parent(
        id=chunk_id,
        sequence=Sequence(
            seq,
            alphabet,
            id=chunk_id,
            type=SequenceType.SEQUENCE_CHUNK,
            parent=Parent(
                location=SingleInterval(
                    start,
                    end,
                    strand,
                    parent=Parent(id=sequence_name, sequence_type=SequenceType.CHROMOSOME),
                )
            ),
        ),
    )


def obs(fn):
    """Observe a call: repr of the result or the exception."""
    try:
        val = fn()
        return show(val)
    except Exception as e:  # noqa
        return f"EXC {type(e).__name__}: {e}"


def show(val):
    if isinstance(val, (list, tuple)):
        return type(val).__name__ + "[" + ", ".join(show(v) for v in val) + "]"
    if isinstance(val, dict):
        return "{" + ", ".join(f"{show(k)}: {show(v)}" for k, v in val.items()) + "}"
    if isinstance(val, (set, frozenset)):
        return type(val).__name__ + "{" + ", ".join(sorted(show(v) for v in val)) + "}"
    if isinstance(val, CDSInterval):
        return f"CDSI[{val!r}|{val.guid}|{show(val.to_dict())}]"
    if isinstance(val, Sequence):
        return f"Seq[{str(val)}|{val.alphabet}]"
    return f"{type(val).__name__}:{val!r}|{val!s}"


# ---------------------------------------------------------------- enum / codon observations
def observe_frames(out):
    for f in CDSFrame:
        out[f"frame.{f.name}.to_phase"] = obs(lambda: f.to_phase())
        for s in range(-14, 15):
            out[f"frame.{f.name}.shift({s})"] = obs(lambda: f.shift(s))
        for s in (True, False, 3.0, 4.5, -1.5, 10 ** 12 + 1, -(10 ** 12) - 1):
            out[f"frame.{f.name}.shift({s!r})"] = obs(lambda: f.shift(s))
    for p in CDSPhase:
        out[f"phase.{p.name}.to_frame"] = obs(lambda: p.to_frame())
        out[f"phase.{p.name}.to_gff"] = obs(lambda: p.to_gff())
    for v in (-2, -1, 0, 1, 2, 3, "0", None, 1.0, True):
        out[f"frame.from_int({v!r})"] = obs(lambda: CDSFrame.from_int(v))
        out[f"phase.from_int({v!r})"] = obs(lambda: CDSPhase.from_int(v))
    out["frame.members"] = show([(m.name, m.value) for m in CDSFrame])
    out["phase.members"] = show([(m.name, m.value) for m in CDSPhase])


def observe_codons(out):
    strs = ["".join(c) for c in itertools.product("ATGC", repeat=3)]
    strs += ["CTN", "GTN", "TCN", "CCN", "ACN", "GCN", "CGN", "GGN", "NNN", "ATN", "AUG", "RYK", "atg", "tAa", "cTn"]
    strs += ["", "A", "ATGA", "AT-", "AT*", "XYZ", "at ", "ATGATG"]
    for s in strs:
        try:
            c = Codon(s)
        except Exception as e:  # noqa
            out[f"codon.{s!r}"] = f"EXC {type(e).__name__}: {e}"
            continue
        k = f"codon.{s!r}"
        out[k] = show(c)
        out[k + ".value"] = show((c.value, c.name, hash(c) == hash(str(c)), c == Codon(s), c == s, c is Codon(s.upper())))
        out[k + ".translate"] = show((c.translate(), c.translate(strict=False), c.translate(True), c.translate(False)))
        out[k + ".syn"] = show((c.synonymous_codons(), c.synonymous_codons(True), c.synonymous_codons(include_self=False)))
        out[k + ".flags"] = show((c.is_stop_codon, c.is_strict_codon, c.is_canonical_start_codon))
        out[k + ".start"] = show(
            [obs(lambda: c.is_start_codon_in_specific_translation_table())]
            + [obs(lambda: c.is_start_codon_in_specific_translation_table(t)) for t in TranslationTable]
            + [obs(lambda: c.is_start_codon_in_specific_translation_table(t)) for t in (0, 1, 11, 2, None)]
        )
    out["codon.seqinput"] = obs(lambda: Codon(Sequence("atg", Alphabet.NT_STRICT)))
    out["codon.start_table"] = show({k: sorted(str(c) for c in v) for k, v in START_CODONS_BY_TRANSLATION_TABLE.items()})
    out["tt.members"] = show([(m.name, m.value) for m in TranslationTable])


# ---------------------------------------------------------------- CDS observations
def observe_cds(make, key, out, genome_len):
    """``make`` builds a fresh CDSInterval each time it is called (caches are per instance)."""
    try:
        cds = make()
    except Exception as e:  # noqa
        out[key + ".ctor"] = f"EXC {type(e).__name__}: {e}"
        return
    out[key + ".str"] = show((str(cds), repr(cds), len(cds), cds.id, cds.name, str(cds.guid)))
    out[key + ".frames"] = obs(lambda: cds.frames)
    out[key + ".chunk_relative_frames"] = obs(lambda: cds.chunk_relative_frames)
    out[key + ".to_dict"] = obs(lambda: cds.to_dict())
    out[key + ".to_dict_chunk"] = obs(lambda: cds.to_dict(chromosome_relative_coordinates=False))
    out[key + ".from_dict"] = obs(lambda: CDSInterval.from_dict(cds.to_dict(), cds._parent_or_seq_chunk_parent))
    out[key + ".frame_iter"] = show(
        [obs(lambda: list(cds._frame_iter())), obs(lambda: list(cds._frame_iter(False))), obs(lambda: list(cds._frame_iter(1)))]
    )
    out[key + ".exon_iter"] = show([obs(lambda: list(cds._exon_iter())), obs(lambda: list(cds._exon_iter(False)))])

    # fast path of extract_sequence, before codon locations were cached
    out[key + ".extract_sequence_fast"] = obs(lambda: cds.extract_sequence())
    out[key + ".translate"] = show(
        [
            obs(lambda: cds.translate()),
            obs(lambda: cds.translate(truncate_at_in_frame_stop=True)),
            obs(lambda: cds.translate(strict=False)),
            obs(lambda: cds.translate(True, TranslationTable.PROKARYOTE, False)),
            obs(lambda: cds.translate(False, TranslationTable.STANDARD)),
            obs(lambda: cds.translate(translation_table=TranslationTable.PROKARYOTE, truncate_at_in_frame_stop=True)),
        ]
    )
    out[key + ".scan_codons"] = show(
        [obs(lambda: list(cds.scan_codons())), obs(lambda: list(cds.scan_codons(truncate_at_in_frame_stop=True)))]
    )
    out[key + ".flags"] = show(
        [
            obs(lambda: cds.has_valid_stop),
            obs(lambda: cds.has_in_frame_stop),
            obs(lambda: cds.has_canonical_start_codon),
            obs(lambda: cds.has_start_codon_in_specific_translation_table()),
            obs(lambda: cds.has_start_codon_in_specific_translation_table(TranslationTable.PROKARYOTE)),
            obs(lambda: cds.has_start_codon_in_specific_translation_table(TranslationTable.STANDARD)),
            obs(lambda: cds._first_codon_is_on_chunk()),
        ]
    )
    out[key + ".num_codons"] = show([obs(lambda: cds.num_codons), obs(lambda: cds.num_chunk_relative_codons)])
    out[key + ".codon_locs"] = show(
        [
            obs(lambda: cds.chromosome_codon_locations),
            obs(lambda: cds.chunk_relative_codon_locations),
            obs(lambda: list(cds.scan_codon_locations())),
            obs(lambda: list(cds.scan_chromosome_codon_locations())),
            obs(lambda: list(cds.scan_chunk_relative_codon_locations())),
        ]
    )
    out[key + ".codon_loc_seqs"] = obs(
        lambda: [str(loc.extract_sequence()) for loc in cds.chunk_relative_codon_locations]
    )
    # second instance: cached-codon path of extract_sequence
    cds2 = make()
    out[key + ".extract_sequence_cached"] = show(
        [obs(lambda: cds2.chunk_relative_codon_locations), obs(lambda: cds2.extract_sequence())]
    )
    out[key + ".translate_cached"] = show(
        [obs(lambda: cds2.translate()), obs(lambda: cds2.has_valid_stop), obs(lambda: cds2.has_in_frame_stop)]
    )

    # windows
    lo, hi = cds.start, cds.end
    rng = random.Random(len(key) * 7919 + lo * 31 + hi)
    windows = [(None, None), (lo, None), (None, hi), (lo, hi), (lo + 1, None), (None, hi - 1), (lo + 2, hi - 2)]
    windows += [(lo, lo), (hi, hi), (0, genome_len), (max(0, lo - 3), hi + 5), (hi - 1, lo + 1)]
    for _ in range(8):
        a = rng.randint(max(0, lo - 2), hi)
        b = rng.randint(a, hi + 2)
        windows.append((a, b))
    for (a, b) in windows:
        for expand in (False, True):
            wk = f"{key}.window({a},{b},{expand})"
            out[wk] = show(
                [
                    obs(lambda: list(cds.scan_chromosome_codon_locations(a, b, expand))),
                    obs(lambda: list(cds.scan_chunk_relative_codon_locations(a, b, expand))),
                    obs(lambda: cds._convert_chromosome_start_end_to_relative_window(a, b, expand)),
                ]
            )
            if a is not None and b is not None:
                out[wk + ".expand"] = obs(lambda: cds._expand_coordinates_to_codons(a, b))
    out[key + ".window_kw"] = show(
        [
            obs(lambda: list(cds.scan_chromosome_codon_locations(chromosome_end=hi - 1, expand_window_to_partial_codons=True))),
            obs(lambda: list(cds.scan_chunk_relative_codon_locations(chromosome_start=lo + 1))),
        ]
    )
    out[key + ".prepare"] = show(
        [
            obs(lambda: cds._prepare_single_exon_window_for_scan_codon_locations()),
            obs(lambda: cds._prepare_single_exon_window_for_scan_codon_locations(None, False)),
            obs(lambda: cds._prepare_multi_exon_window_for_scan_codon_locations()),
            obs(lambda: cds._prepare_multi_exon_window_for_scan_codon_locations(None, False)),
            obs(lambda: list(cds._scan_codon_locations())),
            obs(lambda: list(cds._scan_codon_locations(None, False))),
            obs(lambda: list(cds._scan_codon_locations(chunk_relative_coordinates=False))),
        ]
    )
    out[key + ".frame_offset"] = show(
        [
            obs(lambda: cds._calculate_frame_offset(cds.chromosome_location, cds.chromosome_location)),
            obs(
                lambda: cds._calculate_frame_offset(
                    cds.chromosome_location,
                    cds.chromosome_location.intersection(
                        SingleInterval(lo + 1, hi - 1, cds.strand, cds.chromosome_location.parent)
                    ),
                )
            ),
        ]
    )

    # gff / qualifiers
    out[key + ".gff"] = show(
        [
            obs(lambda: [str(r) for r in cds.to_gff()]),
            obs(lambda: [str(r) for r in cds.to_gff(parent="p1", parent_qualifiers={"a": {"b"}})]),
            obs(lambda: [str(r) for r in cds.to_gff(chromosome_relative_coordinates=False)]),
            obs(lambda: cds.export_qualifiers()),
            obs(lambda: cds.export_qualifiers({"product": {"zzz"}, "other": {"1"}})),
        ]
    )
    # block optimisation & coordinate conversions
    out[key + ".optimize"] = show([obs(lambda: cds.optimize_blocks()), obs(lambda: cds.optimize_and_combine_blocks())])
    out[key + ".to_bed12"] = obs(lambda: cds.to_bed12())
    conv = []
    for pos in (0, 1, 2, 5, len(cds) - 1, len(cds)):
        conv.append(obs(lambda: cds.cds_pos_to_sequence(pos)))
        conv.append(obs(lambda: cds.cds_pos_to_chunk_relative(pos)))
    for pos in (lo, lo + 1, hi - 1, hi, (lo + hi) // 2):
        conv.append(obs(lambda: cds.sequence_pos_to_cds(pos)))
        conv.append(obs(lambda: cds.chunk_relative_pos_to_cds(pos)))
        conv.append(obs(lambda: cds.sequence_pos_to_amino_acid(pos)))
    conv.append(obs(lambda: cds.cds_interval_to_sequence(1, 5, Strand.PLUS)))
    conv.append(obs(lambda: cds.cds_interval_to_chunk_relative(1, 5, Strand.PLUS)))
    conv.append(obs(lambda: cds.sequence_interval_to_cds(lo, hi, Strand.PLUS)))
    conv.append(obs(lambda: cds.chunk_relative_interval_to_cds(0, 5, Strand.PLUS)))
    out[key + ".conv"] = show(conv)


def random_layout(rng, genome_len, nblocks):
    """Sorted, non overlapping blocks; adjacent blocks may touch (0bp gap)."""
    while True:
        n_points = 2 * nblocks
        pts = sorted(rng.randint(2, genome_len - 2) for _ in range(n_points))
        starts, ends = pts[0::2], pts[1::2]
        # sometimes make 0bp gaps
        for i in range(1, nblocks):
            if rng.random() < 0.3:
                starts[i] = ends[i - 1]
        if all(e > s for s, e in zip(starts, ends)) and all(starts[i] >= ends[i - 1] for i in range(1, nblocks)):
            return starts, ends


def observe_construct_frames(out):
    rng = random.Random(5)
    for n in (1, 2, 3, 4, 5):
        for rep in range(6):
            starts, ends = random_layout(rng, 80, n)
            for strand in (Strand.PLUS, Strand.MINUS, Strand.UNSTRANDED):
                loc = SingleInterval(starts[0], ends[0], strand) if n == 1 else CompoundInterval(starts, ends, strand)
                for f in CDSFrame:
                    out[f"construct_frames({starts},{ends},{strand.name},{f.name})"] = obs(
                        lambda: CDSInterval.construct_frames_from_location(loc, f)
                    )
                out[f"construct_frames({starts},{ends},{strand.name},default)"] = show(
                    [
                        obs(lambda: CDSInterval.construct_frames_from_location(loc)),
                        obs(lambda: CDSInterval.construct_frames_from_location(location=loc, starting_frame=CDSFrame.TWO)),
                    ]
                )


def main_dump(path):
    out = {}
    assert inscripta.biocantor.__file__.startswith(os.getcwd()), inscripta.biocantor.__file__
    observe_frames(out)
    observe_codons(out)
    observe_construct_frames(out)

    rng = random.Random(20221003)
    genome_len = 120
    alphabet_pool = "ACGT" * 40 + "N" + "acgt"
    n_cases = 0
    for case in range(70):
        genome = "".join(rng.choice(alphabet_pool) for _ in range(genome_len))
        # seed a few starts / stops so that the start / stop rules are exercised
        nblocks = rng.choice([1, 1, 2, 2, 3, 3, 4, 5])
        starts, ends = random_layout(rng, genome_len, nblocks)
        strand = rng.choice([Strand.PLUS, Strand.MINUS])
        loc = SingleInterval(starts[0], ends[0], strand) if nblocks == 1 else CompoundInterval(starts, ends, strand)
        mode = rng.choice(["consistent", "consistent", "random", "phases", "onebad"])
        offset = rng.choice(list(CDSFrame)[1:])
        if mode == "consistent":
            frames = CDSInterval.construct_frames_from_location(loc, offset)
        elif mode == "random":
            frames = [rng.choice([CDSFrame.ZERO, CDSFrame.ONE, CDSFrame.TWO]) for _ in range(nblocks)]
        elif mode == "phases":
            frames = [rng.choice([CDSPhase.ZERO, CDSPhase.ONE, CDSPhase.TWO]) for _ in range(nblocks)]
        else:
            frames = CDSInterval.construct_frames_from_location(loc, offset)
            i = rng.randrange(nblocks)
            frames[i] = frames[i].shift(rng.choice([1, 2]))
        # put a start codon at the 5' end sometimes
        if rng.random() < 0.5:
            g = list(genome)
            off = frames[0 if strand == Strand.PLUS else -1]
            off = off.value if isinstance(off, CDSFrame) else off.to_frame().value
            codon = rng.choice(["ATG", "TTG", "GTG", "CTG", "ATA"])
            if strand == Strand.PLUS and ends[0] - starts[0] >= 3 + off:
                g[starts[0] + off : starts[0] + off + 3] = codon
            elif strand == Strand.MINUS and ends[-1] - starts[-1] >= 3 + off:
                rc = codon[::-1].translate(str.maketrans("ACGT", "TGCA"))
                g[ends[-1] - off - 3 : ends[-1] - off] = rc
            genome = "".join(g)

        quals = rng.choice([None, {"gene": ["abc"], "note": ["x", "y"]}])
        pid = rng.choice([None, "prot1"])
        prod = rng.choice([None, "a product"])

        parents = {"none": lambda: None, "chrom": lambda: seq_to_parent(genome, seq_id="chr1")}
        # chunk parents
        lo, hi = starts[0], ends[-1]
        chunk_bounds = [
            (max(0, lo - 2), min(genome_len, hi + 2)),
            (lo + rng.randint(0, 4), hi),
            (lo, hi - rng.randint(0, 4)),
            (rng.randint(lo, (lo + hi) // 2), rng.randint((lo + hi) // 2 + 1, hi)),
        ]
        for ci, (a, b) in enumerate(chunk_bounds):
            if b > a:
                parents[f"chunk{ci}[{a}:{b}]"] = lambda a=a, b=b: seq_chunk_to_parent(genome[a:b], "chr1", a, b)

        for pname, pfn in parents.items():
            def make(pfn=pfn):
                return CDSInterval(
                    list(starts),
                    list(ends),
                    strand,
                    list(frames),
                    sequence_name="chr1",
                    protein_id=pid,
                    product=prod,
                    qualifiers=quals,
                    parent_or_seq_chunk_parent=pfn(),
                )

            key = f"case{case}.{mode}.{strand.name}.{starts}.{ends}.{[f.name for f in frames]}.{pname}"
            observe_cds(make, key, out, genome_len)
            n_cases += 1

    # constructor error paths and from_location variants
    p = seq_to_parent("ATGAAACCCGGGTTTTAGATGAAACCC", seq_id="c")
    out["ctor.mismatch"] = obs(lambda: CDSInterval([0, 10], [5, 15], Strand.PLUS, [CDSFrame.ZERO]))
    out["ctor.mix1"] = obs(lambda: CDSInterval([0, 10], [5, 15], Strand.PLUS, [CDSFrame.ZERO, CDSPhase.ONE]))
    out["ctor.mix2"] = obs(lambda: CDSInterval([0, 10], [5, 15], Strand.PLUS, [CDSPhase.ZERO, CDSFrame.ONE]))
    out["ctor.mix3"] = obs(
        lambda: CDSInterval([0, 10, 20], [5, 15, 25], Strand.PLUS, [CDSPhase.ZERO, CDSPhase.ONE, CDSFrame.ONE])
    )
    out["ctor.empty"] = obs(lambda: CDSInterval([3], [3], Strand.PLUS, [CDSFrame.ZERO]))
    out["ctor.guid"] = obs(lambda: CDSInterval([0], [9], Strand.PLUS, [CDSFrame.ZERO], guid="myguid").guid)
    out["ctor.phase_none"] = obs(lambda: CDSInterval([0], [9], Strand.PLUS, [CDSPhase.NONE]).frames)
    out["from_location"] = obs(
        lambda: CDSInterval.from_location(
            CompoundInterval([0, 12], [9, 21], Strand.PLUS, parent=p), [CDSFrame.ZERO, CDSFrame.ZERO], protein_id="x"
        )
    )
    chunk_p = seq_chunk_to_parent("GAAACCCGGGTTTTAGATG", "c", 2, 21)
    out["from_location.chunk_err"] = obs(
        lambda: CDSInterval.from_location(SingleInterval(0, 9, Strand.PLUS, parent=chunk_p), [CDSFrame.ZERO])
    )
    out["from_chunk_relative_location"] = obs(
        lambda: CDSInterval.from_chunk_relative_location(
            SingleInterval(1, 16, Strand.MINUS, parent=chunk_p), [CDSFrame.ONE], product="pp"
        )
    )
    out["from_chunk_relative_location.err"] = obs(
        lambda: CDSInterval.from_chunk_relative_location(SingleInterval(1, 16, Strand.MINUS, parent=p), [CDSFrame.ONE])
    )
    # strict translate error & untranslatable codons
    pn = seq_to_parent("ATGAANCCNGGGTTTTAG", seq_id="c")
    for strict in (True, False):
        out[f"translate.N.strict={strict}"] = obs(
            lambda: CDSInterval([0], [18], Strand.PLUS, [CDSFrame.ZERO], parent_or_seq_chunk_parent=pn).translate(
                strict=strict
            )
        )
    out["no_sequence.extract"] = obs(lambda: CDSInterval([0], [18], Strand.PLUS, [CDSFrame.ZERO]).extract_sequence())
    out["no_sequence.translate"] = obs(lambda: CDSInterval([0], [18], Strand.PLUS, [CDSFrame.ZERO]).translate())
    out["short.flags"] = show(
        [
            obs(lambda: CDSInterval([0], [2], Strand.PLUS, [CDSFrame.ZERO], parent_or_seq_chunk_parent=p).has_valid_stop),
            obs(
                lambda: CDSInterval(
                    [0], [2], Strand.PLUS, [CDSFrame.ZERO], parent_or_seq_chunk_parent=p
                ).has_canonical_start_codon
            ),
            obs(lambda: CDSInterval([0], [2], Strand.PLUS, [CDSFrame.ZERO], parent_or_seq_chunk_parent=p).translate()),
            obs(lambda: CDSInterval([0], [2], Strand.PLUS, [CDSFrame.ZERO], parent_or_seq_chunk_parent=p).has_in_frame_stop),
        ]
    )
    # CDS that is entirely or almost entirely off its sequence chunk
    from inscripta.biocantor.location.location_impl import EmptyLocation

    out["construct_frames.empty"] = obs(lambda: CDSInterval.construct_frames_from_location(EmptyLocation(), CDSFrame.ONE))
    genome2 = "ATGAAACCCGGGTTTTAGATGAAACCCATGAAACCCGGGTTTTAGATGAAACCC"
    layouts = [
        ([5], [20], [CDSFrame.ZERO]),
        ([5, 12], [10, 25], [CDSFrame.ZERO, CDSFrame.ONE]),
        ([5, 12], [10, 25], [CDSFrame.ONE, CDSFrame.ONE]),
        ([5, 10, 12], [10, 11, 25], [CDSFrame.TWO, CDSFrame.ONE, CDSFrame.ZERO]),
    ]
    for (a, b) in [(30, 50), (0, 3), (0, 6), (19, 40), (10, 12), (9, 13), (24, 30)]:
        for starts2, ends2, frames2 in layouts:
            for strand2 in (Strand.PLUS, Strand.MINUS):

                def make2(a=a, b=b, starts2=starts2, ends2=ends2, frames2=frames2, strand2=strand2):
                    return CDSInterval(
                        list(starts2),
                        list(ends2),
                        strand2,
                        list(frames2),
                        parent_or_seq_chunk_parent=seq_chunk_to_parent(genome2[a:b], "c", a, b),
                    )

                key = f"edgechunk[{a}:{b}].{starts2}.{ends2}.{[f.name for f in frames2]}.{strand2.name}"
                observe_cds(make2, key, out, len(genome2))

    # signature observations (existing parameters must keep name / order / default)
    import inspect

    import re

    def signature_of(cls, name):
        attr = inspect.getattr_static(cls, name)
        fn = attr.__func__ if isinstance(attr, (staticmethod, classmethod)) else attr
        if isinstance(fn, property):
            return "property"
        if type(fn).__name__ == "_PropertyRope":
            return "cached property"
        if not inspect.isfunction(fn):
            fn = getattr(cls, name)  # methodtools.lru_cache wrapper
        if not callable(fn):
            return None
        kind = type(attr).__name__ if isinstance(attr, (staticmethod, classmethod)) else "method"
        return kind + " " + re.sub(r" at 0x[0-9a-f]+", "", str(inspect.signature(fn)))

    for cls in (CDSInterval, CDSFrame, CDSPhase, Codon):
        for name in sorted(n for n in vars(cls) if not n.startswith("__")):
            sig = signature_of(cls, name)
            if sig is not None:
                out[f"sig.{cls.__name__}.{name}"] = sig

    with open(path, "w") as fh:
        json.dump(out, fh, indent=0, sort_keys=True)
    print(f"{len(out)} observations over {n_cases} CDS/parent combinations written to {path}")


def main_compare(a, b, allow_new_sig_suffix=True):
    with open(a) as fh:
        da = json.load(fh)
    with open(b) as fh:
        db = json.load(fh)
    bad = 0
    for k in sorted(set(da) | set(db)):
        va, vb = da.get(k), db.get(k)
        if va == vb:
            continue
        if k.startswith("sig.") and va is not None and vb is not None and allow_new_sig_suffix:
            # a NEW trailing optional parameter is allowed: the old signature must be a prefix of the new one
            pa, pb = va.split(" -> ")[0].rstrip(")"), vb.split(" -> ")[0].rstrip(")")
            if pb.startswith(pa) and va.split(" -> ")[1:] == vb.split(" -> ")[1:]:
                print(f"NOTE signature extended: {k}: {va}  =>  {vb}")
                continue
        if k.startswith("sig.") and va is None and k.split(".")[-1].startswith("_"):
            print(f"NOTE new private helper: {k}{vb}")
            continue
        bad += 1
        print(f"DIFF {k}\n   A: {va}\n   B: {vb}")
    print(f"{len(da)} vs {len(db)} observations, {bad} differences")
    return 1 if bad else 0


if __name__ == "__main__":
    if sys.argv[1] == "dump":
        main_dump(sys.argv[2])
    else:
        sys.exit(main_compare(sys.argv[2], sys.argv[3]))
