"""
Equivalence harness for property C05 (CDS codons / frames / translation).

Usage (from the worktree root):

    /venv/bin/python _refactor/RN/equiv.py save /tmp/c05_pristine.json     # on the pristine checkout
    git apply _refactor/RN/patch.diff
    /venv/bin/python _refactor/RN/equiv.py check /tmp/c05_pristine.json    # on the refactored checkout

Every observable is recorded as repr()/str() (or "EXC <type>: <message>" if it raised), so exception types
and messages are compared as well.
"""
import os
import sys

sys.path.insert(0, os.getcwd())  # run from the worktree root: import the worktree's package

import inscripta.biocantor.location  # noqa: F401,E402  must be first (circular import otherwise)

import itertools  # noqa: E402
import json  # noqa: E402
import random  # noqa: E402
import warnings  # noqa: E402

from inscripta.biocantor.gene.cds import CDSInterval
from inscripta.biocantor.gene.cds_frame import CDSFrame, CDSPhase
from inscripta.biocantor.gene.codon import Codon, TranslationTable, START_CODONS_BY_TRANSLATION_TABLE
from inscripta.biocantor.location import SingleInterval, CompoundInterval, Strand, EmptyLocation
from inscripta.biocantor.parent import Parent, SequenceType
from inscripta.biocantor.sequence import Sequence, Alphabet

FOCUS = (
    "R3: CDSFrame.shift/to_phase, CDSPhase.to_frame/to_gff, CDSInterval.construct_frames_from_location, chunk_relative_frames"
)

warnings.simplefilter("ignore")


# copies of inscripta.biocantor.io.parser helpers (that module cannot be imported here)
def seq_to_parent(seq, alphabet=Alphabet.NT_EXTENDED_GAPPED, seq_id=None, seq_type=SequenceType.CHROMOSOME):
    return Parent(
        sequence=Sequence(seq, alphabet, type=seq_type, id=seq_id), location=SingleInterval(0, len(seq), Strand.PLUS)
    )


def seq_chunk_to_parent(seq, sequence_name, start, end, strand=Strand.PLUS, alphabet=Alphabet.NT_EXTENDED_GAPPED):
    chunk_id = f"{sequence_name}:{start}-{end}"
    return Parent(
        id=chunk_id,
        sequence=Sequence(
            seq,
            alphabet,
            id=chunk_id,
            type=SequenceType.SEQUENCE_CHUNK,
            parent=Parent(
                location=SingleInterval(
                    start, end, strand, parent=Parent(id=sequence_name, sequence_type=SequenceType.CHROMOSOME)
                )
            ),
        ),
    )


def obs(fn):
    try:
        val = fn()
        if isinstance(val, (list, tuple)):
            return [repr(x) for x in val]
        return repr(val)
    except Exception as e:  # noqa
        return f"EXC {type(e).__name__}: {e}"


def lst(fn):
    """Fully consume an iterator, keeping what was produced before any exception."""
    out = []
    try:
        for x in fn():
            out.append(repr(x))
    except Exception as e:  # noqa
        out.append(f"EXC {type(e).__name__}: {e}")
    return out


rng = random.Random(20261002)
GENOME_LEN = 150
GENOME = "".join(rng.choice("ACGT") for _ in range(GENOME_LEN))
# sprinkle stops / starts / ambiguity / lower case so that all translate() branches are hit
GENOME = (
    GENOME[:10] + "ATGTAAatgcttGTCTGA" + GENOME[28:70] + "TTGCTGATATAG" + GENOME[82:118] + "ATGctnGTNNNNWSMTAA" + GENOME[136:]
)
assert len(GENOME) == GENOME_LEN


def layouts():
    """Exon layouts: 1..4 blocks, gaps of 0bp included, overlapping blocks included."""
    out = [
        ([10], [28]),
        ([10], [27]),
        ([11], [30]),
        ([3], [5]),
        ([0], [150]),
        ([10, 20], [20, 31]),  # 0bp gap
        ([10, 19], [20, 31]),  # overlapping blocks (-1 frameshift)
        ([10, 30], [22, 42]),
        ([5, 40, 80], [17, 51, 95]),
        ([0, 7, 12], [5, 11, 18]),
        ([2, 8, 21, 60], [4, 17, 40, 83]),
        ([2, 4, 21, 60], [4, 17, 21 + 1, 83]),
        ([60, 70, 82], [70, 82, 94]),
        ([118], [136]),
        ([100, 118], [112, 136]),
        ([110, 125], [123, 140]),
    ]
    for _ in range(14):
        k = rng.randint(1, 4)
        pos = rng.randint(0, 20)
        starts, ends = [], []
        for _i in range(k):
            ln = rng.randint(1, 25)
            starts.append(pos)
            ends.append(pos + ln)
            pos = pos + ln + rng.choice([0, 0, 1, 2, 3, 5, 9, 14])
        if ends[-1] <= GENOME_LEN:
            out.append((starts, ends))
    return out


def frame_vectors(starts, ends, strand):
    n = len(starts)
    loc = SingleInterval(starts[0], ends[0], strand) if n == 1 else CompoundInterval(starts, ends, strand)
    vecs = []
    for off in (CDSFrame.ZERO, CDSFrame.ONE, CDSFrame.TWO):
        vecs.append(CDSInterval.construct_frames_from_location(loc, off))
    # programmed frameshift vectors
    for _ in range(2 if n > 1 else 0):
        vecs.append([CDSFrame(rng.randint(0, 2)) for _ in range(n)])
    # one phase vector
    vecs.append([f.to_phase() for f in vecs[1]])
    return vecs


def parents_for(starts, ends):
    lo, hi = starts[0], ends[-1]
    mid = (lo + hi) // 2
    ps = [("noparent", lambda: None), ("chrom", lambda: seq_to_parent(GENOME))]
    windows = {
        (0, GENOME_LEN),
        (max(lo - 2, 0), min(hi + 3, GENOME_LEN)),
        (lo + 1, hi),
        (lo, hi - 2),
        (lo + 4, hi - 4),
        (mid, hi),
        (lo, mid + 1),
        (mid - 3, mid + 7),
    }
    for s, e in sorted(windows):
        s, e = max(s, 0), min(e, GENOME_LEN)
        if e - s < 1:
            continue
        ps.append((f"chunk{s}-{e}", (lambda s=s, e=e: seq_chunk_to_parent(GENOME[s:e], "chr", s, e))))
    return ps


def windows_for(starts, ends):
    lo, hi = starts[0], ends[-1]
    mid = (lo + hi) // 2
    return [
        (None, None),
        (lo, None),
        (None, hi),
        (lo + 1, None),
        (lo + 2, hi - 1),
        (None, hi - 2),
        (mid, None),
        (None, mid),
        (mid - 2, mid + 5),
        (mid, mid),
        (max(lo - 5, 0), hi + 10),
        (hi, hi + 4),
    ]


def observe_cds(mk):
    r = {}
    c = mk()
    r["str"] = obs(lambda: str(c))
    r["repr"] = obs(lambda: repr(c))
    r["len"] = obs(lambda: len(c))
    r["frames"] = obs(lambda: c.frames)
    r["chunk_relative_frames"] = obs(lambda: c.chunk_relative_frames)
    r["frame_iter_T"] = lst(lambda: c._frame_iter(True))
    r["frame_iter_F"] = lst(lambda: c._frame_iter(False))
    r["exon_iter_T"] = lst(lambda: c._exon_iter(True))
    r["exon_iter_F"] = lst(lambda: c._exon_iter(False))
    r["to_dict_T"] = obs(lambda: sorted(c.to_dict(True).items(), key=str))
    r["to_dict_F"] = obs(lambda: sorted(c.to_dict(False).items(), key=str))
    r["guid"] = obs(lambda: c.guid)
    # fast path first
    r["extract_fast"] = obs(lambda: c.extract_sequence())
    r["extract_fast_str"] = obs(lambda: str(c.extract_sequence()))
    r["scan_codons"] = lst(lambda: c.scan_codons())
    r["scan_codons_trunc"] = lst(lambda: c.scan_codons(True))
    r["scan_codons_trunc_kw"] = lst(lambda: c.scan_codons(truncate_at_in_frame_stop=True))
    for trunc, table, strict in itertools.product((False, True), list(TranslationTable), (True, False)):
        r[f"translate_{trunc}_{table.name}_{strict}"] = obs(
            lambda: c.translate(truncate_at_in_frame_stop=trunc, translation_table=table, strict=strict)
        )
        r[f"translate_str_{trunc}_{table.name}_{strict}"] = obs(lambda: str(c.translate(trunc, table, strict)))
    r["translate_default"] = obs(lambda: c.translate())
    r["has_valid_stop"] = obs(lambda: c.has_valid_stop)
    r["has_in_frame_stop"] = obs(lambda: c.has_in_frame_stop)
    r["has_canonical_start_codon"] = obs(lambda: c.has_canonical_start_codon)
    for table in TranslationTable:
        r[f"has_start_{table.name}"] = obs(lambda: c.has_start_codon_in_specific_translation_table(table))
    r["has_start_default"] = obs(lambda: c.has_start_codon_in_specific_translation_table())
    r["cached_flag_before"] = obs(lambda: c._chunk_relative_codon_locations_cached)
    r["num_codons"] = obs(lambda: c.num_codons)
    r["num_chunk_relative_codons"] = obs(lambda: c.num_chunk_relative_codons)
    r["chromosome_codon_locations"] = obs(lambda: c.chromosome_codon_locations)
    r["chunk_relative_codon_locations"] = obs(lambda: c.chunk_relative_codon_locations)
    r["cached_flag_after"] = obs(lambda: c._chunk_relative_codon_locations_cached)
    r["deprecated_scan"] = lst(lambda: c.scan_codon_locations())

    # cached codon path of extract_sequence on a fresh object
    c2 = mk()
    r["c2_codons"] = obs(lambda: c2.chunk_relative_codon_locations)
    r["c2_extract_cached"] = obs(lambda: c2.extract_sequence())
    r["c2_extract_cached_str"] = obs(lambda: str(c2.extract_sequence()))
    r["c2_translate"] = obs(lambda: c2.translate())
    r["c2_translate_loose"] = obs(lambda: c2.translate(strict=False, translation_table=TranslationTable.PROKARYOTE))
    r["c2_has_valid_stop"] = obs(lambda: c2.has_valid_stop)
    r["c2_has_in_frame_stop"] = obs(lambda: c2.has_in_frame_stop)
    r["c2_scan_codons"] = lst(lambda: c2.scan_codons())

    # codon windows
    c3 = mk()
    starts, ends = c3._genomic_starts, c3._genomic_ends
    for (ws, we) in windows_for(starts, ends):
        for expand in (False, True):
            key = f"win_{ws}_{we}_{expand}"
            r[key + "_relwin"] = obs(lambda: c3._convert_chromosome_start_end_to_relative_window(ws, we, expand))
            r[key + "_chunk"] = lst(lambda: c3.scan_chunk_relative_codon_locations(ws, we, expand))
            r[key + "_chrom"] = lst(lambda: c3.scan_chromosome_codon_locations(ws, we, expand))
            r[key + "_chunk_seq"] = lst(
                lambda: (str(x.extract_sequence()) for x in c3.scan_chunk_relative_codon_locations(ws, we, expand))
            )
        if ws is not None and we is not None:
            r[f"expand_{ws}_{we}"] = obs(lambda: c3._expand_coordinates_to_codons(ws, we))
        # direct calls to the private window preparation functions
        for chunk_rel in (True, False):
            win = None
            try:
                win = c3._convert_chromosome_start_end_to_relative_window(ws, we, False)
            except Exception:  # noqa
                continue
            r[f"prep_single_{ws}_{we}_{chunk_rel}"] = obs(
                lambda: c3._prepare_single_exon_window_for_scan_codon_locations(win, chunk_rel)
            )
            r[f"prep_multi_{ws}_{we}_{chunk_rel}"] = obs(
                lambda: c3._prepare_multi_exon_window_for_scan_codon_locations(win, chunk_rel)
            )
            r[f"scan_priv_{ws}_{we}_{chunk_rel}"] = lst(lambda: c3._scan_codon_locations(win, chunk_rel))
    r["prep_single_default"] = obs(lambda: c3._prepare_single_exon_window_for_scan_codon_locations())
    r["prep_multi_default"] = obs(lambda: c3._prepare_multi_exon_window_for_scan_codon_locations())
    r["prep_single_kw"] = obs(
        lambda: c3._prepare_single_exon_window_for_scan_codon_locations(
            relative_window=None, chunk_relative_coordinates=True
        )
    )
    r["prep_multi_kw"] = obs(
        lambda: c3._prepare_multi_exon_window_for_scan_codon_locations(
            relative_window=None, chunk_relative_coordinates=True
        )
    )
    # _calculate_frame_offset
    cl = c3.chromosome_location
    for blk in cl.blocks:
        sub = SingleInterval(blk.start, blk.end, cl.strand, parent=cl.parent)
        r[f"frame_offset_{blk.start}"] = obs(lambda: c3._calculate_frame_offset(cl, sub))
        if len(blk) > 2:
            sub2 = SingleInterval(blk.start + 1, blk.end - 1, cl.strand, parent=cl.parent)
            r[f"frame_offset2_{blk.start}"] = obs(lambda: c3._calculate_frame_offset(cl, sub2))
    r["frame_offset_self"] = obs(lambda: c3._calculate_frame_offset(cl, cl))

    # block optimisation + gff
    c4 = mk()
    r["optimize_blocks"] = obs(lambda: c4.optimize_blocks())
    r["optimize_and_combine_blocks"] = obs(lambda: c4.optimize_and_combine_blocks())
    r["optimize_blocks_translate"] = obs(lambda: c4.optimize_blocks().translate())
    r["to_gff_T"] = lst(lambda: (str(x) for x in c4.to_gff(chromosome_relative_coordinates=True)))
    r["to_gff_F"] = lst(lambda: (str(x) for x in c4.to_gff(chromosome_relative_coordinates=False)))
    r["roundtrip"] = obs(lambda: CDSInterval.from_dict(c4.to_dict(), c4._parent_or_seq_chunk_parent))
    return r


def cds_section():
    res = {}
    n = 0
    for (starts, ends) in layouts():
        for strand in (Strand.PLUS, Strand.MINUS):
            for vi, vec in enumerate(frame_vectors(starts, ends, strand)):
                for pname, pfn in parents_for(starts, ends):
                    # limit the chunk explosion: all parents for the first 3 vectors, chrom only beyond
                    if vi >= 3 and not pname.startswith("chrom") and not pname.startswith("chunk0-"):
                        if rng.random() < 0.6:
                            continue

                    def mk(starts=starts, ends=ends, strand=strand, vec=vec, pfn=pfn):
                        return CDSInterval(
                            list(starts),
                            list(ends),
                            strand,
                            list(vec),
                            sequence_name="chr",
                            protein_id="prot",
                            product="prod",
                            qualifiers={"k": ["v"]},
                            parent_or_seq_chunk_parent=pfn(),
                        )

                    key = f"{starts}|{ends}|{strand.name}|{[f.name for f in vec]}|{type(vec[0]).__name__}|{pname}"
                    try:
                        mk()
                    except Exception as e:  # noqa
                        res[key] = f"CTOR EXC {type(e).__name__}: {e}"
                        continue
                    res[key] = observe_cds(mk)
                    n += 1
    res["__count__"] = n
    return res


def ctor_section():
    """Constructor validation paths."""
    r = {}
    F, P = CDSFrame, CDSPhase
    cases = {
        "mix_fp": ([0, 10], [5, 15], [F.ZERO, P.ONE]),
        "mix_pf": ([0, 10], [5, 15], [P.ZERO, F.ONE]),
        "mix_fpf": ([0, 10, 20], [5, 15, 25], [F.ZERO, F.ONE, P.ONE]),
        "mix_ppf": ([0, 10, 20], [5, 15, 25], [P.ZERO, P.ONE, F.ONE]),
        "mismatch_len": ([0, 10], [5, 15], [F.ZERO]),
        "phases": ([0, 10], [5, 15], [P.ZERO, P.ONE]),
        "phase_none": ([0, 10], [5, 15], [P.NONE, P.ONE]),
        "ints": ([0, 10], [5, 15], [0, 1]),
        "frame_then_int": ([0, 10], [5, 15], [F.ZERO, 1]),
        "empty": ([], [], []),
        "zero_len": ([5], [5], [F.ZERO]),
        "uneven": ([0, 10], [5], [F.ZERO, F.ONE]),
    }
    for name, (s, e, fr) in cases.items():
        for strand in (Strand.PLUS, Strand.MINUS):
            r[f"{name}_{strand.name}"] = obs(lambda: CDSInterval(s, e, strand, fr))
            r[f"{name}_{strand.name}_frames"] = obs(lambda: CDSInterval(s, e, strand, fr).frames)
            r[f"{name}_{strand.name}_parent"] = obs(
                lambda: CDSInterval(s, e, strand, fr, parent_or_seq_chunk_parent=seq_to_parent(GENOME)).translate()
            )
    return r


def frames_section():
    r = {}
    locs = []
    for starts, ends in layouts():
        for strand in (Strand.PLUS, Strand.MINUS, Strand.UNSTRANDED):
            try:
                if len(starts) == 1:
                    locs.append(SingleInterval(starts[0], ends[0], strand))
                else:
                    locs.append(CompoundInterval(starts, ends, strand))
            except Exception:  # noqa
                pass
    locs.append(EmptyLocation())
    for loc in locs:
        for sf in list(CDSFrame) + [None]:
            r[f"cffl|{loc!r}|{sf}"] = obs(lambda: CDSInterval.construct_frames_from_location(loc, sf))
        r[f"cffl|{loc!r}|default"] = obs(lambda: CDSInterval.construct_frames_from_location(loc))
        r[f"cffl|{loc!r}|kw"] = obs(
            lambda: CDSInterval.construct_frames_from_location(location=loc, starting_frame=CDSFrame.TWO)
        )
    for f in CDSFrame:
        for s in list(range(-13, 14)) + [300, -300, 3.0, -2.0, True, False]:
            r[f"shift|{f.name}|{s!r}"] = obs(lambda: f.shift(s))
        r[f"shift_kw|{f.name}"] = obs(lambda: f.shift(shift=4))
        r[f"to_phase|{f.name}"] = obs(lambda: f.to_phase())
        r[f"shift_bad|{f.name}"] = obs(lambda: f.shift("a"))
        r[f"shift_none|{f.name}"] = obs(lambda: f.shift(None))
    for p in CDSPhase:
        r[f"to_frame|{p.name}"] = obs(lambda: p.to_frame())
        r[f"to_gff|{p.name}"] = obs(lambda: p.to_gff())
    for v in (-2, -1, 0, 1, 2, 3, "0", None, 1.0):
        r[f"frame_from_int|{v!r}"] = obs(lambda: CDSFrame.from_int(v))
        r[f"phase_from_int|{v!r}"] = obs(lambda: CDSPhase.from_int(v))
    r["frame_members"] = obs(lambda: list(CDSFrame))
    r["phase_members"] = obs(lambda: list(CDSPhase))
    return r


def codon_section():
    r = {}
    alphabet = "ACGTUN"
    strs = ["".join(t) for t in itertools.product(alphabet, repeat=3)]
    strs += ["atg", "aTg", "ctn", "GTN", "NNN", "WSM", "KRY", "BDH", "VVV", "A-G", "AT", "ATGA", "", "XYZ", "A G", "ctN"]
    for s in strs:
        r[f"new|{s}"] = obs(lambda: Codon(s))
        try:
            c = Codon(s)
        except Exception:  # noqa
            # the singleton registry is observable: does the invalid string get registered?
            r[f"registered|{s}"] = obs(lambda: s.upper() in Codon._singletons_)
            continue
        r[f"id|{s}"] = obs(lambda: Codon(s) is Codon(s.upper()) and Codon(s) == c and not (c == s))
        r[f"str|{s}"] = obs(lambda: (str(c), c.value, c.name, hash(c) == hash(str(c))))
        r[f"tr|{s}"] = obs(lambda: (c.translate(), c.translate(True), c.translate(False), c.translate(strict=False)))
        r[f"syn|{s}"] = obs(lambda: c.synonymous_codons())
        r[f"synT|{s}"] = obs(lambda: c.synonymous_codons(True))
        r[f"synkw|{s}"] = obs(lambda: c.synonymous_codons(include_self=True))
        r[f"flags|{s}"] = obs(lambda: (c.is_stop_codon, c.is_strict_codon, c.is_canonical_start_codon))
        for t in TranslationTable:
            r[f"start|{s}|{t.name}"] = obs(lambda: c.is_start_codon_in_specific_translation_table(t))
        r[f"start|{s}|default"] = obs(lambda: c.is_start_codon_in_specific_translation_table())
        r[f"start|{s}|int11"] = obs(lambda: c.is_start_codon_in_specific_translation_table(11))
        r[f"start|{s}|bad"] = obs(lambda: c.is_start_codon_in_specific_translation_table(4))
    r["from_sequence"] = obs(lambda: Codon(Sequence("atg", Alphabet.NT_EXTENDED)))
    r["tables"] = obs(
        lambda: sorted((k.name, sorted(str(c) for c in v)) for k, v in START_CODONS_BY_TRANSLATION_TABLE.items())
    )
    r["table_types"] = obs(lambda: sorted(type(v).__name__ for v in START_CODONS_BY_TRANSLATION_TABLE.values()))
    r["table_members"] = obs(lambda: list(TranslationTable))
    r["singletons"] = obs(lambda: sorted(Codon._singletons_))
    r["slots"] = obs(lambda: Codon.__slots__)
    return r


def main():
    mode, path = sys.argv[1], sys.argv[2]
    print("library under test:", os.path.dirname(inscripta.biocantor.__file__))
    # codon section first: the singleton registry content depends on execution order otherwise
    data = {
        "codon": codon_section(),
        "frames": frames_section(),
        "ctor": ctor_section(),
        "cds": cds_section(),
    }
    blob = json.dumps(data, sort_keys=True, indent=0)
    if mode == "save":
        with open(path, "w") as fh:
            fh.write(blob)
        n_obs = sum(len(v) if isinstance(v, dict) else 1 for sec in data.values() for v in sec.values())
        print(f"saved {path}: {data['cds']['__count__']} CDS objects, {n_obs} observations")
    else:
        with open(path) as fh:
            ref = json.load(fh)
        new = json.loads(blob)
        bad = 0
        for sec in ref:
            for key in sorted(set(ref[sec]) | set(new[sec])):
                a, b = ref[sec].get(key), new[sec].get(key)
                if a != b:
                    if isinstance(a, dict) and isinstance(b, dict):
                        for k2 in sorted(set(a) | set(b)):
                            if a.get(k2) != b.get(k2):
                                bad += 1
                                if bad < 25:
                                    print(f"DIFF {sec} {key} :: {k2}\n   ref={a.get(k2)}\n   new={b.get(k2)}")
                    else:
                        bad += 1
                        if bad < 25:
                            print(f"DIFF {sec} {key}\n   ref={a}\n   new={b}")
        n_obs = sum(len(v) if isinstance(v, dict) else 1 for sec in new.values() for v in sec.values())
        print(f"{FOCUS}\ncompared {new['cds']['__count__']} CDS objects, {n_obs} observations: {bad} differences")
        sys.exit(1 if bad else 0)


if __name__ == "__main__":
    main()
