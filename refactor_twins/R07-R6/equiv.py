"""
Equivalence harness for refactorings of the chunk-relative machinery (property C07).

Usage (from the worktree root):
    /venv/bin/python _refactor/R2/equiv.py dump /tmp/pristine.json      # on the pristine checkout
    git apply _refactor/R2/patch.diff
    /venv/bin/python _refactor/R2/equiv.py dump /tmp/patched.json
    /venv/bin/python _refactor/R2/equiv.py compare /tmp/pristine.json /tmp/patched.json

Every observation is reduced to a string (repr / str / to_dict / exception type + message), keyed by a
deterministic label, so that the two dumps can be compared key by key.
"""
import json
import os
import random
import sys
import warnings

if os.environ.get("PYTHONHASHSEED") != "0":
    # str(GeneInterval) prints a set of strings: pin the hash seed so that two runs are comparable
    os.environ["PYTHONHASHSEED"] = "0"
    os.execv(sys.executable, [sys.executable] + sys.argv)

sys.path.insert(0, os.getcwd())  # run from the worktree root

import inscripta.biocantor.location  # noqa: F401  (must come first: circular import otherwise)
from inscripta.biocantor.gene.cds import CDSInterval
from inscripta.biocantor.gene.cds_frame import CDSFrame, CDSPhase
from inscripta.biocantor.gene.feature import FeatureInterval, FeatureIntervalCollection
from inscripta.biocantor.gene.gene import GeneInterval
from inscripta.biocantor.gene.interval import AbstractInterval
from inscripta.biocantor.gene.transcript import TranscriptInterval
from inscripta.biocantor.location.location_impl import SingleInterval, CompoundInterval, EmptyLocation
from inscripta.biocantor.location.strand import Strand
from inscripta.biocantor.parent import Parent, SequenceType
from inscripta.biocantor.sequence.alphabet import Alphabet
from inscripta.biocantor.sequence.sequence import Sequence

warnings.simplefilter("ignore")

random.seed(1234)
GENOME = "".join(random.choice("ACGT") for _ in range(150))
CHROM = "chr_test"


# --- inscripta.biocantor.io.parser cannot be imported here (io/models.py is broken in this environment), so the
# --- two parent-building helpers are taken from its *source file* and executed in this namespace: this way the
# --- code under test is the code in the checkout, pristine or patched.
def _load_parser_helpers():
    import ast
    from typing import Optional, Union  # noqa: F401
    from uuid import UUID  # noqa: F401

    path = os.path.join(os.getcwd(), "inscripta", "biocantor", "io", "parser.py")
    with open(path) as fh:
        tree = ast.parse(fh.read())
    wanted = [n for n in tree.body if isinstance(n, ast.FunctionDef) and n.name in ("seq_to_parent", "seq_chunk_to_parent")]
    assert len(wanted) == 2
    namespace = dict(globals())
    namespace.update(Optional=Optional, Union=Union, UUID=UUID)
    exec(compile(ast.Module(body=wanted, type_ignores=[]), path, "exec"), namespace)
    return namespace["seq_to_parent"], namespace["seq_chunk_to_parent"]


seq_to_parent, seq_chunk_to_parent = _load_parser_helpers()


# --- parents ------------------------------------------------------------------------------------------------------
WINDOWS = [
    (0, 150),
    (0, 40),
    (10, 60),
    (11, 61),
    (12, 62),
    (13, 80),
    (25, 55),
    (26, 56),
    (27, 57),
    (33, 100),
    (34, 101),
    (35, 102),
    (50, 120),
    (70, 150),
    (71, 149),
    (90, 150),
    (120, 150),
    (140, 150),
    (20, 23),
    (44, 46),
]


def make_parents():
    parents = {
        "none": None,
        "chrom_seq": seq_to_parent(GENOME, seq_id=CHROM),
        "chrom_noseq": Parent(id=CHROM, sequence_type=SequenceType.CHROMOSOME),
        "untyped": Parent(id="mystery"),
        "untyped_seq": Parent(id="mystery", sequence=Sequence(GENOME, Alphabet.NT_EXTENDED_GAPPED)),
        "untyped_loc": Parent(id="located", location=SingleInterval(0, 150, Strand.PLUS)),
        "untyped_loc_seq": Parent(
            id="located", location=SingleInterval(0, 150, Strand.PLUS), sequence=Sequence(GENOME, Alphabet.NT_STRICT)
        ),
    }
    for s, e in WINDOWS:
        parents[f"chunk_{s}_{e}"] = seq_chunk_to_parent(GENOME[s:e], CHROM, s, e)
    # a chunk without a chromosome ancestor and a chunk without sequence, for the error branches
    parents["chunk_nochrom"] = Parent(
        sequence=Sequence(
            GENOME[10:60],
            Alphabet.NT_EXTENDED_GAPPED,
            type=SequenceType.SEQUENCE_CHUNK,
            parent=Parent(location=SingleInterval(10, 60, Strand.PLUS)),
        )
    )
    parents["chunk_noseq"] = Parent(
        sequence_type=SequenceType.SEQUENCE_CHUNK,
        parent=Parent(
            location=SingleInterval(10, 60, Strand.PLUS, parent=Parent(id=CHROM, sequence_type=SequenceType.CHROMOSOME))
        ),
    )
    return parents


# --- interval structures ------------------------------------------------------------------------------------------
# (exon starts, exon ends, cds starts, cds ends)
STRUCTURES = {
    "single": ([15], [75], [18], [70]),
    "single_full": ([30], [63], [30], [63]),
    "three_exon": ([12, 40, 80], [30, 66, 110], [20, 40, 80], [30, 66, 95]),
    "three_exon_b": ([5, 35, 90], [28, 72, 130], [8, 35, 90], [28, 72, 127]),
    # exons [10-25],[30-60]; CDS blocks [10-25],[30-45],[45-60] (adjacent CDS blocks, 0bp gap)
    "adjacent": ([10, 30], [25, 60], [10, 30, 45], [25, 45, 60]),
    "four_exon": ([2, 30, 58, 100], [20, 47, 90, 145], [10, 30, 58, 100], [20, 47, 90, 120]),
    "short_exons": ([10, 20, 30, 50], [12, 21, 44, 90], [10, 20, 30, 50], [12, 21, 44, 88]),
    # overlapping CDS blocks (a programmed -2 frameshift modelled by an overlap) inside one exon
    "overlap": ([10], [70], [10, 28], [30, 70]),
}

FRAMESHIFT_FRAMES = {
    # explicit frame vectors that do not follow from the block sizes (programmed frameshift modelling)
    "three_exon": [CDSFrame.ZERO, CDSFrame.ZERO, CDSFrame.ONE],
    "adjacent": [CDSFrame.ZERO, CDSFrame.ZERO, CDSFrame.TWO],
    "four_exon": [CDSFrame.ONE, CDSFrame.ZERO, CDSFrame.TWO, CDSFrame.ONE],
    "overlap": [CDSFrame.ZERO, CDSFrame.ZERO],
}


def frames_for(cds_starts, cds_ends, strand, start_frame):
    if len(cds_starts) == 1:
        loc = SingleInterval(cds_starts[0], cds_ends[0], strand)
    else:
        loc = CompoundInterval(cds_starts, cds_ends, strand)
    return CDSInterval.construct_frames_from_location(loc, start_frame)


# --- observation helpers ------------------------------------------------------------------------------------------
def obs(fn):
    try:
        val = fn()
        if hasattr(val, "__next__"):
            val = list(val)
        return _fmt(val)
    except Exception as e:  # noqa
        return f"EXC {type(e).__name__}: {e}"


def _fmt(val):
    if isinstance(val, dict):
        return "{" + ", ".join(f"{_fmt(k)}: {_fmt(v)}" for k, v in val.items()) + "}"
    if isinstance(val, (set, frozenset)):
        return "{" + ", ".join(sorted(_fmt(v) for v in val)) + "}"
    if isinstance(val, (list, tuple)):
        o, c = ("[", "]") if isinstance(val, list) else ("(", ")")
        return o + ", ".join(_fmt(v) for v in val) + c
    if isinstance(val, getattr(Parent, "__wrapped__", Parent)):  # Parent is an lru_cache-wrapped class
        return _fmt_parent(val)
    if isinstance(val, Sequence):
        return f"Seq({str(val)!r}, {val.alphabet.name}, id={val.id}, type={val.sequence_type})"
    if hasattr(val, "parent") and hasattr(val, "blocks"):
        return f"{val!r} @ {_fmt_parent(val.parent)}"
    return repr(val)


def _fmt_parent(p, depth=0):
    if p is None:
        return "None"
    if depth > 6:
        return "..."
    seq = p.sequence
    seq_s = None
    if seq is not None:
        seq_s = f"Seq({str(seq)[:12]!r}..len{len(seq)},id={seq.id},type={seq.sequence_type})"
        inner = seq.parent
    else:
        inner = None
    loc = p.location
    loc_s = None if loc is None else f"{loc!r}@{_fmt_parent(loc.parent, depth + 1)}"
    return (
        f"P(id={p.id},type={p.sequence_type},loc={loc_s},seq={seq_s},seqpar={_fmt_parent(inner, depth + 1)},"
        f"par={_fmt_parent(p.parent, depth + 1)})"
    )


def observe_abstract(prefix, iv, out):
    out[f"{prefix}.chromosome_location"] = obs(lambda: iv.chromosome_location)
    out[f"{prefix}.chunk_relative_location"] = obs(lambda: iv.chunk_relative_location)
    out[f"{prefix}.bounded"] = obs(lambda: iv._chunk_relative_bounded_chromosome_location)
    out[f"{prefix}.is_chunk_relative"] = obs(lambda: iv.is_chunk_relative)
    out[f"{prefix}.has_sequence"] = obs(lambda: iv.has_sequence)
    out[f"{prefix}.to_dict"] = obs(lambda: iv.to_dict())
    out[f"{prefix}.to_dict_chunk"] = obs(lambda: iv.to_dict(chromosome_relative_coordinates=False))
    out[f"{prefix}.guid"] = obs(lambda: iv.guid)
    out[f"{prefix}.hash_eq"] = obs(lambda: (hash(iv) == hash(iv), iv == iv))
    out[f"{prefix}.len"] = obs(lambda: len(iv))
    out[f"{prefix}.sizes"] = obs(lambda: (iv.chunk_relative_size, iv.chunk_relative_start, iv.chunk_relative_end))
    out[f"{prefix}.blocks"] = obs(lambda: list(iv.blocks))
    out[f"{prefix}.crblocks"] = obs(lambda: list(iv.chunk_relative_blocks))
    out[f"{prefix}.nblocks"] = obs(lambda: (iv.num_blocks, iv.num_chunk_relative_blocks))
    out[f"{prefix}.strands"] = obs(lambda: (iv.strand, iv.chunk_relative_strand))
    out[f"{prefix}.parent_to_dict"] = obs(lambda: iv._parent_to_dict())
    out[f"{prefix}.parent_to_dict_chunk"] = obs(lambda: iv._parent_to_dict(False))
    out[f"{prefix}.lift_chrom"] = obs(lambda: iv.lift_over_to_first_ancestor_of_type(SequenceType.CHROMOSOME))
    out[f"{prefix}.lift_default"] = obs(lambda: iv.lift_over_to_first_ancestor_of_type())
    out[f"{prefix}.str"] = obs(lambda: str(iv))
    out[f"{prefix}.identifiers"] = obs(lambda: (iv.identifiers, iv.identifiers_dict))
    out[f"{prefix}.eq_other_type"] = obs(lambda: (iv == "x", iv != "x", iv == None))  # noqa: E711
    twin = None
    try:
        twin = iv.from_dict(iv.to_dict(), None)
    except Exception:  # noqa
        pass
    out[f"{prefix}.eq_parentless_twin"] = obs(lambda: (iv == twin, twin == iv, hash(iv) == hash(twin)))


def observe_feature_like(prefix, iv, out):
    observe_abstract(prefix, iv, out)
    out[f"{prefix}.spans"] = obs(lambda: (iv.chromosome_span, iv.chunk_relative_span))
    out[f"{prefix}.gaps"] = obs(lambda: (iv.chromosome_gaps_location, iv.chunk_relative_gaps_location))
    out[f"{prefix}.spliced"] = obs(lambda: iv.get_spliced_sequence())
    out[f"{prefix}.reference"] = obs(lambda: iv.get_reference_sequence())
    out[f"{prefix}.genomic"] = obs(lambda: iv.get_genomic_sequence())
    out[f"{prefix}.relblocks"] = obs(lambda: list(iv.relative_blocks))
    out[f"{prefix}.merge_qualifiers"] = obs(
        lambda: (iv._merge_qualifiers(None), iv._merge_qualifiers({}), iv._merge_qualifiers({"q": {"zz"}, "new": {"n"}}))
    )
    out[f"{prefix}.merge_qualifiers_no_alias"] = obs(
        lambda: (iv._merge_qualifiers({"q": {"zz"}})["q"].add("mutated"), iv.qualifiers)
    )
    for pos in (iv.start, iv.start + 7, iv.end - 1):
        out[f"{prefix}.seqpos2feat.{pos}"] = obs(lambda: iv.sequence_pos_to_feature(pos))
        out[f"{prefix}.crpos2feat.{pos % 30}"] = obs(lambda: iv.chunk_relative_pos_to_feature(pos % 30))
    out[f"{prefix}.featpos"] = obs(lambda: (iv.feature_pos_to_sequence(3), iv.feature_pos_to_chunk_relative(3)))
    out[f"{prefix}.feativ2seq"] = obs(lambda: iv.feature_interval_to_sequence(2, 9, Strand.PLUS))
    out[f"{prefix}.feativ2cr"] = obs(lambda: iv.feature_interval_to_chunk_relative(2, 9, Strand.PLUS))
    out[f"{prefix}.seqiv2feat"] = obs(lambda: iv.sequence_interval_to_feature(iv.start + 1, iv.start + 9, Strand.PLUS))
    out[f"{prefix}.criv2feat"] = obs(lambda: iv.chunk_relative_interval_to_feature(2, 12, Strand.PLUS))


def observe_gff_bed(prefix, iv, out):
    out[f"{prefix}.gff"] = obs(lambda: [str(r) for r in iv.to_gff()])
    out[f"{prefix}.gff_chunk"] = obs(lambda: [str(r) for r in iv.to_gff(chromosome_relative_coordinates=False)])
    if hasattr(iv, "to_bed12"):
        out[f"{prefix}.bed"] = obs(lambda: str(iv.to_bed12()))
        out[f"{prefix}.bed_chunk"] = obs(lambda: str(iv.to_bed12(chromosome_relative_coordinates=False)))


def observe_cds(prefix, cds, out):
    observe_feature_like(prefix, cds, out)
    out[f"{prefix}.frames"] = obs(lambda: cds.frames)
    out[f"{prefix}.chunk_relative_frames"] = obs(lambda: cds.chunk_relative_frames)
    out[f"{prefix}.frame_iter"] = obs(lambda: (list(cds._frame_iter(True)), list(cds._frame_iter(False))))
    out[f"{prefix}.exon_iter"] = obs(lambda: (list(cds._exon_iter(True)), list(cds._exon_iter(False))))
    # extract_sequence before and after the codon cache is populated
    out[f"{prefix}.extract_sequence"] = obs(lambda: cds.extract_sequence())
    out[f"{prefix}.chrom_codons"] = obs(lambda: cds.chromosome_codon_locations)
    out[f"{prefix}.chunk_codons"] = obs(lambda: cds.chunk_relative_codon_locations)
    out[f"{prefix}.chunk_codons_lifted"] = obs(
        lambda: [c.lift_over_to_first_ancestor_of_type(SequenceType.CHROMOSOME) for c in cds.chunk_relative_codon_locations]
    )
    out[f"{prefix}.num_codons"] = obs(lambda: (cds.num_codons, cds.num_chunk_relative_codons))
    out[f"{prefix}.scan_codons"] = obs(lambda: [str(c) for c in cds.scan_codons()])
    out[f"{prefix}.scan_codons_trunc"] = obs(lambda: [str(c) for c in cds.scan_codons(True)])
    out[f"{prefix}.scan_codon_locations"] = obs(lambda: list(cds.scan_codon_locations()))
    out[f"{prefix}.first_codon_on_chunk"] = obs(lambda: cds._first_codon_is_on_chunk())
    out[f"{prefix}.frame_offset_direct"] = obs(
        lambda: [
            cds._calculate_frame_offset(cds.chromosome_location, SingleInterval(s, e, cds.strand))
            for s, e in ((cds.start, cds.end), (cds.start + 1, cds.end - 1), (cds.start + 2, cds.end - 2), (cds.end - 4, cds.end))
        ]
    )
    out[f"{prefix}.prepare_single"] = obs(lambda: cds._prepare_single_exon_window_for_scan_codon_locations())
    out[f"{prefix}.prepare_single_chrom"] = obs(
        lambda: cds._prepare_single_exon_window_for_scan_codon_locations(None, False)
    )
    out[f"{prefix}.prepare_multi"] = obs(lambda: cds._prepare_multi_exon_window_for_scan_codon_locations())
    out[f"{prefix}.prepare_multi_chrom"] = obs(
        lambda: cds._prepare_multi_exon_window_for_scan_codon_locations(None, False)
    )
    out[f"{prefix}.repr_len"] = obs(lambda: (repr(cds), len(cds)))
    out[f"{prefix}.translate"] = obs(lambda: cds.translate())
    out[f"{prefix}.translate_trunc"] = obs(lambda: cds.translate(truncate_at_in_frame_stop=True))
    out[f"{prefix}.translate_nonstrict"] = obs(lambda: cds.translate(strict=False))
    out[f"{prefix}.flags"] = obs(lambda: (cds.has_canonical_start_codon, cds.has_valid_stop, cds.has_in_frame_stop))
    out[f"{prefix}.start_tt"] = obs(lambda: cds.has_start_codon_in_specific_translation_table())
    for ws, we in ((None, cds.start + 20), (cds.start + 4, None), (cds.start + 5, cds.end - 7), (cds.start, cds.start)):
        for expand in (False, True):
            k = f"{ws}_{we}_{int(expand)}"
            out[f"{prefix}.win.{k}"] = obs(lambda: cds._convert_chromosome_start_end_to_relative_window(ws, we, expand))
            out[f"{prefix}.scan_cr.{k}"] = obs(lambda: list(cds.scan_chunk_relative_codon_locations(ws, we, expand)))
            out[f"{prefix}.scan_chrom.{k}"] = obs(lambda: list(cds.scan_chromosome_codon_locations(ws, we, expand)))
    out[f"{prefix}.cdspos"] = obs(lambda: (cds.cds_pos_to_sequence(4), cds.cds_pos_to_chunk_relative(4)))
    out[f"{prefix}.cdsiv"] = obs(
        lambda: (
            cds.cds_interval_to_sequence(1, 8, Strand.PLUS),
            cds.cds_interval_to_chunk_relative(1, 8, Strand.PLUS),
        )
    )
    out[f"{prefix}.seqpos2cds"] = obs(lambda: (cds.sequence_pos_to_cds(cds.start + 3), cds.sequence_pos_to_amino_acid(cds.start + 3)))
    out[f"{prefix}.crpos2cds"] = obs(lambda: cds.chunk_relative_pos_to_cds(5))
    out[f"{prefix}.seqiv2cds"] = obs(lambda: cds.sequence_interval_to_cds(cds.start + 1, cds.start + 8, Strand.PLUS))
    out[f"{prefix}.criv2cds"] = obs(lambda: cds.chunk_relative_interval_to_cds(2, 9, Strand.PLUS))
    out[f"{prefix}.optimize_blocks"] = obs(lambda: str(cds.optimize_blocks()))
    out[f"{prefix}.optimize_and_combine"] = obs(lambda: str(cds.optimize_and_combine_blocks()))
    out[f"{prefix}.export_qualifiers"] = obs(lambda: cds.export_qualifiers({"x": {"y"}}))
    observe_gff_bed(prefix, cds, out)
    out[f"{prefix}.roundtrip"] = obs(
        lambda: str(CDSInterval.from_dict(cds.to_dict(), cds._parent_or_seq_chunk_parent).chunk_relative_location)
    )


def observe_transcript(prefix, tx, out):
    observe_feature_like(prefix, tx, out)
    out[f"{prefix}.is_coding"] = obs(lambda: tx.is_coding)
    out[f"{prefix}.cds_locs"] = obs(lambda: (tx.cds_location, tx.cds_chunk_relative_location))
    out[f"{prefix}.cds_coords"] = obs(
        lambda: (tx.cds_start, tx.cds_end, tx.chunk_relative_cds_start, tx.chunk_relative_cds_end, tx.cds_size)
    )
    out[f"{prefix}.cds_blocks"] = obs(lambda: (list(tx.cds_blocks), tx.chunk_relative_cds_blocks))
    out[f"{prefix}.introns"] = obs(lambda: (tx.chromosome_intron_location, tx.chunk_relative_intron_location))
    out[f"{prefix}.protein"] = obs(lambda: tx.get_protein_sequence())
    out[f"{prefix}.has_in_frame_stop"] = obs(lambda: tx.has_in_frame_stop)
    for attr in ("get_5p_interval", "get_3p_interval", "get_transcript_sequence", "get_cds_sequence"):
        if hasattr(tx, attr):
            out[f"{prefix}.{attr}"] = obs(lambda: getattr(tx, attr)())
    observe_gff_bed(prefix, tx, out)
    out[f"{prefix}.roundtrip"] = obs(
        lambda: str(TranscriptInterval.from_dict(tx.to_dict(), tx._parent_or_seq_chunk_parent).chunk_relative_location)
    )


def observe_liftovers(prefix, iv, parents, out):
    for pname in ("chrom_seq", "chrom_noseq", "chunk_10_60", "chunk_33_100", "chunk_120_150", "chunk_nochrom", "untyped"):
        def go():
            new = iv.liftover_to_parent_or_seq_chunk_parent(parents[pname])
            return (new.chunk_relative_location, new.chromosome_location, new.to_dict(), new.guid)

        out[f"{prefix}.liftover.{pname}"] = obs(go)


def main_dump(path):
    out = {}
    parents = make_parents()

    # ---- raw static helpers ---------------------------------------------------------------------------------------
    for pname, parent in parents.items():
        for sname, (es, ee, _, _) in STRUCTURES.items():
            for strand in (Strand.PLUS, Strand.MINUS, Strand.UNSTRANDED):
                key = f"init_loc.{pname}.{sname}.{strand.name}"
                out[key] = obs(lambda: AbstractInterval.initialize_location(es, ee, strand, parent))
    out["init_loc.mismatch"] = obs(lambda: AbstractInterval.initialize_location([1, 2], [3], Strand.PLUS))
    # re-lifting an already chunk relative location onto other parents
    for src in ("chunk_10_60", "chunk_33_100", "chunk_nochrom"):
        for sname, (es, ee, _, _) in STRUCTURES.items():
            base = obs(lambda: AbstractInterval.initialize_location(es, ee, Strand.MINUS, parents[src]))
            out[f"relift_base.{src}.{sname}"] = base
            try:
                loc = AbstractInterval.initialize_location(es, ee, Strand.MINUS, parents[src])
            except Exception:  # noqa
                continue
            for dst, parent in parents.items():
                out[f"relift.{src}.{sname}.{dst}"] = obs(
                    lambda: AbstractInterval.liftover_location_to_seq_chunk_parent(loc, parent)
                )
    other_chrom_chunk = seq_chunk_to_parent(GENOME[10:60], "other_chrom", 10, 60)
    loc = AbstractInterval.initialize_location([12], [40], Strand.PLUS, parents["chunk_10_60"])
    out["relift.other_chrom"] = obs(lambda: AbstractInterval.liftover_location_to_seq_chunk_parent(loc, other_chrom_chunk))
    out["lift.empty"] = obs(lambda: AbstractInterval.liftover_location_to_seq_chunk_parent(EmptyLocation(), None))

    # ---- construct_frames_from_location ---------------------------------------------------------------------------
    for sname, (_, _, cs, ce) in STRUCTURES.items():
        for strand in (Strand.PLUS, Strand.MINUS):
            for f in CDSFrame:
                out[f"construct_frames.{sname}.{strand.name}.{f.name}"] = obs(lambda: frames_for(cs, ce, strand, f))

    # ---- interval objects -----------------------------------------------------------------------------------------
    for pname, parent in parents.items():
        for sname, (es, ee, cs, ce) in STRUCTURES.items():
            for strand in (Strand.PLUS, Strand.MINUS):
                frame_sets = {f"sf{f.value}": frames_for(cs, ce, strand, f) for f in (CDSFrame.ZERO, CDSFrame.ONE, CDSFrame.TWO)}
                if sname in FRAMESHIFT_FRAMES:
                    frame_sets["shift"] = FRAMESHIFT_FRAMES[sname]
                    frame_sets["phase"] = [f.to_phase() for f in FRAMESHIFT_FRAMES[sname]]

                base = f"{pname}.{sname}.{strand.name}"

                # feature
                try:
                    feat = FeatureInterval(
                        es, ee, strand, qualifiers={"q": ["b", "a"]}, sequence_name=CHROM, feature_types=["t1"],
                        feature_name="fname", feature_id="fid", parent_or_seq_chunk_parent=parent,
                    )
                except Exception as e:  # noqa
                    out[f"feat.{base}.ctor"] = f"EXC {type(e).__name__}: {e}"
                    feat = None
                if feat is not None:
                    observe_feature_like(f"feat.{base}", feat, out)
                    observe_gff_bed(f"feat.{base}", feat, out)
                    if sname in ("three_exon", "single"):
                        observe_liftovers(f"feat.{base}", feat, parents, out)

                for fname, frames in frame_sets.items():
                    k = f"{base}.{fname}"
                    # cds
                    try:
                        cds = CDSInterval(
                            cs, ce, strand, frames, sequence_name=CHROM, protein_id="prot", product="prod",
                            qualifiers={"k": ["v"]}, parent_or_seq_chunk_parent=parent,
                        )
                    except Exception as e:  # noqa
                        out[f"cds.{k}.ctor"] = f"EXC {type(e).__name__}: {e}"
                        cds = None
                    if cds is not None:
                        observe_cds(f"cds.{k}", cds, out)
                        if sname in ("three_exon", "single") and fname in ("sf1", "shift"):
                            observe_liftovers(f"cds.{k}", cds, parents, out)
                    # transcript
                    try:
                        tx = TranscriptInterval(
                            es, ee, strand, cs, ce, frames if isinstance(frames[0], CDSFrame) else [x.to_frame() for x in frames],
                            qualifiers={"q": ["1"]}, transcript_id="tid", transcript_symbol="tsym",
                            sequence_name=CHROM, protein_id="prot", product="prod", parent_or_seq_chunk_parent=parent,
                        )
                    except Exception as e:  # noqa
                        out[f"tx.{k}.ctor"] = f"EXC {type(e).__name__}: {e}"
                        tx = None
                    if tx is not None and fname != "phase":
                        observe_transcript(f"tx.{k}", tx, out)
                        if sname in ("three_exon", "single") and fname == "sf2":
                            observe_liftovers(f"tx.{k}", tx, parents, out)

                # collections (one frame set is enough)
                def build_gene():
                    tx1 = TranscriptInterval(
                        es, ee, strand, cs, ce, frame_sets["sf1"], transcript_id="t1", sequence_name=CHROM,
                        parent_or_seq_chunk_parent=parent,
                    )
                    tx2 = TranscriptInterval(
                        [es[0]], [ee[0]], strand, transcript_id="t2", sequence_name=CHROM,
                        parent_or_seq_chunk_parent=parent,
                    )
                    return GeneInterval(
                        [tx1, tx2], gene_id="gid", gene_symbol="gsym", sequence_name=CHROM,
                        qualifiers={"gq": ["z"]}, parent_or_seq_chunk_parent=parent,
                    )

                def build_fcoll():
                    f1 = FeatureInterval(es, ee, strand, feature_name="f1", sequence_name=CHROM, parent_or_seq_chunk_parent=parent)
                    f2 = FeatureInterval(
                        [es[-1]], [ee[-1]], Strand.PLUS, feature_name="f2", sequence_name=CHROM,
                        parent_or_seq_chunk_parent=parent,
                    )
                    return FeatureIntervalCollection(
                        [f1, f2], feature_collection_name="fc", sequence_name=CHROM, parent_or_seq_chunk_parent=parent
                    )

                for cname, builder in (("gene", build_gene), ("fcoll", build_fcoll)):
                    try:
                        coll = builder()
                    except Exception as e:  # noqa
                        out[f"{cname}.{base}.ctor"] = f"EXC {type(e).__name__}: {e}"
                        continue
                    p = f"{cname}.{base}"
                    observe_abstract(p, coll, out)
                    out[f"{p}.refseq"] = obs(lambda: coll.get_reference_sequence())
                    out[f"{p}.children"] = obs(lambda: [(c.chunk_relative_location, c.chromosome_location) for c in coll])
                    out[f"{p}.gff"] = obs(lambda: [str(r) for r in coll.to_gff()])
                    out[f"{p}.gff_chunk"] = obs(lambda: [str(r) for r in coll.to_gff(chromosome_relative_coordinates=False)])
                    if cname == "gene":
                        out[f"{p}.primary"] = obs(lambda: str(coll.get_primary_transcript()))
                        out[f"{p}.primary_cds"] = obs(lambda: coll.get_primary_cds_sequence())
                        out[f"{p}.primary_protein"] = obs(lambda: coll.get_primary_protein())
                        out[f"{p}.merged_tx"] = obs(lambda: str(coll.get_merged_transcript()))
                        out[f"{p}.merged_cds"] = obs(lambda: str(coll.get_merged_cds()))
                    else:
                        out[f"{p}.primary"] = obs(lambda: str(coll.get_primary_feature()))
                        out[f"{p}.merged"] = obs(lambda: str(coll.get_merged_feature()))
                    if sname == "three_exon":
                        observe_liftovers(p, coll, parents, out)

    # ---- from_location / from_chunk_relative_location -------------------------------------------------------------
    for pname in ("chunk_10_60", "chunk_33_100", "chrom_seq"):
        parent = parents[pname]
        for strand in (Strand.PLUS, Strand.MINUS):
            loc = CompoundInterval([3, 20], [15, 40], strand, parent=parent)
            frames = CDSInterval.construct_frames_from_location(loc, CDSFrame.ONE)
            k = f"{pname}.{strand.name}"
            out[f"cds_from_loc.{k}"] = obs(lambda: str(CDSInterval.from_location(loc, frames)))
            out[f"cds_from_crloc.{k}"] = obs(lambda: str(CDSInterval.from_chunk_relative_location(loc, frames)))
            out[f"cds_from_crloc_codons.{k}"] = obs(
                lambda: CDSInterval.from_chunk_relative_location(loc, frames).chunk_relative_codon_locations
            )
            out[f"tx_from_loc.{k}"] = obs(lambda: str(TranscriptInterval.from_location(loc)))
            out[f"tx_from_crloc.{k}"] = obs(lambda: str(TranscriptInterval.from_chunk_relative_location(loc)))
            out[f"feat_from_loc.{k}"] = obs(lambda: str(FeatureInterval.from_location(loc)))
            out[f"feat_from_crloc.{k}"] = obs(lambda: str(FeatureInterval.from_chunk_relative_location(loc)))

    # ---- _find_primary_feature ------------------------------------------------------------------------------------
    from inscripta.biocantor.gene.interval import AbstractFeatureIntervalCollection

    txs = [
        TranscriptInterval([0], [30], Strand.PLUS, transcript_id="a"),
        TranscriptInterval([0], [40], Strand.PLUS, [3], [30], [CDSFrame.ZERO], transcript_id="b"),
        TranscriptInterval([0, 50], [45, 60], Strand.PLUS, [3], [30], [CDSFrame.ZERO], transcript_id="c"),
        TranscriptInterval([0], [99], Strand.PLUS, transcript_id="d"),
    ]
    for perm in ([0, 1, 2, 3], [3, 2, 1, 0], [0, 3], [2, 1], [0]):
        out[f"primary.{perm}"] = obs(
            lambda: AbstractFeatureIntervalCollection._find_primary_feature([txs[i] for i in perm]).transcript_id
        )
    prim = [
        TranscriptInterval([0], [30], Strand.PLUS, transcript_id="p1", is_primary_tx=True),
        TranscriptInterval([0], [90], Strand.PLUS, transcript_id="p2"),
        TranscriptInterval([0], [60], Strand.PLUS, transcript_id="p3", is_primary_tx=True),
    ]
    out["primary.given"] = obs(lambda: AbstractFeatureIntervalCollection._find_primary_feature(prim[:2]).transcript_id)
    out["primary.multi"] = obs(lambda: AbstractFeatureIntervalCollection._find_primary_feature(prim).transcript_id)
    feats = [FeatureInterval([0], [10], Strand.PLUS, feature_name="x"), FeatureInterval([0], [20], Strand.PLUS, feature_name="y")]
    # zero-length intervals are falsy: the "multiple primary features" check uses the truth value of the first one found
    def zero_len_primaries():
        zs = [
            FeatureInterval([5], [5], Strand.PLUS, feature_name="z1", is_primary_feature=True),
            FeatureInterval([7], [9], Strand.PLUS, feature_name="z2", is_primary_feature=True),
            FeatureInterval([1], [9], Strand.PLUS, feature_name="z3"),
        ]
        return AbstractFeatureIntervalCollection._find_primary_feature(zs).feature_name

    out["primary.zero_len"] = obs(zero_len_primaries)
    out["primary.empty_list"] = obs(lambda: AbstractFeatureIntervalCollection._find_primary_feature([]))
    out["primary.feats"] = obs(lambda: AbstractFeatureIntervalCollection._find_primary_feature(feats).feature_name)

    # ---- transcript constructor validation ------------------------------------------------------------------------
    bad = {
        "start_only": dict(cds_starts=[5]),
        "end_only": dict(cds_ends=[9]),
        "len_mismatch": dict(cds_starts=[5, 6], cds_ends=[9], cds_frames=[CDSFrame.ZERO]),
        "start_lt": dict(cds_starts=[1], cds_ends=[9], cds_frames=[CDSFrame.ZERO]),
        "end_gt": dict(cds_starts=[5], cds_ends=[99], cds_frames=[CDSFrame.ZERO]),
        "no_frames": dict(cds_starts=[5], cds_ends=[9]),
        "frames_len": dict(cds_starts=[5], cds_ends=[9], cds_frames=[CDSFrame.ZERO, CDSFrame.ONE]),
        "mixed": dict(cds_starts=[5, 12], cds_ends=[9, 20], cds_frames=[CDSFrame.ZERO, CDSPhase.ONE]),
        "empty_cds": dict(cds_starts=[5], cds_ends=[5], cds_frames=[CDSFrame.ZERO]),
    }
    for name, kw in bad.items():
        out[f"tx_bad.{name}"] = obs(lambda: str(TranscriptInterval([3], [30], Strand.PLUS, **kw)))
    out["cds_bad.mixed"] = obs(lambda: str(CDSInterval([5, 12], [9, 20], Strand.PLUS, [CDSPhase.ZERO, CDSFrame.ONE])))
    out["cds_bad.nframes"] = obs(lambda: str(CDSInterval([5, 12], [9, 20], Strand.PLUS, [CDSFrame.ONE])))
    out["cds_bad.empty"] = obs(lambda: str(CDSInterval([5], [5], Strand.PLUS, [CDSFrame.ONE])))

    with open(path, "w") as fh:
        json.dump(out, fh, indent=0, sort_keys=True)
    n_exc = sum(1 for v in out.values() if v.startswith("EXC"))
    print(f"wrote {len(out)} observations ({n_exc} are exceptions) to {path}")


def main_compare(a, b):
    da = json.load(open(a))
    db = json.load(open(b))
    bad = [k for k in sorted(set(da) | set(db)) if da.get(k) != db.get(k)]
    for k in bad[:40]:
        print("DIFF", k)
        print("   A:", str(da.get(k))[:600])
        print("   B:", str(db.get(k))[:600])
    print(f"{len(da)} vs {len(db)} observations, {len(bad)} differences")
    return 1 if bad else 0


if __name__ == "__main__":
    if sys.argv[1] == "dump":
        main_dump(sys.argv[2])
    else:
        sys.exit(main_compare(sys.argv[2], sys.argv[3]))
