"""Equivalence script for R3 (gene/cds.py and gene/transcript.py constructors).

Usage (from the worktree root):
    /venv/bin/python _refactor/R3/equiv.py save /tmp/r3_pristine.json     # on pristine code
    /venv/bin/python _refactor/R3/equiv.py check /tmp/r3_pristine.json    # with patch applied
"""
import itertools
import json
import os
import sys
from uuid import UUID

if os.environ.get("PYTHONHASHSEED") != "0":
    os.environ["PYTHONHASHSEED"] = "0"
    os.execv(sys.executable, [sys.executable] + sys.argv)
sys.path.insert(0, os.getcwd())  # run from the worktree root

import inscripta.biocantor.location  # noqa: F401,E402  (must come first; circular import otherwise)
from inscripta.biocantor.location import SingleInterval, Strand  # noqa: E402
from inscripta.biocantor.parent import Parent  # noqa: E402
from inscripta.biocantor.sequence import Sequence, Alphabet  # noqa: E402
from inscripta.biocantor.sequence.sequence import SequenceType  # noqa: E402
from inscripta.biocantor.gene import CDSInterval, TranscriptInterval, CDSFrame, CDSPhase, Biotype  # noqa: E402

GENOME = "AAGTATTCTTGGACCTAATTATGAAACTGCGCCTAGTAGGTACCCTGATAGAAGTCTTCAGTGGATTGAC"  # 70 nt


def seq_to_parent(seq: str, seq_id="chr1"):
    # copy of the few lines of inscripta.biocantor.io.parser.seq_to_parent
    return Parent(
        id=seq_id, sequence=Sequence(seq, Alphabet.NT_EXTENDED_GAPPED, id=seq_id, type=SequenceType.CHROMOSOME)
    )


def seq_chunk_to_parent(seq: str, name: str, start: int, end: int):
    # copy of the few lines of inscripta.biocantor.io.parser.seq_chunk_to_parent
    chunk_id = f"{name}:{start}-{end}"
    return Parent(
        id=chunk_id,
        sequence=Sequence(
            seq,
            Alphabet.NT_EXTENDED_GAPPED,
            id=chunk_id,
            type=SequenceType.SEQUENCE_CHUNK,
            parent=Parent(
                location=SingleInterval(
                    start, end, Strand.PLUS, parent=Parent(id=name, sequence_type=SequenceType.CHROMOSOME)
                )
            ),
        ),
    )


def safe(fn):
    try:
        return repr(fn())
    except BaseException as e:  # noqa
        return "EXC:" + type(e).__name__ + ":" + str(e)


def describe_cds(cds):
    if cds is None:
        return None
    return [
        str(cds),
        repr(cds),
        str(cds.guid),
        repr(cds.frames),
        cds.start,
        cds.end,
        len(cds),
        safe(lambda: cds.to_dict()),
        safe(lambda: cds.to_dict(chromosome_relative_coordinates=False)),
        safe(lambda: cds.chunk_relative_location),
        safe(lambda: cds.chromosome_location),
        safe(lambda: cds.chunk_relative_frames),
        safe(lambda: str(cds.translate())),
        safe(lambda: cds.num_codons),
        safe(lambda: cds.has_canonical_start_codon),
        sorted(k for k in vars(cds) if not k.startswith("__")),
    ]


def describe_tx(tx):
    return [
        str(tx),
        str(tx.guid),
        repr(tx.transcript_guid),
        tx.start,
        tx.end,
        len(tx),
        tx.bin,
        safe(lambda: tx.to_dict()),
        safe(lambda: tx.to_dict(chromosome_relative_coordinates=False)),
        safe(lambda: tx.chunk_relative_location),
        safe(lambda: tx.is_coding),
        safe(lambda: tx.cds_location),
        safe(lambda: tx.five_prime_utr),
        safe(lambda: tx.three_prime_utr),
        safe(lambda: str(tx.get_protein_sequence())),
        hasattr(tx, "_cds_start"),
        hasattr(tx, "_cds_end"),
        repr(tx._cds_frames),
        describe_cds(tx.cds),
        sorted(k for k in vars(tx) if not k.startswith("__")),
    ]


def outcome(fn, describe, *args, **kwargs):
    try:
        return ["OK"] + describe(fn(*args, **kwargs))
    except BaseException as e:  # noqa
        return ["EXC", type(e).__module__ + "." + type(e).__name__, str(e)]


def main():
    results = {}
    parents = {
        "none": None,
        "chrom": seq_to_parent(GENOME),
        "noseq": Parent(id="chr1", sequence_type=SequenceType.CHROMOSOME),
        "chunk_10_60": seq_chunk_to_parent(GENOME[10:60], "chr1", 10, 60),
        "chunk_0_25": seq_chunk_to_parent(GENOME[0:25], "chr1", 0, 25),
        "chunk_40_70": seq_chunk_to_parent(GENOME[40:70], "chr1", 40, 70),
        "chunk_62_70": seq_chunk_to_parent(GENOME[62:70], "chr1", 62, 70),
    }
    strands = [Strand.PLUS, Strand.MINUS, Strand.UNSTRANDED]
    F, P = CDSFrame, CDSPhase

    # ------------------------------------------------------------------ CDSInterval constructor
    cds_args = {
        "one_block": ([12], [33], [F.ZERO]),
        "one_block_phase": ([12], [33], [P.ZERO]),
        "one_block_frame_one": ([12], [34], [F.ONE]),
        "three_blocks": ([12, 28, 45], [20, 40, 58], [F.ZERO, F.TWO, F.TWO]),
        "three_blocks_phases": ([12, 28, 45], [20, 40, 58], [P.ZERO, P.ONE, P.ONE]),
        "three_blocks_phase_none": ([12, 28, 45], [20, 40, 58], [P.NONE, P.ONE, P.TWO]),
        "mixed_frame_first": ([12, 28, 45], [20, 40, 58], [F.ZERO, P.ONE, F.TWO]),
        "mixed_phase_first": ([12, 28, 45], [20, 40, 58], [P.ZERO, P.ONE, F.TWO]),
        "mixed_last": ([12, 28, 45], [20, 40, 58], [F.ZERO, F.ONE, P.TWO]),
        "too_few_frames": ([12, 28, 45], [20, 40, 58], [F.ZERO, F.ONE]),
        "too_many_frames": ([12, 28], [20, 40], [F.ZERO, F.ONE, F.TWO]),
        "no_frames": ([12, 28], [20, 40], []),
        "empty_interval": ([12], [12], [F.ZERO]),
        "empty_blocks": ([12, 20], [12, 20], [F.ZERO, F.ZERO]),
        "short_no_codon": ([12], [14], [F.ZERO]),
        "start_gt_end": ([30], [12], [F.ZERO]),
        "negative": ([-3], [12], [F.ZERO]),
        "unequal": ([12, 28], [20], [F.ZERO, F.ONE]),
        "nothing": ([], [], []),
        "beyond_sequence": ([60], [75], [F.ZERO]),
        "not_frames": ([12, 28], [20, 40], [0, 1]),
        "tuple_frames": ([12, 28], [20, 40], (F.ZERO, F.TWO)),
        "tuple_phases": ([12, 28], [20, 40], (P.ZERO, P.TWO)),
    }
    fixed_guid = UUID("11111111-2222-3333-4444-555555555555")
    for (ck, (ss, ee, ff)), strand, (pk, p) in itertools.product(cds_args.items(), strands, parents.items()):
        results[f"cds:{ck}:{strand}:{pk}"] = outcome(
            CDSInterval, describe_cds, ss, ee, strand, ff, parent_or_seq_chunk_parent=p
        )
    for ck in ("three_blocks", "three_blocks_phases", "mixed_last"):
        ss, ee, ff = cds_args[ck]
        results[f"cds_meta:{ck}"] = outcome(
            CDSInterval,
            describe_cds,
            ss,
            ee,
            Strand.MINUS,
            ff,
            sequence_guid=fixed_guid,
            sequence_name="chr1",
            protein_id="prot1",
            product="some product",
            qualifiers={"a": ["b", "c"], "x": [1]},
            guid=fixed_guid,
            parent_or_seq_chunk_parent=parents["chrom"],
        )
        results[f"cds_meta_noguid:{ck}"] = outcome(
            CDSInterval,
            describe_cds,
            ss,
            ee,
            Strand.PLUS,
            ff,
            protein_id="prot1",
            product="some product",
            qualifiers={"a": ["b", "c"]},
            parent_or_seq_chunk_parent=parents["chunk_10_60"],
        )

    # ------------------------------------------------------------------ TranscriptInterval constructor
    exons = {
        "one_exon": ([5], [65]),
        "three_exons": ([5, 25, 42], [22, 40, 65]),
        "exons_eq_cds": ([12, 28, 45], [20, 40, 58]),
        "bad_exons": ([25, 5], [22]),
        "exons_backward": ([30], [10]),
    }
    cds = {
        "noncoding": (None, None, None),
        "noncoding_frames_only": (None, None, [F.ZERO]),
        "starts_only": ([12], None, [F.ZERO]),
        "ends_only": (None, [33], [F.ZERO]),
        "starts_only_noframes": ([12], None, None),
        "one_block": ([12], [21], [F.ZERO]),
        "three_blocks": ([12, 28, 45], [20, 40, 58], [F.ZERO, F.TWO, F.TWO]),
        "three_blocks_phases": ([12, 28, 45], [20, 40, 58], [P.ZERO, P.ONE, P.ONE]),
        "mixed": ([12, 28, 45], [20, 40, 58], [F.ZERO, P.ONE, F.TWO]),
        "no_three_prime_utr": ([12, 28, 45], [20, 40, 65], [F.ZERO, F.TWO, F.TWO]),
        "no_five_prime_utr": ([5, 28, 45], [20, 40, 58], [F.ZERO, F.ZERO, F.ZERO]),
        "unequal": ([12, 28], [20], [F.ZERO, F.TWO]),
        "unequal_and_outside": ([2, 28], [20], [F.ZERO, F.TWO]),
        "before_exon": ([2], [33], [F.ZERO]),
        "after_exon": ([12], [68], [F.ZERO]),
        "before_and_after": ([2], [68], [F.ZERO]),
        "no_frames": ([12], [33], None),
        "after_exon_no_frames": ([12], [68], None),
        "wrong_number_frames": ([12, 28], [20, 40], [F.ZERO]),
        "empty_frames": ([12, 28], [20, 40], []),
        "empty_lists": ([], [], []),
        "cds_in_intron": ([23], [24], [F.ZERO]),
        "empty_cds": ([12], [12], [F.ZERO]),
        "cds_start_gt_end": ([33], [12], [F.ZERO]),
    }
    for (ek, (es, ee)), (ck, (cs, ce, cf)), strand, (pk, p) in itertools.product(
        exons.items(), cds.items(), strands, parents.items()
    ):
        if ek in ("bad_exons", "exons_backward") and pk not in ("none", "chrom"):
            continue
        results[f"tx:{ek}:{ck}:{strand}:{pk}"] = outcome(
            TranscriptInterval,
            describe_tx,
            es,
            ee,
            strand,
            cds_starts=cs,
            cds_ends=ce,
            cds_frames=cf,
            parent_or_seq_chunk_parent=p,
        )
    for ck, strand, pk in itertools.product(
        ("noncoding", "three_blocks", "three_blocks_phases", "no_three_prime_utr", "before_exon"),
        (Strand.PLUS, Strand.MINUS),
        ("none", "chrom", "chunk_10_60", "chunk_62_70"),
    ):
        cs, ce, cf = cds[ck]
        for guid, tguid in ((None, None), (fixed_guid, None), (None, fixed_guid), (fixed_guid, fixed_guid)):
            results[f"tx_meta:{ck}:{strand}:{pk}:{guid}:{tguid}"] = outcome(
                TranscriptInterval,
                describe_tx,
                [5, 25, 42],
                [22, 40, 65],
                strand,
                cs,
                ce,
                cf,
                {"q": ["1", "2"], "note": ["x"]},
                True,
                "tx1",
                "sym1",
                Biotype.protein_coding,
                fixed_guid,
                "chr1",
                "prot1",
                "prod",
                guid,
                tguid,
                parents[pk],
            )

    mode, path = sys.argv[1], sys.argv[2]
    if mode == "save":
        with open(path, "w") as fh:
            json.dump(results, fh, indent=1, sort_keys=True)
        print(f"saved {len(results)} results")
    else:
        with open(path) as fh:
            expected = json.load(fh)
        got = json.loads(json.dumps(results))
        bad = [k for k in sorted(set(expected) | set(got)) if expected.get(k) != got.get(k)]
        for k in bad[:20]:
            print("DIFF", k, "\n   expected:", expected.get(k), "\n   got:     ", got.get(k))
        n_exc = sum(1 for v in got.values() if v[0] == "EXC")
        print(f"compared {len(got)} results ({n_exc} raising): {len(bad)} differences")
        sys.exit(1 if bad else 0)


if __name__ == "__main__":
    main()
