"""
Equivalence harness for the C05 refactorings (CDS codons / frames / translation).

Usage (from the worktree root):

    /venv/bin/python _refactor/R1/equiv.py dump /tmp/pristine.json      # on the pristine checkout
    git apply _refactor/R1/patch.diff
    /venv/bin/python _refactor/R1/equiv.py dump /tmp/patched.json       # on the refactored checkout
    /venv/bin/python _refactor/R1/equiv.py compare /tmp/pristine.json /tmp/patched.json

Every observable is rendered to a string (repr / str / to_dict); exceptions are rendered as
``EXC <type>: <message>`` so that exception types and messages are compared as well.
"""
import json
import os
import random
import sys
import warnings

# run from the worktree root: make sure the checkout (not an installed copy) is imported
sys.path.insert(0, os.getcwd())

import inscripta.biocantor.location  # noqa: F401  (must come first: circular import otherwise)
from inscripta.biocantor.gene.cds import CDSInterval
from inscripta.biocantor.gene.cds_frame import CDSFrame, CDSPhase
from inscripta.biocantor.gene.variants import VariantInterval
from inscripta.biocantor.gene.codon import Codon, TranslationTable, START_CODONS_BY_TRANSLATION_TABLE
from inscripta.biocantor.location import CompoundInterval, EmptyLocation, SingleInterval, Strand
from inscripta.biocantor.parent import Parent, SequenceType
from inscripta.biocantor.sequence import Alphabet, Sequence

warnings.simplefilter("ignore")


# -- copies of inscripta.biocantor.io.parser helpers (the module cannot be imported here) -------------------------
def seq_to_parent(seq, alphabet=Alphabet.NT_EXTENDED_GAPPED, seq_id=None, seq_type=SequenceType.CHROMOSOME):
    return Parent(
        sequence=Sequence(seq, alphabet, type=seq_type, id=seq_id), location=SingleInterval(0, len(seq), Strand.PLUS)
    )


def seq_chunk_to_parent(seq, sequence_name, start, end, strand=Strand.PLUS, alphabet=Alphabet.NT_EXTENDED_GAPPED):
    chunk_id = f"{sequence_name}:{start}-{end}"
    return Parent(
        id=chunk_id,
        sequence=Sequence(
            seq,
            alphabet,
            id=chunk_id,
            type=SequenceType.SEQUENCE_CHUNK,
            parent=Parent(
                location=SingleInterval(
                    start, end, strand, parent=Parent(id=sequence_name, sequence_type=SequenceType.CHROMOSOME)
                )
            ),
        ),
    )


# -- rendering ----------------------------------------------------------------------------------------------------
def render(value):
    if isinstance(value, dict):
        return "{" + ", ".join(f"{render(k)}: {render(v)}" for k, v in value.items()) + "}"
    if isinstance(value, (set, frozenset)):
        return type(value).__name__ + "{" + ", ".join(sorted(render(v) for v in value)) + "}"
    if isinstance(value, (list, tuple)):
        return type(value).__name__ + "[" + ", ".join(render(v) for v in value) + "]"
    if isinstance(value, CDSInterval):
        return f"{value!r} | {render(value.to_dict())} | {value.chunk_relative_location!r}"
    return f"{type(value).__name__}:{value!r}/{value!s}"


def attempt(fn):
    try:
        result = fn()
        # exhaust iterators inside the try so that lazily raised exceptions are captured too
        if hasattr(result, "__next__"):
            result = list(result)
        return render(result)
    except Exception as e:  # noqa
        return f"EXC {type(e).__name__}: {e}"


# -- observations on a CDS ----------------------------------------------------------------------------------------
GENOME_LEN = 150
WINDOWS = [
    (None, None),
    (0, None),
    (None, 0),
    (None, GENOME_LEN + 50),
    (7, 7),
    (10, 40),
    (11, 41),
    (12, 42),
    (25, 26),
    (33, 90),
    (50, None),
    (None, 75),
    (64, 65),
    (90, 140),
    (100, 20),
]


def observe_cds(make):
    """``make`` builds a fresh CDSInterval; fresh objects are used where caches would change the code path."""
    out = {}
    cds = make()
    out["ctor"] = attempt(make)
    if isinstance(cds, str):
        return out
    out["str"] = attempt(lambda: str(cds))
    out["repr"] = attempt(lambda: repr(cds))
    out["len"] = attempt(lambda: len(cds))
    out["id_name"] = attempt(lambda: (cds.id, cds.name, cds.guid))
    out["frames"] = attempt(lambda: cds.frames)
    out["chunk_relative_frames"] = attempt(lambda: cds.chunk_relative_frames)
    out["frame_iter_T"] = attempt(lambda: cds._frame_iter(True))
    out["frame_iter_F"] = attempt(lambda: cds._frame_iter(False))
    out["exon_iter_T"] = attempt(lambda: cds._exon_iter(True))
    out["exon_iter_F"] = attempt(lambda: cds._exon_iter(False))
    out["to_dict_T"] = attempt(lambda: cds.to_dict(True))
    out["to_dict_F"] = attempt(lambda: cds.to_dict(False))
    out["from_dict_roundtrip"] = attempt(
        lambda: CDSInterval.from_dict(cds.to_dict(), cds._parent_or_seq_chunk_parent)
    )
    # fast path of extract_sequence on a fresh object, cached-codon path on another fresh object
    out["extract_sequence_fast"] = attempt(lambda: make().extract_sequence())

    def cached_path():
        c = make()
        codons = c.chunk_relative_codon_locations
        return (c._chunk_relative_codon_locations_cached, len(codons), c.extract_sequence())

    out["extract_sequence_cached"] = attempt(cached_path)
    out["num_codons"] = attempt(lambda: cds.num_codons)
    out["num_chunk_relative_codons"] = attempt(lambda: cds.num_chunk_relative_codons)
    out["chunk_codons"] = attempt(lambda: cds.chunk_relative_codon_locations)
    out["chrom_codons"] = attempt(lambda: cds.chromosome_codon_locations)
    out["deprecated_scan"] = attempt(lambda: cds.scan_codon_locations())
    for truncate in (False, True):
        out[f"scan_codons_{truncate}"] = attempt(lambda: cds.scan_codons(truncate))
        for table in TranslationTable:
            for strict in (True, False):
                out[f"translate_{truncate}_{table.name}_{strict}"] = attempt(
                    lambda: make().translate(truncate, table, strict)
                )
    out["translate_default"] = attempt(lambda: cds.translate())
    out["translate_kw"] = attempt(lambda: cds.translate(strict=False, truncate_at_in_frame_stop=True))
    out["first_codon_is_on_chunk"] = attempt(lambda: cds._first_codon_is_on_chunk())
    out["has_valid_stop"] = attempt(lambda: cds.has_valid_stop)
    out["has_in_frame_stop"] = attempt(lambda: cds.has_in_frame_stop)
    out["has_canonical_start_codon"] = attempt(lambda: cds.has_canonical_start_codon)
    out["has_start_default"] = attempt(lambda: cds.has_start_codon_in_specific_translation_table())
    for table in TranslationTable:
        out[f"has_start_{table.name}"] = attempt(lambda: cds.has_start_codon_in_specific_translation_table(table))
    for start, end in WINDOWS:
        for expand in (False, True):
            key = f"{start}_{end}_{expand}"
            out[f"win_chunk_{key}"] = attempt(lambda: cds.scan_chunk_relative_codon_locations(start, end, expand))
            out[f"win_chrom_{key}"] = attempt(lambda: cds.scan_chromosome_codon_locations(start, end, expand))
            out[f"win_interval_{key}"] = attempt(
                lambda: cds._convert_chromosome_start_end_to_relative_window(start, end, expand)
            )
        if start is not None and end is not None:
            out[f"expand_{start}_{end}"] = attempt(lambda: cds._expand_coordinates_to_codons(start, end))
    for chrom_flag in (True, False):
        out[f"gff_{chrom_flag}"] = attempt(
            lambda: [str(row) for row in cds.to_gff(chromosome_relative_coordinates=chrom_flag)]
        )
    out["gff_parent"] = attempt(
        lambda: [
            str(row)
            for row in cds.to_gff(
                parent="tx1", parent_qualifiers={"gene": {"abc"}, "product": {"other"}}, chromosome_relative_coordinates=True
            )
        ]
    )
    out["export_qualifiers"] = attempt(lambda: cds.export_qualifiers())
    out["export_qualifiers_parent"] = attempt(
        lambda: cds.export_qualifiers({"product": {"zzz"}, "extra": {"1", "2"}, "protein_id": set()})
    )
    out["qualifiers_untouched"] = attempt(lambda: cds.qualifiers)
    out["optimize_blocks"] = attempt(lambda: cds.optimize_blocks())
    out["optimize_and_combine_blocks"] = attempt(lambda: cds.optimize_and_combine_blocks())
    for pos in (0, 1, 2, 5, 17, len(cds) - 1, len(cds)):
        out[f"cds_pos_to_sequence_{pos}"] = attempt(lambda: cds.cds_pos_to_sequence(pos))
        out[f"cds_pos_to_chunk_relative_{pos}"] = attempt(lambda: cds.cds_pos_to_chunk_relative(pos))
    for pos in (cds.start, cds.start + 4, cds.end - 1, cds.end):
        out[f"sequence_pos_to_cds_{pos}"] = attempt(lambda: cds.sequence_pos_to_cds(pos))
        out[f"sequence_pos_to_amino_acid_{pos}"] = attempt(lambda: cds.sequence_pos_to_amino_acid(pos))
        out[f"chunk_relative_pos_to_cds_{pos}"] = attempt(lambda: cds.chunk_relative_pos_to_cds(pos))
    out["cds_interval_to_sequence"] = attempt(lambda: cds.cds_interval_to_sequence(1, 8, Strand.PLUS))
    out["cds_interval_to_chunk_relative"] = attempt(lambda: cds.cds_interval_to_chunk_relative(1, 8, Strand.PLUS))
    out["sequence_interval_to_cds"] = attempt(
        lambda: cds.sequence_interval_to_cds(cds.start + 1, cds.end - 1, Strand.PLUS)
    )
    out["chunk_relative_interval_to_cds"] = attempt(
        lambda: cds.chunk_relative_interval_to_cds(
            cds.chunk_relative_location.start, cds.chunk_relative_location.end, Strand.PLUS
        )
    )
    # variant incorporation re-derives the frames from the lifted location
    for v_start, v_end, v_seq, v_type in (
        (cds.start + 1, cds.start + 2, "G", "SNV"),
        (cds.start + 1, cds.start + 2, "GTT", "insertion"),
        (cds.end - 3, cds.end - 1, "A", "deletion"),
        (cds.start, cds.end, "A", "deletion"),
    ):

        def with_variant():
            variant = VariantInterval(
                v_start, v_end, v_seq, v_type, parent_or_seq_chunk_parent=cds._parent_or_seq_chunk_parent
            )
            new = cds.incorporate_variants(variant)
            return (new, new.frames, attempt(new.extract_sequence), attempt(new.translate))

        out[f"variant_{v_start - cds.start}_{v_end - cds.start}_{v_seq}"] = attempt(with_variant)
    # prepared windows (private, but they are the heart of the property)
    for flag in (True, False):
        out[f"prepare_single_{flag}"] = attempt(
            lambda: make()._prepare_single_exon_window_for_scan_codon_locations(None, flag)
        )
        out[f"prepare_multi_{flag}"] = attempt(
            lambda: make()._prepare_multi_exon_window_for_scan_codon_locations(None, flag)
        )
    return out


# -- input generation ---------------------------------------------------------------------------------------------
def random_genome(rng):
    bases = "ACGT" * 6 + "N"
    seq = "".join(rng.choice(bases) for _ in range(GENOME_LEN))
    # sprinkle start / stop codons so that the start-codon rules and truncation are exercised
    chars = list(seq)
    for _ in range(10):
        pos = rng.randrange(0, GENOME_LEN - 3)
        chars[pos : pos + 3] = rng.choice(["ATG", "TTG", "GTG", "CAT", "CAA", "TAA", "TTA", "TAG", "CTA", "TGA", "TCA"])
    # lower case on purpose in some places
    for _ in range(5):
        pos = rng.randrange(0, GENOME_LEN)
        chars[pos] = chars[pos].lower()
    return "".join(chars)


def random_layout(rng):
    n = rng.choice([1, 1, 2, 2, 3, 3, 4, 5])
    pos = rng.randrange(5, 30)
    starts, ends = [], []
    for _ in range(n):
        length = rng.choice([1, 2, 3, 4, 5, 6, 7, 8, 9, 10, 11, 12, 15, 20])
        starts.append(pos)
        ends.append(pos + length)
        pos = pos + length + rng.choice([0, 0, 1, 2, 3, 5, 8])  # 0bp gaps on purpose
    return starts, ends


def build_cases():
    rng = random.Random(20261003)
    cases = []
    for idx in range(60):
        genome = random_genome(rng)
        starts, ends = random_layout(rng)
        strand = rng.choice([Strand.PLUS, Strand.MINUS]) if idx % 15 else Strand.UNSTRANDED
        n = len(starts)
        if n == 1:
            loc = SingleInterval(starts[0], ends[0], strand)
        else:
            loc = CompoundInterval(starts, ends, strand)
        mode = idx % 4
        if mode in (0, 1):
            frames = CDSInterval.construct_frames_from_location(loc, CDSFrame(idx % 3))
        elif mode == 2:
            frames = [rng.choice([CDSFrame.ZERO, CDSFrame.ONE, CDSFrame.TWO]) for _ in range(n)]
        else:
            frames = [rng.choice([CDSPhase.ZERO, CDSPhase.ONE, CDSPhase.TWO]) for _ in range(n)]
        qualifiers = rng.choice([None, {"note": ["a", "b"]}, {"product": ["x"], "k": [1]}])
        protein_id = rng.choice([None, "prot1", ""])
        product = rng.choice([None, "prod1"])

        parent_kinds = ["chrom", "none"]
        # a few chunks: covering everything, cutting the 5' side, the 3' side, the middle, one exon only
        lo, hi = starts[0], ends[-1]
        chunks = [
            (0, GENOME_LEN),
            (max(0, lo - 3), hi + 3),
            (lo + 1, hi),
            (lo + 2, hi + 4),
            (lo, hi - 1),
            (lo + rng.randrange(0, max(1, (hi - lo) // 2)), hi - rng.randrange(0, max(1, (hi - lo) // 2))),
            (starts[-1], ends[-1]),
            (starts[0], ends[0]),
            (rng.randrange(lo, hi), hi + 10),
            (max(0, lo - 10), rng.randrange(lo + 1, hi + 1)),
            (hi + 2, hi + 12),  # does not overlap the CDS at all
        ]
        for kind in parent_kinds + chunks:

            def make(kind=kind, genome=genome, starts=starts, ends=ends, strand=strand, frames=frames):
                if kind == "chrom":
                    parent = seq_to_parent(genome, seq_id="chr1")
                elif kind == "none":
                    parent = None
                else:
                    c_start, c_end = kind
                    if c_end <= c_start:
                        return "skipped"
                    parent = seq_chunk_to_parent(genome[c_start:c_end], "chr1", c_start, c_end)
                try:
                    return CDSInterval(
                        list(starts),
                        list(ends),
                        strand,
                        list(frames),
                        sequence_name="chr1",
                        protein_id=protein_id,
                        product=product,
                        qualifiers=qualifiers,
                        parent_or_seq_chunk_parent=parent,
                    )
                except Exception as e:  # noqa
                    return f"EXC {type(e).__name__}: {e}"

            cases.append((f"cds{idx}_{strand.name}_{starts}_{ends}_{[f.name for f in frames]}_{kind}", make))
    return cases


def observe_constructors():
    out = {}
    parent = seq_to_parent("ACGT" * 20, seq_id="chr1")

    def ctor(frames, starts=(0, 10), ends=(5, 18)):
        return CDSInterval(list(starts), list(ends), Strand.PLUS, frames, parent_or_seq_chunk_parent=parent)

    out["mix_fp"] = attempt(lambda: ctor([CDSFrame.ZERO, CDSPhase.ONE]))
    out["mix_pf"] = attempt(lambda: ctor([CDSPhase.ZERO, CDSFrame.ONE]))
    out["mix_fpf"] = attempt(lambda: ctor([CDSFrame.ZERO, CDSFrame.ONE, CDSPhase.ONE], (0, 10, 20), (5, 18, 25)))
    out["mix_ppf"] = attempt(lambda: ctor([CDSPhase.ZERO, CDSPhase.ONE, CDSFrame.ONE], (0, 10, 20), (5, 18, 25)))
    out["mismatch_len"] = attempt(lambda: ctor([CDSFrame.ZERO]))
    out["ints"] = attempt(lambda: ctor([0, 1]))
    out["int_then_frame"] = attempt(lambda: ctor([0, CDSFrame.ONE]))
    out["int_then_phase"] = attempt(lambda: ctor([0, CDSPhase.ONE]))
    out["frame_then_int"] = attempt(lambda: ctor([CDSFrame.ONE, 0]))
    out["phases"] = attempt(lambda: ctor([CDSPhase.ZERO, CDSPhase.ONE]))
    out["phase_none"] = attempt(lambda: ctor([CDSPhase.NONE, CDSPhase.TWO]))
    out["empty"] = attempt(lambda: ctor([], (), ()))
    out["zero_len"] = attempt(lambda: ctor([CDSFrame.ZERO], (4,), (4,)))
    out["guid_given"] = attempt(
        lambda: CDSInterval([0], [9], Strand.MINUS, [CDSFrame.ZERO], guid="myguid", parent_or_seq_chunk_parent=parent).guid
    )
    chunk = seq_chunk_to_parent("ACGTACGTAC", "chr1", 10, 20)
    out["from_location"] = attempt(
        lambda: CDSInterval.from_location(SingleInterval(2, 11, Strand.MINUS, parent), [CDSFrame.ONE], product="p")
    )
    out["from_location_chunk"] = attempt(
        lambda: CDSInterval.from_location(SingleInterval(2, 9, Strand.MINUS, chunk), [CDSFrame.ONE])
    )
    out["from_chunk_relative_location"] = attempt(
        lambda: CDSInterval.from_chunk_relative_location(SingleInterval(2, 9, Strand.MINUS, chunk), [CDSPhase.ONE])
    )
    out["from_chunk_relative_location_nochunk"] = attempt(
        lambda: CDSInterval.from_chunk_relative_location(SingleInterval(2, 9, Strand.MINUS, parent), [CDSPhase.ONE])
    )
    out["to_bed12"] = attempt(lambda: ctor([CDSFrame.ZERO, CDSFrame.TWO]).to_bed12())
    out["gff_no_chunk"] = attempt(
        lambda: list(ctor([CDSFrame.ZERO, CDSFrame.TWO]).to_gff(chromosome_relative_coordinates=False))
    )
    return out


def observe_frames():
    out = {}
    for frame in CDSFrame:
        out[f"{frame}_to_phase"] = attempt(lambda: frame.to_phase())
        for shift in list(range(-13, 14)) + [30, 31, 32, -30, -31, -32, True, False]:
            out[f"{frame}_shift_{shift!r}"] = attempt(lambda: frame.shift(shift))
    for phase in CDSPhase:
        out[f"{phase}_to_frame"] = attempt(lambda: phase.to_frame())
        out[f"{phase}_to_gff"] = attempt(lambda: phase.to_gff())
    for value in (-2, -1, 0, 1, 2, 3, "0", None):
        out[f"frame_from_int_{value!r}"] = attempt(lambda: CDSFrame.from_int(value))
        out[f"phase_from_int_{value!r}"] = attempt(lambda: CDSPhase.from_int(value))
    out["members"] = attempt(lambda: (list(CDSFrame), list(CDSPhase)))

    rng = random.Random(77)
    locations = [
        SingleInterval(3, 20, Strand.PLUS),
        SingleInterval(3, 20, Strand.MINUS),
        CompoundInterval([0, 7, 12], [5, 11, 18], Strand.PLUS),
        CompoundInterval([0, 7, 12], [5, 11, 18], Strand.MINUS),
        CompoundInterval([0, 7, 12], [5, 11, 18], Strand.UNSTRANDED),
        CompoundInterval([0, 5], [5, 11], Strand.PLUS),
        CompoundInterval([0, 1, 2, 3], [1, 2, 3, 9], Strand.MINUS),
        EmptyLocation(),
    ]
    for _ in range(40):
        starts, ends = random_layout(rng)
        strand = rng.choice([Strand.PLUS, Strand.MINUS, Strand.UNSTRANDED])
        locations.append(CompoundInterval(starts, ends, strand))
    for i, loc in enumerate(locations):
        out[f"construct_default_{i}_{loc}"] = attempt(lambda: CDSInterval.construct_frames_from_location(loc))
        for frame in CDSFrame:
            out[f"construct_{i}_{loc}_{frame}"] = attempt(
                lambda: CDSInterval.construct_frames_from_location(loc, frame)
            )
    return out


def observe_codons():
    out = {}
    bases = "ACGTN"
    strings = [a + b + c for a in bases for b in bases for c in bases]
    strings += ["atg", "Ttg", "AUG", "RYK", "WSM", "BDH", "VNN", "AT", "ATGA", "", "XYZ", "A-T", "at g"]
    for s in strings:
        def make():
            return Codon(s)

        out[f"codon_{s}"] = attempt(make)
        # a second construction goes through the singleton cache
        out[f"codon_again_{s}"] = attempt(make)
        try:
            codon = make()
        except Exception:  # noqa
            continue
        out[f"codon_{s}_identity"] = attempt(lambda: (codon is Codon(s.lower()), codon == Codon(s), codon == s))
        out[f"codon_{s}_strs"] = attempt(lambda: (str(codon), repr(codon), codon.value, codon.name, hash(codon) == hash(s.upper())))
        out[f"codon_{s}_translate"] = attempt(lambda: (codon.translate(), codon.translate(True), codon.translate(False)))
        out[f"codon_{s}_translate_odd"] = attempt(lambda: (codon.translate(None), codon.translate(1), codon.translate(strict=0)))
        out[f"codon_{s}_syn"] = attempt(lambda: codon.synonymous_codons())
        out[f"codon_{s}_syn_self"] = attempt(lambda: codon.synonymous_codons(True))
        out[f"codon_{s}_flags"] = attempt(
            lambda: (codon.is_stop_codon, codon.is_strict_codon, codon.is_canonical_start_codon)
        )
        out[f"codon_{s}_start_default"] = attempt(lambda: codon.is_start_codon_in_specific_translation_table())
        for table in list(TranslationTable) + [0, 1, 11, 2, None]:
            out[f"codon_{s}_start_{table!r}"] = attempt(
                lambda: codon.is_start_codon_in_specific_translation_table(table)
            )
    out["codon_from_sequence"] = attempt(lambda: Codon(Sequence("atg", Alphabet.NT_STRICT)))
    out["start_table"] = attempt(
        lambda: [(k, type(v).__name__, sorted(str(c) for c in v)) for k, v in START_CODONS_BY_TRANSLATION_TABLE.items()]
    )
    out["tables"] = attempt(lambda: list(TranslationTable))
    return out


def dump(path):
    results = {}
    for name, make in build_cases():
        results[name] = observe_cds(make)
    results["constructors"] = observe_constructors()
    results["frames"] = observe_frames()
    results["codons"] = observe_codons()
    with open(path, "w") as fh:
        json.dump(results, fh, indent=0, sort_keys=True)
    n = sum(len(v) for v in results.values())
    n_exc = sum(1 for v in results.values() for x in v.values() if x.startswith("EXC"))
    print(f"wrote {len(results)} groups / {n} observations ({n_exc} of them exceptions) to {path}")


def compare(path_a, path_b):
    with open(path_a) as fh:
        a = json.load(fh)
    with open(path_b) as fh:
        b = json.load(fh)
    bad = 0
    for group in sorted(set(a) | set(b)):
        ga, gb = a.get(group, {}), b.get(group, {})
        for key in sorted(set(ga) | set(gb)):
            if ga.get(key) != gb.get(key):
                bad += 1
                if bad <= 25:
                    print(f"DIFF {group} :: {key}\n   A: {ga.get(key)}\n   B: {gb.get(key)}")
    total = sum(len(v) for v in a.values())
    print(f"{'EQUIVALENT' if bad == 0 else 'DIFFERENT'}: {bad} differing observations out of {total}")
    return 1 if bad else 0


if __name__ == "__main__":
    if sys.argv[1] == "dump":
        dump(sys.argv[2])
    elif sys.argv[1] == "compare":
        sys.exit(compare(sys.argv[2], sys.argv[3]))
    else:
        sys.exit(__doc__)
