"""Equivalence script for refactoring R2 of property C01 (Location <-> parent coordinate maps).

Refactored code: CompoundInterval._sort_starts_ends / _single_intervals / scan_blocks / parent_to_relative_pos / relative_to_parent_pos.
The script exercises the whole public coordinate API (which reaches the refactored code from every caller) plus the
FeatureInterval wrappers, on pristine and on patched code, and compares the recorded results.

Usage (from the worktree root):
    /venv/bin/python _refactor/R2/equiv.py dump  _refactor/tmp/pristine.json     # on the pristine checkout
    git apply _refactor/R2/patch.diff
    /venv/bin/python _refactor/R2/equiv.py dump  _refactor/tmp/patched.json
    /venv/bin/python _refactor/R2/equiv.py compare _refactor/tmp/pristine.json _refactor/tmp/patched.json

Every call is recorded as either ("ok", <type/str/repr/parent/blocks of the result>) or
("exc", <exception class name>, <message>), keyed by a description of the call.
"""
import itertools
import json
import os
import random
import sys

sys.path.insert(0, os.getcwd())  # run from the worktree root: import the checkout's own package

import inscripta.biocantor.location  # noqa: F401  (must come first: circular import otherwise)
from inscripta.biocantor.location.location_impl import SingleInterval, CompoundInterval, EmptyLocation
from inscripta.biocantor.location.strand import Strand
from inscripta.biocantor.parent import Parent, SequenceType
from inscripta.biocantor.sequence.alphabet import Alphabet
from inscripta.biocantor.sequence.sequence import Sequence
from inscripta.biocantor.gene.feature import FeatureInterval

STRANDS = [Strand.PLUS, Strand.MINUS, Strand.UNSTRANDED]
GENOME = "ACGTTGCAAGCTTAGGCTAACGTAGCTAGGATCCGATTACAGGCATCGATCGGATATCGCGTTAACC"  # 66 nt


def seq_to_parent(seq, seq_id=None, seq_type=SequenceType.CHROMOSOME):
    # copy of inscripta.biocantor.io.parser.seq_to_parent (not importable here)
    return Parent(
        sequence=Sequence(seq, Alphabet.NT_EXTENDED_GAPPED, type=seq_type, id=seq_id),
        location=SingleInterval(0, len(seq), Strand.PLUS),
    )


def seq_chunk_to_parent(seq, sequence_name, start, end, strand=Strand.PLUS):
    # copy of inscripta.biocantor.io.parser.seq_chunk_to_parent
    chunk_id = f"{sequence_name}:{start}-{end}"
    return Parent(
        id=chunk_id,
        sequence=Sequence(
            seq,
            Alphabet.NT_EXTENDED_GAPPED,
            id=chunk_id,
            type=SequenceType.SEQUENCE_CHUNK,
            parent=Parent(
                location=SingleInterval(
                    start,
                    end,
                    strand,
                    parent=Parent(id=sequence_name, sequence_type=SequenceType.CHROMOSOME),
                )
            ),
        ),
    )


def show(x):
    """Stable textual rendering of any result."""
    if isinstance(x, (SingleInterval, CompoundInterval)):
        return "|".join(
            [
                type(x).__name__,
                str(x),
                repr(x),
                "parent=" + repr(x.parent),
                "strand=" + x.strand.name,
                "len=%d" % len(x),
                "blocks=" + ",".join("%d-%d:%s" % (b.start, b.end, b.strand.name) for b in x.blocks),
            ]
        )
    if x is EmptyLocation():
        return "EmptyLocation"
    if isinstance(x, (list, tuple)):
        return "[" + "; ".join(show(i) for i in x) + "]"
    return "%s:%r" % (type(x).__name__, x)


def call(results, key, fn):
    assert key not in results, key
    try:
        results[key] = ["ok", show(fn())]
    except Exception as e:  # noqa
        results[key] = ["exc", type(e).__name__, str(e)]


def layouts():
    """Block layouts: list of (starts, ends). Lengths incl. 0, gaps incl. 0 and negative (overlap)."""
    out = []
    lens = [0, 1, 3]
    gaps = [-2, 0, 2]
    for first in (0, 2):
        for k in (1, 2, 3):
            for ls in itertools.product(lens, repeat=k):
                for gs in itertools.product(gaps, repeat=k - 1):
                    starts, ends = [], []
                    pos = first
                    ok = True
                    for i, ln in enumerate(ls):
                        if i > 0:
                            pos = ends[-1] + gs[i - 1]
                        if pos < 0:
                            ok = False
                            break
                        starts.append(pos)
                        ends.append(pos + ln)
                    if ok:
                        out.append((tuple(starts), tuple(ends)))
    # dedupe, keep order
    seen = set()
    uniq = []
    for lay in out:
        if lay not in seen:
            seen.add(lay)
            uniq.append(lay)
    rnd = random.Random(1234)
    picked = [lay for lay in uniq if len(lay[0]) == 1]
    two = [lay for lay in uniq if len(lay[0]) == 2]
    three = [lay for lay in uniq if len(lay[0]) == 3]
    picked += rnd.sample(two, min(30, len(two)))
    picked += rnd.sample(three, min(40, len(three)))
    # a few bigger / unsorted / nested hand-made layouts
    picked += [
        ((5, 12, 20, 30), (9, 15, 27, 31)),
        ((20, 5, 30, 12), (27, 9, 31, 15)),  # unsorted input
        ((3, 3, 10), (8, 5, 14)),  # nested/overlapping, same start
        ((0, 4, 4, 9), (4, 4, 9, 12)),  # adjacent + empty
        ((1, 6, 6, 6, 11), (6, 6, 6, 11, 11)),
        ((2, 4, 6, 8, 10, 12), (3, 5, 7, 9, 11, 13)),
    ]
    return picked


def make_locations(parent_kind):
    locs = []
    for starts, ends in layouts():
        for strand in STRANDS:
            if parent_kind == "none":
                parent = None
            elif parent_kind == "seq":
                parent = seq_to_parent(GENOME, seq_id="chr1")
            else:
                parent = Parent(id="p1", sequence_type="chromosome")
            name = "%s/%s/%s/%s" % (parent_kind, starts, ends, strand.name)
            if len(starts) == 1:
                try:
                    locs.append(("S/" + name, SingleInterval(starts[0], ends[0], strand, parent)))
                except Exception:
                    pass
            try:
                locs.append(("C/" + name, CompoundInterval(starts, ends, strand, parent)))
            except Exception:
                pass
    return locs


def query_locations(loc, parent_kind, rnd):
    """Query locations on the same parent for location_relative_to / parent_to_relative_location."""

    def par():
        if parent_kind == "none":
            return None
        if parent_kind == "seq":
            return seq_to_parent(GENOME, seq_id="chr1")
        return Parent(id="p1", sequence_type="chromosome")

    hi = loc.end + 2
    spans = [(s, e) for s in range(0, hi) for e in range(s, hi + 1)]
    if len(spans) > 25:
        spans = rnd.sample(spans, 25)
    qs = []
    for s, e in spans:
        for strand in STRANDS:
            qs.append(("S(%d,%d,%s)" % (s, e, strand.name), lambda s=s, e=e, strand=strand: SingleInterval(s, e, strand, par())))
    # compound queries
    for _ in range(6):
        k = rnd.choice([2, 3])
        pts = sorted(rnd.randint(0, hi) for _ in range(2 * k))
        starts, ends = tuple(pts[0::2]), tuple(pts[1::2])
        for strand in STRANDS:
            qs.append(
                (
                    "C(%s,%s,%s)" % (starts, ends, strand.name),
                    lambda starts=starts, ends=ends, strand=strand: CompoundInterval(starts, ends, strand, par()),
                )
            )
    # overlapping compound query
    for strand in (Strand.PLUS, Strand.MINUS):
        qs.append(
            (
                "Cov(%s)" % strand.name,
                lambda strand=strand: CompoundInterval((0, 1, 4), (3, 6, 4 + hi), strand, par()),
            )
        )
    # mismatched parent
    qs.append(("S-otherparent", lambda: SingleInterval(0, hi, Strand.PLUS, Parent(id="other"))))
    qs.append(("S-noparent", lambda: SingleInterval(0, hi, Strand.PLUS)))
    qs.append(("Empty", lambda: EmptyLocation()))
    return qs


def location_section(results, sections):
    rnd = random.Random(99)
    for parent_kind in ("none", "seq", "idonly"):
        for name, loc in make_locations(parent_kind):
            if "structure" in sections:
                call(results, name + "::struct", lambda: (loc._starts, loc._ends) if isinstance(loc, CompoundInterval) else (loc.start, loc.end))
                call(results, name + "::show", lambda: loc)
                call(results, name + "::scan_blocks", lambda: list(loc.scan_blocks()))
            if "pos" in sections:
                for p in range(-1, loc.end + 2):
                    call(results, name + "::p2r(%d)" % p, lambda: loc.parent_to_relative_pos(p))
                for r in range(-2, len(loc) + 2):
                    call(results, name + "::r2p(%d)" % r, lambda: loc.relative_to_parent_pos(r))
            if "interval" in sections and parent_kind != "idonly":
                n = len(loc)
                pairs = [(s, e) for s in range(-1, n + 2) for e in range(-1, n + 2)]
                if len(pairs) > 60:
                    valid = [(s, e) for s, e in pairs if 0 <= s <= e <= n]
                    pairs = rnd.sample(valid, min(45, len(valid))) + rnd.sample(pairs, 15)
                    pairs = sorted(set(pairs))
                for s, e in pairs:
                    for rs in STRANDS:
                        call(
                            results,
                            name + "::ri2p(%d,%d,%s)" % (s, e, rs.name),
                            lambda: loc.relative_interval_to_parent_location(s, e, rs),
                        )
            if "windows" in sections and parent_kind == "none":
                for w, st, sp in ((1, 1, 0), (2, 1, 0), (2, 3, 1), (3, 2, 0), (1, 1, 5), (0, 1, 0)):
                    call(results, name + "::win(%d,%d,%d)" % (w, st, sp), lambda: list(loc.scan_windows(w, st, sp)))
            if "relative" in sections:
                seenq = set()
                for qname, mk in query_locations(loc, parent_kind, rnd):
                    if qname in seenq:
                        continue
                    seenq.add(qname)
                    try:
                        q = mk()
                    except Exception:
                        continue
                    for opt in (True, False):
                        call(
                            results,
                            name + "::q.location_relative_to(loc)[%s,%s]" % (qname, opt),
                            lambda: q.location_relative_to(loc, optimize_blocks=opt),
                        )
                    call(results, name + "::loc.p2rl[%s]" % qname, lambda: loc.parent_to_relative_location(q))
                    call(
                        results,
                        name + "::loc.p2rl-noopt[%s]" % qname,
                        lambda: loc.parent_to_relative_location(q, optimize_blocks=False),
                    )
                    # and the reverse direction (loc relative to the query)
                    if not qname.startswith("Empty"):
                        call(results, name + "::loc.location_relative_to(q)[%s]" % qname, lambda: loc.location_relative_to(q))


def strand_section(results):
    for a in STRANDS:
        for b in STRANDS:
            call(results, "strand::%s.relative_to(%s)" % (a.name, b.name), lambda: a.relative_to(b))
        call(results, "strand::%s.reverse" % a.name, lambda: a.reverse())


def feature_section(results):
    rnd = random.Random(7)
    feats = [
        ((2, 8, 12), (5, 13, 18)),
        ((12,), (28,)),
        ((0, 7), (7, 9)),
        ((10, 20, 30, 40), (15, 25, 36, 44)),
        ((15, 20), (20, 28)),
    ]
    parents = {
        "none": lambda: None,
        "chrom": lambda: seq_to_parent(GENOME, seq_id="chr1"),
        "chunk+": lambda: seq_chunk_to_parent(GENOME[10:50], "chr1", 10, 50),
        "chunk-": lambda: seq_chunk_to_parent(GENOME[10:50], "chr1", 10, 50, Strand.MINUS),
        "chunk-small": lambda: seq_chunk_to_parent(GENOME[14:33], "chr1", 14, 33),
    }
    for (starts, ends), strand, (pk, mkp) in itertools.product(feats, (Strand.PLUS, Strand.MINUS), parents.items()):
        name = "F/%s/%s/%s/%s" % (starts, ends, strand.name, pk)
        try:
            f = FeatureInterval(list(starts), list(ends), strand, parent_or_seq_chunk_parent=mkp())
        except Exception as e:  # noqa
            results[name + "::ctor"] = ["exc", type(e).__name__, str(e)]
            continue
        call(results, name + "::chrom_loc", lambda: f.chromosome_location)
        call(results, name + "::chunk_loc", lambda: f.chunk_relative_location)
        hi = ends[-1] + 2
        n = sum(e - s for s, e in zip(starts, ends))
        for p in range(max(0, starts[0] - 2), hi):
            call(results, name + "::seq_pos_to_feature(%d)" % p, lambda: f.sequence_pos_to_feature(p))
            call(results, name + "::chunk_pos_to_feature(%d)" % p, lambda: f.chunk_relative_pos_to_feature(p))
        for r in range(-1, n + 2):
            call(results, name + "::feature_pos_to_seq(%d)" % r, lambda: f.feature_pos_to_sequence(r))
            call(results, name + "::feature_pos_to_chunk(%d)" % r, lambda: f.feature_pos_to_chunk_relative(r))
        spans = [(s, e) for s in range(0, hi) for e in range(s, hi + 1)]
        for s, e in rnd.sample(spans, 30):
            for qs in STRANDS:
                call(
                    results,
                    name + "::seq_interval_to_feature(%d,%d,%s)" % (s, e, qs.name),
                    lambda: f.sequence_interval_to_feature(s, e, qs),
                )
                call(
                    results,
                    name + "::chunk_interval_to_feature(%d,%d,%s)" % (s, e, qs.name),
                    lambda: f.chunk_relative_interval_to_feature(s, e, qs),
                )
        rspans = [(s, e) for s in range(0, n + 1) for e in range(s, n + 2)]
        for s, e in rnd.sample(rspans, min(30, len(rspans))):
            for qs in STRANDS:
                call(
                    results,
                    name + "::feature_interval_to_seq(%d,%d,%s)" % (s, e, qs.name),
                    lambda: f.feature_interval_to_sequence(s, e, qs),
                )
                call(
                    results,
                    name + "::feature_interval_to_chunk(%d,%d,%s)" % (s, e, qs.name),
                    lambda: f.feature_interval_to_chunk_relative(s, e, qs),
                )


def run(sections):
    results = {}
    strand_section(results)
    location_section(results, sections)
    if "feature" in sections:
        feature_section(results)
    return results


def main(sections):
    if len(sys.argv) >= 3 and sys.argv[1] == "dump":
        results = run(sections)
        os.makedirs(os.path.dirname(os.path.abspath(sys.argv[2])), exist_ok=True)
        with open(sys.argv[2], "w") as fh:
            json.dump(results, fh, sort_keys=True)
        n_exc = sum(1 for v in results.values() if v[0] == "exc")
        print("recorded %d calls (%d ok, %d raising)" % (len(results), len(results) - n_exc, n_exc))
    elif len(sys.argv) >= 4 and sys.argv[1] == "compare":
        a = json.load(open(sys.argv[2]))
        b = json.load(open(sys.argv[3]))
        bad = [k for k in sorted(set(a) | set(b)) if a.get(k) != b.get(k)]
        for k in bad[:40]:
            print("DIFF", k, "\n   pristine:", a.get(k), "\n   patched: ", b.get(k))
        print("compared %d calls: %d differences" % (len(set(a) | set(b)), len(bad)))
        sys.exit(1 if bad else 0)
    else:
        print(__doc__)
        sys.exit(2)


if __name__ == "__main__":
    main({"structure", "pos", "interval", "windows", "relative", "feature"})
