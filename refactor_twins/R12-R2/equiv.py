"""
Equivalence script for refactoring R2 (feature grouping in io/genbank/parser.py).

Usage (from the worktree root):
    git checkout -- inscripta && /venv/bin/python _refactor/R2/equiv.py save      # pristine baseline
    git apply _refactor/R2/patch.diff && /venv/bin/python _refactor/R2/equiv.py compare

Compares, between the pristine and the refactored parser:
 * parse_genbank (SORTED / LOCUS_TAG / HYBRID; models, collections, warnings in order, exceptions) on the files written
   from 42 generated collections x 2 flavours x options,
 * the same on ~500 perturbed files (shuffled / reversed feature tables, dropped gene features, dropped or duplicated
   locus tags, exon features, CDS exceeding exons, mixed-strand features, duplicated features, extra features),
 * direct calls of _sort_features_by_position_and_type, _group_sorted_features_by_type, _group_features_by_position,
   _group_features_by_locus_tag and HybridGenBankParser._identify_locus_tag_collisions on 400 random synthetic feature
   lists (all known feature types plus unknown ones, random locus tags, equal start positions); groups are compared by
   the identity (index) of their members, warnings in order, exceptions with the warnings emitted before them.
"""
# flake8: noqa
# ==== shared harness (shims, generators, round-trip observers) ========================================
_HARNESS_DOC = """
Shared harness for the C12 refactoring equivalence scripts.

Provides (a) compatibility shims so that the GenBank writer/parser and io.models import and run in this environment
(Biopython 1.88 dropped SeqFeature(strand=...), SeqFeature.strand and nofuzzy_start/nofuzzy_end; marshmallow 4 renamed
post_dump(pass_many=...); PyVCF is not installed), (b) deterministic generators of gene models / feature collections,
and (c) a full round-trip observer: collection -> GenBank text -> Bio.SeqIO -> parse_genbank in each parser mode.

The shims never touch the library under test: they only patch third-party packages.
"""
import io
import json
import os
import random
import sys
import types
import warnings

if os.environ.get("PYTHONHASHSEED") != "0":
    # qualifier value lists are built from sets: fix the hash seed so that runs are comparable
    os.environ["PYTHONHASHSEED"] = "0"
    os.execv(sys.executable, [sys.executable] + sys.argv)

# locate the worktree root (the directory that holds the `inscripta` package) walking up from this file
_d = os.path.dirname(os.path.abspath(__file__))
while _d != "/" and not os.path.isdir(os.path.join(_d, "inscripta")):
    _d = os.path.dirname(_d)
ROOT = _d
sys.path.insert(0, ROOT)

# ---------------------------------------------------------------- third party shims
import marshmallow  # noqa: E402

_orig_post_dump = marshmallow.post_dump


def _post_dump(fn=None, pass_many=False, pass_original=False, **kw):
    try:
        return _orig_post_dump(fn, pass_collection=pass_many, pass_original=pass_original)
    except TypeError:
        return _orig_post_dump(fn, pass_many=pass_many, pass_original=pass_original)


marshmallow.post_dump = _post_dump

if "vcf" not in sys.modules:
    _vcf = types.ModuleType("vcf")
    _vcf.model = types.ModuleType("vcf.model")

    class _Record:  # noqa
        pass

    _vcf.model._Record = _Record
    sys.modules["vcf"] = _vcf
    sys.modules["vcf.model"] = _vcf.model

import Bio.SeqFeature as _bsf  # noqa: E402

_SeqFeature = _bsf.SeqFeature
if not hasattr(_SeqFeature, "strand"):
    _orig_init = _SeqFeature.__init__

    def _init(self, location=None, type="", id="<unknown id>", qualifiers=None, sub_features=None, strand=None, **kw):
        _orig_init(self, location=location, type=type, id=id, qualifiers=qualifiers, sub_features=sub_features)
        if strand is not None:
            self.location.strand = strand

    def _get_strand(self):
        return self.location.strand

    def _set_strand(self, value):
        self.location.strand = value

    _SeqFeature.__init__ = _init
    _SeqFeature.strand = property(_get_strand, _set_strand)

for _cls in (_bsf.SimpleLocation, _bsf.CompoundLocation):
    if not hasattr(_cls, "nofuzzy_start"):
        _cls.nofuzzy_start = property(lambda self: int(self.start))
        _cls.nofuzzy_end = property(lambda self: int(self.end))

# ---------------------------------------------------------------- library imports (location first: circular import)
import inscripta.biocantor.location  # noqa: E402,F401
from Bio import SeqIO  # noqa: E402
from inscripta.biocantor.gene import (  # noqa: E402
    AnnotationCollection,
    GeneInterval,
    TranscriptInterval,
    FeatureInterval,
    FeatureIntervalCollection,
    Biotype,
    CDSFrame,
)
from inscripta.biocantor.location import Strand, SingleInterval, CompoundInterval  # noqa: E402
from inscripta.biocantor.parent import Parent, SequenceType  # noqa: E402
from inscripta.biocantor.sequence.alphabet import Alphabet  # noqa: E402
from inscripta.biocantor.sequence.sequence import Sequence  # noqa: E402
import inscripta.biocantor.io.genbank.writer as writer  # noqa: E402
import inscripta.biocantor.io.genbank.parser as gbparser  # noqa: E402
from inscripta.biocantor.io.genbank.constants import GenbankFlavor, GenBankParserType  # noqa: E402
from inscripta.biocantor.io.models import AnnotationCollectionModel  # noqa: E402


from inscripta.biocantor.io.parser import seq_to_parent, seq_chunk_to_parent, ParsedAnnotationRecord  # noqa: E402


# ---------------------------------------------------------------- generators
def rand_seq(rng, n):
    return "".join(rng.choice("ACGT") for _ in range(n))


def rand_blocks(rng, lo, hi, nblocks):
    """nblocks disjoint, non-adjacent, sorted blocks inside [lo, hi)"""
    while True:
        pts = sorted(rng.sample(range(lo, hi), 2 * nblocks))
        starts, ends = pts[0::2], pts[1::2]
        if all(e > s for s, e in zip(starts, ends)) and all(starts[i + 1] > ends[i] for i in range(nblocks - 1)):
            return starts, ends


def gen_transcript(rng, lo, hi, strand, coding, idx, gidx, with_ids=True, biotype=None):
    nblocks = rng.choice([1, 1, 2, 3, 4])
    starts, ends = rand_blocks(rng, lo, hi, nblocks)
    d = dict(exon_starts=starts, exon_ends=ends, strand=strand.name, qualifiers={"note": [f"tx{gidx}_{idx}"]})
    if with_ids:
        d["transcript_id"] = f"TX{gidx}.{idx}"
        d["transcript_symbol"] = f"sym{gidx}.{idx}"
    if coding:
        # CDS = a sub-interval of the exons
        exon = CompoundInterval(starts, ends, strand)
        n = len(exon)
        a = rng.randrange(0, max(1, n // 3))
        b = rng.randrange(max(a + 1, n - n // 3), n + 1)
        if b <= a:
            b = a + 1
        cds = exon.relative_interval_to_parent_location(a, b, Strand.PLUS)
        cds_starts = [x.start for x in cds.blocks]
        cds_ends = [x.end for x in cds.blocks]
        from inscripta.biocantor.gene import CDSInterval

        frame = CDSFrame.from_int(rng.choice([0, 0, 1, 2]))
        frames = CDSInterval.construct_frames_from_location(cds, frame)
        d.update(cds_starts=cds_starts, cds_ends=cds_ends, cds_frames=[f.name for f in frames])
        d["protein_id"] = f"PROT{gidx}.{idx}"
        d["product"] = f"product {gidx}.{idx}"
        d["transcript_type"] = Biotype.protein_coding.name
        if rng.random() < 0.4:
            # as found after parsing a GenBank file that carried /translation
            d["qualifiers"]["translation"] = ["MKVSTALE"]
            d["qualifiers"]["codon_start"] = ["1"]
    else:
        d["transcript_type"] = (biotype or rng.choice([Biotype.tRNA, Biotype.rRNA, Biotype.ncRNA, Biotype.misc_RNA, Biotype.lncRNA])).name
    return d


def gen_gene(rng, lo, hi, gidx, mixed_strand=False):
    strand = rng.choice([Strand.PLUS, Strand.MINUS])
    coding = rng.random() < 0.6
    ntx = rng.choice([1, 1, 2, 3])
    txs = []
    for i in range(ntx):
        s = strand
        if mixed_strand and i > 0 and rng.random() < 0.5:
            s = strand.reverse()
        txs.append(gen_transcript(rng, lo, hi, s, coding, i, gidx, with_ids=rng.random() < 0.9))
    g = dict(transcripts=txs, qualifiers={"gene_note": [f"g{gidx}"]})
    style = rng.randrange(5)
    if style in (0, 1):
        g.update(gene_id=f"GID{gidx}", gene_symbol=f"gene{gidx}", locus_tag=f"LT_{gidx:04d}")
    elif style == 2:
        g.update(gene_id=f"GID{gidx}", locus_tag=f"LT_{gidx:04d}")
    elif style == 3:
        g.update(gene_symbol=f"gene{gidx}")
    else:
        g.update(gene_id=f"GID{gidx}")
    g["gene_type"] = txs[0]["transcript_type"]
    return g


def gen_feature_collection(rng, lo, hi, fidx, mixed_strand=False):
    strand = rng.choice([Strand.PLUS, Strand.MINUS])
    feats = []
    for i in range(rng.choice([1, 2, 3])):
        starts, ends = rand_blocks(rng, lo, hi, rng.choice([1, 1, 2, 3]))
        s = strand
        if mixed_strand and i > 0 and rng.random() < 0.5:
            s = strand.reverse()
        f = dict(
            interval_starts=starts,
            interval_ends=ends,
            strand=s.name,
            qualifiers={"fnote": [f"f{fidx}_{i}"]},
            feature_types=[rng.choice(["promoter", "terminator", "site"])],
        )
        if rng.random() < 0.8:
            f["feature_name"] = f"fname{fidx}.{i}"
        if rng.random() < 0.8:
            f["feature_id"] = f"fid{fidx}.{i}"
        feats.append(f)
    fc = dict(feature_intervals=feats, qualifiers={"fc_note": [f"fc{fidx}"]})
    style = rng.randrange(4)
    if style == 0:
        fc.update(feature_collection_name=f"fc{fidx}", feature_collection_id=f"FCID{fidx}", locus_tag=f"FLT_{fidx:04d}")
    elif style == 1:
        fc.update(feature_collection_id=f"FCID{fidx}")
    elif style == 2:
        fc.update(feature_collection_name=f"fc{fidx}")
    else:
        fc.update(locus_tag=f"FLT_{fidx:04d}")
    return fc


def gen_collection_dict(rng, seqlen, ngenes, nfcs, name, mixed_strand=False, window=None):
    """Genes are laid out in consecutive windows so that a file is position sorted with unique locus tags."""
    lo0, hi0 = window if window else (0, seqlen)
    n = ngenes + nfcs
    width = (hi0 - lo0) // max(n, 1)
    genes, fcs = [], []
    kinds = ["g"] * ngenes + ["f"] * nfcs
    rng.shuffle(kinds)
    for i, k in enumerate(kinds):
        lo, hi = lo0 + i * width, lo0 + (i + 1) * width - 2
        if k == "g":
            genes.append(gen_gene(rng, lo, hi, i, mixed_strand))
        else:
            fcs.append(gen_feature_collection(rng, lo, hi, i, mixed_strand))
    return dict(genes=genes, feature_collections=fcs, name=name, sequence_name=name, qualifiers={"organism": ["test"]})


def build_collection(d, parent):
    model = AnnotationCollectionModel.Schema().load(d)
    return model.to_annotation_collection(parent)


def make_cases(seed=12, n_random=30):
    """Returns list of (label, [AnnotationCollection, ...])."""
    rng = random.Random(seed)
    cases = []
    for i in range(n_random):
        seqlen = rng.choice([600, 900, 1500])
        seq = rand_seq(rng, seqlen)
        ngenes = rng.choice([1, 1, 2, 3, 5])
        nfcs = rng.choice([0, 0, 1, 2])
        mixed = i % 7 == 3
        d = gen_collection_dict(rng, seqlen, ngenes, nfcs, f"chr{i}", mixed_strand=mixed)
        cases.append((f"full{i}", [build_collection(d, seq_to_parent(seq, seq_id=f"chr{i}"))]))
    # chunk parents: sequence is a chunk [cs, ce) of a longer chromosome; annotations live inside the chunk
    for i in range(8):
        cs = rng.choice([100, 250, 1000])
        clen = rng.choice([600, 900])
        seq = rand_seq(rng, clen)
        d = gen_collection_dict(rng, clen, rng.choice([1, 2, 3]), rng.choice([0, 1]), f"chunk{i}", window=(cs, cs + clen))
        d.update(start=cs, end=cs + clen)
        cases.append((f"chunk{i}", [build_collection(d, seq_chunk_to_parent(seq, f"chunk{i}", cs, cs + clen))]))
    # multiple collections in a single file
    multi = []
    for i in range(3):
        seq = rand_seq(rng, 900)
        d = gen_collection_dict(rng, 900, 2, 1, f"multi{i}")
        multi.append(build_collection(d, seq_to_parent(seq, seq_id=f"multi{i}")))
    cases.append(("multi", multi))
    return cases


# ---------------------------------------------------------------- observers
def seqfeature_repr(f):
    loc = f.location
    parts = [(int(p.start), int(p.end), p.strand) for p in loc.parts]
    return dict(type=f.type, parts=parts, strand=loc.strand, qualifiers={k: list(v) for k, v in f.qualifiers.items()})


def _w(ws):
    return [(w.category.__name__, str(w.message)) for w in ws]


def write_genbank(collections, **kwargs):
    """returns dict with text (or error) and warnings"""
    buf = io.StringIO()
    with warnings.catch_warnings(record=True) as ws:
        warnings.simplefilter("always")
        try:
            writer.collection_to_genbank(collections, buf, **kwargs)
            out = dict(text=buf.getvalue())
        except Exception as e:  # noqa
            out = dict(error=f"{type(e).__name__}: {e}")
    out["warnings"] = _w(ws)
    return out


def read_independent(text):
    recs = list(SeqIO.parse(io.StringIO(text), "genbank"))
    return [dict(id=r.id, name=r.name, seq=str(r.seq), annotations={k: str(v) for k, v in r.annotations.items()},
                 features=[seqfeature_repr(f) for f in r.features]) for r in recs]


def parse_back(text, mode):
    with warnings.catch_warnings(record=True) as ws:
        warnings.simplefilter("always")
        try:
            recs = list(gbparser.parse_genbank(io.StringIO(text), gbk_type=mode))
            res = []
            for rec in recs:
                coll = rec.to_annotation_collection()
                res.append(dict(model=json.loads(json.dumps(AnnotationCollectionModel.Schema().dump(rec.annotation), default=str, sort_keys=True)),
                                coll=json.loads(json.dumps(coll.to_dict(), default=str, sort_keys=True)),
                                str=str(coll)))
            out = dict(records=res)
        except Exception as e:  # noqa
            out = dict(error=f"{type(e).__name__}: {e}")
    out["warnings"] = _w(ws)
    return out


def normalise(x):
    """JSON normalisation that sorts qualifier value lists that come from sets (hash-order dependent)."""
    return json.loads(json.dumps(x, default=str, sort_keys=True))


def roundtrip(collections, **kwargs):
    res = {}
    for flavor in (GenbankFlavor.PROKARYOTIC, GenbankFlavor.EUKARYOTIC):
        for upd in (False, True):
            for force in (True, False):
                key = f"{flavor.name}/upd={upd}/force={force}"
                w = write_genbank(collections, genbank_type=flavor, update_translations=upd, force_strand=force, **kwargs)
                entry = dict(write=w)
                if "text" in w:
                    entry["independent"] = read_independent(w["text"])
                    for mode in GenBankParserType:
                        entry[f"parse/{mode.name}"] = parse_back(w["text"], mode)
                res[key] = entry
    return res


def save_or_compare(results, path_dir, tag):
    """First call (no baseline): save. Later: compare with baseline and report."""
    os.makedirs(path_dir, exist_ok=True)
    base = os.path.join(path_dir, f"{tag}.baseline.json")
    results = normalise(results)
    mode = sys.argv[1] if len(sys.argv) > 1 else ("compare" if os.path.exists(base) else "save")
    if mode == "save":
        with open(base, "w") as fh:
            json.dump(results, fh, sort_keys=True)
        print(f"saved baseline with {len(results)} entries to {base}")
        return 0
    with open(base) as fh:
        old = json.load(fh)
    bad = [k for k in sorted(set(old) | set(results)) if old.get(k) != results.get(k)]
    if bad:
        print(f"DIFFERENCES in {len(bad)} of {len(results)} entries: {bad[:10]}")
        return 1
    print(f"IDENTICAL: {len(results)} entries compared")
    return 0


# ---------------------------------------------------------------- perturbed GenBank files (parser-side stress)
def mutate_records(text, rng):
    """Parse `text` independently, perturb the feature table in ways real-world files do, and re-serialise."""
    import copy
    from Bio.SeqFeature import SimpleLocation, CompoundLocation

    recs = list(SeqIO.parse(io.StringIO(text), "genbank"))
    ops = rng.sample(
        ["shuffle", "drop_gene", "drop_some_gene", "drop_locus_tag", "dup_locus_tag", "add_exon", "mrna_to_exon",
         "cds_exceeds", "codon_start", "pseudo", "drop_mrna", "misc_feature", "mixed_strand", "dup_feature",
         "reverse", "source"],
        rng.choice([1, 2, 3]),
    )
    for rec in recs:
        feats = rec.features
        for op in ops:
            if not feats:
                break
            if op == "shuffle":
                rng.shuffle(feats)
            elif op == "reverse":
                feats.reverse()
            elif op == "drop_gene":
                feats[:] = [f for f in feats if f.type != "gene"] or feats
            elif op == "drop_some_gene":
                feats[:] = [f for f in feats if f.type != "gene" or rng.random() < 0.5] or feats
            elif op == "drop_locus_tag":
                for f in feats:
                    if rng.random() < 0.4:
                        f.qualifiers.pop("locus_tag", None)
            elif op == "dup_locus_tag":
                tags = sorted({f.qualifiers["locus_tag"][0] for f in feats if "locus_tag" in f.qualifiers})
                if len(tags) > 1:
                    for f in feats:
                        if f.qualifiers.get("locus_tag", [None])[0] == tags[1]:
                            f.qualifiers["locus_tag"] = [tags[0]]
            elif op == "add_exon":
                for f in [f for f in feats if f.type == "mRNA"]:
                    e = copy.deepcopy(f)
                    e.type = "exon"
                    feats.insert(feats.index(f) + 1, e)
            elif op == "mrna_to_exon":
                for f in feats:
                    if f.type == "mRNA" and rng.random() < 0.5:
                        f.type = "exon"
            elif op == "cds_exceeds":
                for f in feats:
                    if f.type == "CDS" and len(f.location.parts) == 1 and int(f.location.start) > 5:
                        f.location = SimpleLocation(int(f.location.start) - 3, int(f.location.end), f.location.strand)
            elif op == "codon_start":
                for f in feats:
                    if f.type == "CDS":
                        f.qualifiers["codon_start"] = [str(rng.choice([1, 2, 3]))]
            elif op == "pseudo":
                for f in feats:
                    if f.type != "gene" and rng.random() < 0.3:
                        f.qualifiers["pseudo"] = [""]
            elif op == "drop_mrna":
                feats[:] = [f for f in feats if f.type != "mRNA"] or feats
            elif op == "misc_feature":
                f = _SeqFeature(SimpleLocation(3, 30, 1), type="misc_feature")
                f.qualifiers = {"note": ["extra"]}
                if rng.random() < 0.5:
                    f.qualifiers["locus_tag"] = ["EXTRA_1"]
                feats.insert(rng.randrange(len(feats) + 1), f)
                g = _SeqFeature(SimpleLocation(40, 60, -1), type="regulatory")
                g.qualifiers = {"note": ["extra2"], "regulatory_class": ["promoter"]}
                feats.insert(rng.randrange(len(feats) + 1), g)
            elif op == "mixed_strand":
                f = _SeqFeature(CompoundLocation([SimpleLocation(3, 10, 1), SimpleLocation(20, 30, -1)]), type="tRNA")
                f.qualifiers = {"locus_tag": ["MIXED_1"]}
                feats.insert(rng.randrange(len(feats) + 1), f)
            elif op == "dup_feature":
                f = copy.deepcopy(rng.choice(feats))
                feats.insert(rng.randrange(len(feats) + 1), f)
            elif op == "source":
                f = _SeqFeature(SimpleLocation(0, len(rec.seq), 1), type="source")
                f.qualifiers = {"organism": ["Test organism"], "mol_type": ["genomic DNA"]}
                feats.insert(0, f)
    buf = io.StringIO()
    with warnings.catch_warnings():
        warnings.simplefilter("ignore")
        SeqIO.write(recs, buf, "genbank")
    return ops, buf.getvalue()


def perturbed_parse_results(cases, seed=99, per_case=3):
    """For each case write in both flavours, perturb the file `per_case` times and parse in all three modes."""
    rng = random.Random(seed)
    res = {}
    for label, colls in cases:
        for flavor in (GenbankFlavor.PROKARYOTIC, GenbankFlavor.EUKARYOTIC):
            w = write_genbank(colls, genbank_type=flavor, update_translations=True)
            if "text" not in w:
                continue
            for j in range(per_case):
                ops, text = mutate_records(w["text"], rng)
                entry = dict(ops=ops, independent=read_independent(text))
                for mode in GenBankParserType:
                    entry[f"parse/{mode.name}"] = parse_back(text, mode)
                res[f"{label}/{flavor.name}/mut{j}"] = entry
    return res


# ==== R2 specific part ============================================================
from Bio.SeqFeature import SimpleLocation  # noqa: E402
from Bio.SeqRecord import SeqRecord  # noqa: E402
from Bio.Seq import Seq  # noqa: E402

TYPES = ["gene", "mRNA", "CDS", "tRNA", "rRNA", "ncRNA", "misc_RNA", "tmRNA", "exon", "repeat_region"]
WEIGHTS = [6, 5, 6, 2, 1, 2, 1, 1, 2, 1]


def synth_features(rng, n):
    feats = []
    for i in range(n):
        start = rng.choice([0, 0, 10, 10, 20, 35, 50, 50, 80])
        f = bsf_feature(SimpleLocation(start, start + rng.randrange(5, 40), rng.choice([1, -1])),
                        rng.choices(TYPES, WEIGHTS)[0])
        f.qualifiers = {"locus_tag": [rng.choice(["A", "A", "B", "C", "D"])], "idx": [str(i)]}
        feats.append(f)
    return feats


def bsf_feature(loc, type_):
    from Bio.SeqFeature import SeqFeature

    return SeqFeature(loc, type=type_)


def idx(f):
    return None if f is None else int(f.qualifiers["idx"][0])


def capture(fn):
    with warnings.catch_warnings(record=True) as ws:
        warnings.simplefilter("always")
        try:
            out = dict(result=fn())
        except Exception as e:  # noqa
            out = dict(error=f"{type(e).__name__}: {e}")
    out["warnings"] = [(w.category.__name__, str(w.message)) for w in ws]
    return out


def grouped_repr(groups):
    return [dict(gene=idx(g.gene_feature), tx=[idx(f) for f in g.transcript_features],
                 cds=[idx(f) for f in g.cds_features], rec=g.seqrecord.id) for g in groups]


def new_parser(cls, recs):
    return cls(recs, None, gbparser.GeneFeature.to_gene_model, gbparser.FeatureIntervalGenBankCollection.to_feature_model)


def direct_calls(n=400, seed=2):
    rng = random.Random(seed)
    res = {}
    rec = SeqRecord(Seq("A" * 200), id="rec0")
    rec2 = SeqRecord(Seq("A" * 200), id="rec1")
    P = gbparser.BaseGenBankParser
    for i in range(n):
        feats = synth_features(rng, rng.randrange(0, 12))
        res[f"sort{i}"] = capture(lambda: [idx(f) for f in P._sort_features_by_position_and_type(feats)])
        sorted_feats = P._sort_features_by_position_and_type(feats)
        for name, fl in (("raw", feats), ("sorted", sorted_feats)):
            # consume lazily, recording the number of warnings seen before each group: interleaving is observable
            def lazy(fl=fl):
                out = []
                with warnings.catch_warnings(record=True) as ws:
                    warnings.simplefilter("always")
                    for g in P._group_sorted_features_by_type(fl):
                        out.append((len(ws), [idx(f) for f in g]))
                    out.append((len(ws), "end"))
                return out
            res[f"group_{name}{i}"] = capture(lazy)

            def bypos(fl=fl):
                p = new_parser(gbparser.SortedGenBankParser, [rec, rec2])
                p._group_features_by_position(fl, rec2, 1)
                p._group_features_by_position(fl[: len(fl) // 2], rec2, 1)
                return [grouped_repr(x) for x in p.grouped_gene_features]
            res[f"bypos_{name}{i}"] = capture(bypos)
        for name, fl in (("raw", feats), ("tagsorted", sorted(feats, key=lambda f: f.qualifiers["locus_tag"]))):
            def bytag(fl=fl):
                p = new_parser(gbparser.LocusTagGenBankParser, [rec, rec2])
                state = {}
                try:
                    p._group_features_by_locus_tag(fl, rec, 0)
                    p._group_features_by_locus_tag(fl[: len(fl) // 2], rec, 0)
                finally:
                    state["groups"] = [grouped_repr(x) for x in p.grouped_gene_features]
                return state["groups"]
            res[f"bytag_{name}{i}"] = capture(bytag)
        # a feature without a locus tag reaches the locus tag grouping: exception after the earlier warnings
        if feats:
            broken = list(feats)
            nolt = bsf_feature(SimpleLocation(1, 5, 1), "tRNA")
            nolt.qualifiers = {"idx": ["99"]}
            broken.insert(rng.randrange(len(broken) + 1), nolt)
            res[f"bytag_broken{i}"] = capture(
                lambda: new_parser(gbparser.LocusTagGenBankParser, [rec])._group_features_by_locus_tag(broken, rec, 0))

        def collisions():
            p = new_parser(gbparser.HybridGenBankParser, [rec, rec2])
            half = len(feats) // 2
            p.gene_filtered_features[0].extend(sorted(feats[:half], key=lambda f: f.qualifiers["locus_tag"]))
            p.gene_filtered_features[1].extend(sorted(feats[half:], key=lambda f: f.qualifiers["locus_tag"]))
            extra = synth_features(rng, 3)
            for j, f in enumerate(extra):
                f.qualifiers = {"idx": [str(100 + j)]}
            p.gene_filtered_features_without_locus_tag[0].extend(extra)
            p._identify_locus_tag_collisions()
            return dict(good=[[idx(f) for f in x] for x in p.gene_filtered_features],
                        without=[[idx(f) for f in x] for x in p.gene_filtered_features_without_locus_tag])
        res[f"collide{i}"] = capture(collisions)
    return res


if __name__ == "__main__":
    cases = make_cases()
    results = {}
    for label, colls in cases:
        for k, v in roundtrip(colls).items():
            results[f"rt/{label}/{k}"] = v
    results.update({f"mut/{k}": v for k, v in perturbed_parse_results(cases, per_case=6).items()})
    results.update({f"direct/{k}": v for k, v in direct_calls().items()})
    sys.exit(save_or_compare(results, os.path.join(ROOT, "_refactor", "tmp"), "R2"))
